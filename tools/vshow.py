#!/usr/bin/env python3
"""Show the last event of replay files whose verdict matches action (and optional inv/field substring)."""
import json, sys, glob
action = sys.argv[1]; sub = sys.argv[2] if len(sys.argv) > 2 else ""
n = 0
import os
for p, d in enumerate(json.load(open(os.environ.get("V", "/tmp/t1/vm.json")))):
    v = d["verdict"]
    if v.get("action") != action or sub not in json.dumps(v):
        continue
    n += 1
    if n > int(sys.argv[3]) if len(sys.argv) > 3 else n > 1:
        break
    print("==", p, "fields", v["fields"], "invs", v["invs"], "exp/obs raises", v["expraises"], v["obsraises"], "pal", v.get("palette"))
    print("ops:", [o["a"] for o in d["replay"]["behaviour"]["ops"]])
    print("last op:", json.dumps(d["replay"]["behaviour"]["ops"][-1]))
    tail = d["replay"].get("trace_tail", [])
    for e in tail[-2:]:
        for si, o in enumerate(e["obs"]):
            if not o.get("present"): continue
            keep = {k: o[k] for k in ("rxns","mets","genes","groups","S","lb","ub","rgenes","gprgenes","geneRxns","metRxns","rxnMets","member","pos","getok","owner","func","objc","dir","inexact","ctx") if k in o}
            print(" slot", si + 1, "after", e["op"]["a"], "raises", e["raises"], "ret", {k: v for k, v in e["ret"].items() if v and k != "med"})
            for k, val in keep.items():
                print("    ", k, json.dumps(val))
