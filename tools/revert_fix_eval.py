#!/usr/bin/env python3
"""Binding demonstration over the repaired defects: for every `fixed` entry of known_findings.json revert that
fix commit in a scratch worktree of /repo HEAD and run the property's quick check against it (PYTHONPATH); the
check must report a VIOLATION ("fixed entries suppress nothing: the violation is reported again if it returns").
usage: tools/revert_fix_eval.py [ids...]  -> table on stdout, JSON in /verif/seeded/revert_fix_results.json"""
import json, os, subprocess, sys
kf = json.load(open("/verif/known_findings.json"))["findings"]
want = set(sys.argv[1:])
resfile = "/verif/seeded/revert_fix_results.json"
results = json.load(open(resfile)) if os.path.exists(resfile) else {}
for f in kf:
    if f.get("status") != "fixed" or not f.get("commit"):
        continue
    if want and f["id"] not in want:
        continue
    if not want and f["id"] in results and results[f["id"]]["result"] in ("DETECTED",):
        continue
    wt = "/tmp/revwt_%s_%d" % (f["id"], os.getpid())
    subprocess.run(["git", "-C", "/repo", "worktree", "add", "-q", "--detach", wt, "HEAD"], check=True)
    try:
        p = subprocess.run(["git", "-C", wt, "revert", "--no-commit", f["commit"]], stdout=subprocess.PIPE, stderr=subprocess.STDOUT)
        if p.returncode != 0:
            results[f["id"]] = {"property": f["property"], "commit": f["commit"], "result": "REVERT-CONFLICT"}
            print(f["id"], f["property"], f["commit"], "REVERT-CONFLICT (later commits touch the same lines)")
            continue
        env = dict(os.environ, PYTHONPATH=os.path.join(wt, "src"), VERIF_REPO=wt, VERIF_SEED="0", VERIF_NO_EVIDENCE="1")
        q = subprocess.run(["./check", f["property"], "--tier", "quick"], cwd="/verif", env=env, stdout=subprocess.PIPE, stderr=subprocess.STDOUT)
        out = q.stdout.decode("utf-8", "replace")
        nviol = sum(1 for l in out.splitlines() if l.startswith("VIOLATION"))
        res = "DETECTED" if q.returncode == 1 and nviol else ("MISSED" if q.returncode == 0 else "BROKEN rc=%d" % q.returncode)
        results[f["id"]] = {"property": f["property"], "commit": f["commit"], "result": res, "violation_lines": nviol}
        print(f["id"], f["property"], f["commit"], res, nviol, flush=True)
    finally:
        subprocess.run(["git", "-C", "/repo", "worktree", "remove", "--force", wt], check=False)
        json.dump(results, open(resfile, "w"), indent=1, sort_keys=True)
