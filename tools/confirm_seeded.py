#!/usr/bin/env python3
"""Confirm a seeded change independently: in a scratch worktree of /repo HEAD the demo passes, with the
patch it fails, and the pinned test suite (497 stable tests) still passes with the patch.
usage: tools/confirm_seeded.py <seeded-id> ; appends the result to seeded/<id>/meta.json ("ran")."""
import json, os, subprocess, sys
sid = sys.argv[1]
d = os.path.join("/verif/seeded", sid)
wt = "/tmp/confwt_%s_%d" % (sid, os.getpid())
subprocess.run(["git", "-C", "/repo", "worktree", "add", "-q", "--detach", wt, "HEAD"], check=True)
env = dict(os.environ, PYTHONPATH=os.path.join(wt, "src"))
env.pop("COBRA_VERIF", None)
out = {}
try:
    def demo():
        p = subprocess.run(["/venv/bin/python", os.path.join(d, "demo.py")], cwd=wt, env=env, stdout=subprocess.PIPE, stderr=subprocess.STDOUT)
        return p.returncode, p.stdout.decode("utf-8", "replace").strip().splitlines()[-1:] 
    out["demo_without_patch"] = demo()
    subprocess.run(["git", "-C", wt, "apply", os.path.join(d, "patch.diff")], check=True)
    out["demo_with_patch"] = demo()
    p = subprocess.run(["/verif/tools/baseline_check.py", wt], stdout=subprocess.PIPE, stderr=subprocess.STDOUT)
    out["suite_with_patch"] = p.stdout.decode().strip().splitlines()[:3]
    out["suite_ok"] = p.returncode == 0
finally:
    subprocess.run(["git", "-C", "/repo", "worktree", "remove", "--force", wt], check=False)
ok = out["demo_without_patch"][0] == 0 and out["demo_with_patch"][0] != 0 and out["suite_ok"]
out["confirmed"] = ok
mp = os.path.join(d, "meta.json")
m = json.load(open(mp)) if os.path.exists(mp) else {}
m["ran"] = out
json.dump(m, open(mp, "w"), indent=1)
print(sid, "CONFIRMED" if ok else "NOT CONFIRMED", json.dumps(out)[:400])
