#!/bin/bash
# usage: tools/store_seeded.sh <Cxx> <seeded-name> [worktree]   (copies patch/demo/meta from the agent's worktree, removes it)
id=$1; n=$2; wt=${3:-/tmp/wt2_$id}
mkdir -p /verif/seeded/$n
cp $wt/patch_$id.diff /verif/seeded/$n/patch.diff; cp $wt/demo_$id.py /verif/seeded/$n/demo.py
python3 - $id $n $wt <<'PY'
import json,sys
id,n,wt=sys.argv[1:]
m=json.load(open('%s/meta_%s.json'%(wt,id)))
out={"id":n,"property":id,"summary":m.get("summary"),"needs_to_manifest":m.get("needs_to_manifest"),"files_changed":m.get("files_changed"),"source":"fresh sub-agent given only the property text and a scratch worktree"}
json.dump(out,open('/verif/seeded/%s/meta.json'%n,'w'),indent=1)
PY
git -C /repo worktree remove --force $wt
