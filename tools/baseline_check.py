#!/venv/bin/python
"""Run the repository's baseline test command (guard OFF) and compare with BASELINE.json's stable_pass list.
usage: tools/baseline_check.py [repo_dir]   -> exit 0 iff every stable_pass test passed."""
import json, os, subprocess, sys, tempfile
import xml.etree.ElementTree as ET
repo = sys.argv[1] if len(sys.argv) > 1 else "/repo"
base = json.load(open("/root/.vp/BASELINE.json"))
fd, xml = tempfile.mkstemp(suffix=".xml"); os.close(fd)
env = dict(os.environ); env.pop("COBRA_VERIF", None)
env["PYTHONPATH"] = os.path.join(repo, "src")
subprocess.run(["/venv/bin/python", "-m", "pytest", "-ra", "-q", "-p", "no:cacheprovider", "--timeout=900",
                "--continue-on-collection-errors", "--junitxml=" + xml], cwd=repo, env=env,
               stdout=subprocess.DEVNULL, stderr=subprocess.DEVNULL)
passed = set()
for tc in ET.parse(xml).getroot().iter("testcase"):
    if not any(ch.tag in ("failure", "error", "skipped") for ch in tc):
        passed.add(tc.get("classname") + "::" + tc.get("name"))
os.unlink(xml)
missing = [t for t in base["stable_pass"] if t not in passed]
print("stable_pass: %d, passed now: %d, missing: %d" % (len(base["stable_pass"]), len(passed), len(missing)))
for t in missing[:40]:
    print("  NOT PASSING:", t)
sys.exit(1 if missing else 0)
