#!/bin/sh
# usage: tools/sweep.sh "<seeds>" "<props>" [tier]   -> one summary line per run; verdict dumps under ./sweep_out/
mkdir -p sweep_out
for s in $1; do for p in $2; do
  VERIF_SEED=$s VERIF_DUMP_VERDICTS=sweep_out/v_${p}_$s.json ./check $p --tier ${3:-quick} 2>&1 | grep -v '^"{' | grep "held\|VIOLATED\|MACHINERY\|KNOWN" | cut -c1-220
done; done
