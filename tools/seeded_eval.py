#!/usr/bin/env python3
"""Apply a seeded change to /repo, run checks against it, undo it.
usage: tools/seeded_eval.py <seeded-id> <Cxx> [<Cyy> ...] [--tier quick|thorough] [--seed N]
Prints one line per check: DETECTED (exit 1 + VIOLATION line) / MISSED (exit 0) / BROKEN (exit 2)."""
import json, os, subprocess, sys
args = [a for a in sys.argv[1:] if not a.startswith("--")]
tier = "quick"; seed = "0"
for i, a in enumerate(sys.argv):
    if a == "--tier": tier = sys.argv[i + 1]
    if a == "--seed": seed = sys.argv[i + 1]
args = [a for a in args if a not in (tier, seed) or a.startswith("C")]
sid, checks = args[0], [a for a in args[1:] if a.startswith("C")]
d = os.path.join("/verif/seeded", sid)
patch = os.path.join(d, "patch.diff")
INPLACE = "--inplace" in sys.argv      # the official procedure: git apply in /repo itself, undone afterwards
wt = None
if INPLACE:
    st = subprocess.run(["git", "-C", "/repo", "status", "--porcelain", "--untracked-files=no"], stdout=subprocess.PIPE).stdout.decode().strip()
    if st:
        sys.exit("/repo is not clean: " + st)
    subprocess.run(["git", "-C", "/repo", "apply", patch], check=True)
else:
    # default while other work uses /repo: a scratch worktree of HEAD + PYTHONPATH (removed afterwards)
    wt = "/tmp/seedwt_%s_%d" % (sid, os.getpid())
    subprocess.run(["git", "-C", "/repo", "worktree", "add", "-q", "--detach", wt, "HEAD"], check=True)
    subprocess.run(["git", "-C", wt, "apply", patch], check=True)
res = {}
try:
    for c in checks:
        env = dict(os.environ, VERIF_SEED=seed, VERIF_NO_EVIDENCE="1")     # evidence/ is only written on the unchanged tree
        if wt:
            env["PYTHONPATH"] = os.path.join(wt, "src")
            env["VERIF_REPO"] = wt
        p = subprocess.run(["./check", c, "--tier", tier], cwd="/verif", env=env, stdout=subprocess.PIPE, stderr=subprocess.STDOUT)
        out = p.stdout.decode("utf-8", "replace")
        viol = [l for l in out.splitlines() if l.startswith("VIOLATION")]
        verdict = "DETECTED" if p.returncode == 1 and viol else ("MISSED" if p.returncode == 0 else "BROKEN(rc=%d)" % p.returncode)
        first = ""
        for l in out.splitlines():
            if l.strip().startswith("verdict:"):
                first = l.strip()[:300]; break
        print("%s %s tier=%s seed=%s: %s (%d VIOLATION lines) %s" % (sid, c, tier, seed, verdict, len(viol), first))
        res[c] = verdict
        if verdict.startswith("BROKEN"):
            print("\n".join(out.splitlines()[-15:]))
finally:
    if INPLACE:
        subprocess.run(["git", "-C", "/repo", "checkout", "--", "."], check=True)
    else:
        subprocess.run(["git", "-C", "/repo", "worktree", "remove", "--force", wt], check=False)
print(json.dumps(res))
