#!/usr/bin/env python3
"""Summarise a verdict dump (VERIF_DUMP_VERDICTS): classes by (action, fields, invs, raises)."""
import json, sys, collections
v = [d["verdict"] for d in json.load(open(sys.argv[1])) if not d.get("known")]
flt = sys.argv[2] if len(sys.argv) > 2 else None
c = collections.Counter(); ex = {}
for x in v:
    k = (x.get("action"), tuple(sorted(x.get("fieldnames", x.get("fields", [])))), tuple(sorted(x.get("invnames", x.get("invs", [])))),
         x.get("expraises"), x.get("obsraises"), tuple(sorted(set(t.split(":")[0] + ":" + t.split(":")[-1] for t in x.get("inexact", []))))[:4])
    if flt and flt not in str(k):
        continue
    c[k] += 1; ex.setdefault(k, x)
for k, n in sorted(c.items(), key=lambda kv: -kv[1])[:60]:
    e = ex[k]
    print(n, k)
    print("     e.g. tid=%s l=%s pal=%s tags=%s op=%s" % (e.get("tid"), e.get("l"), e.get("palette"), e.get("tags"), json.dumps(e.get("op"))[:300]))
print(len(v), "verdicts,", len(c), "classes")
