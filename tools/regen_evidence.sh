#!/bin/sh
# Re-run every registered check (quick tier) on the current /repo tree so that evidence/ is written by the
# checks themselves against the unchanged tree (seeded evaluations overwrite it). usage: tools/regen_evidence.sh [seed]
cd "$(dirname "$0")/.."
rm -rf replays
for p in $(python3 -c "import json;print(' '.join(c['property_id'] for c in json.load(open('MANIFEST.json'))['checks']))"); do
  VERIF_SEED=${1:-0} ./check $p --tier quick 2>&1 | grep -v '^"{' | grep "held\|VIOLATED\|MACHINERY" | cut -c1-160
done
