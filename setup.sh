#!/bin/sh
# Offline setup: parse every specification module (fails on a syntax error) and make the
# work directories.  Behaviour caches are (re)built on demand by the checks.
set -e
cd "$(dirname "$0")"
mkdir -p .work cache evidence replays
for f in specs/*.tla; do
  (cd specs && tla-sany "$(basename "$f")" > ../.work/sany.log 2>&1) || { cat .work/sany.log; echo "tla-sany failed on $f"; exit 1; }
done
/venv/bin/python -c "import cobra, swiglpk, optlang; print('cobra', cobra.__version__, 'from', cobra.__file__)"
echo setup ok
