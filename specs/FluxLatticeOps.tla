--------------------------- MODULE FluxLatticeOps ---------------------------
(***************************************************************************)
(* Variable-free operator module: the exact integer-lattice oracle for     *)
(* flux-balance problems on unit-network (totally unimodular) models.      *)
(*                                                                         *)
(* INSTANCE RECORD  M  (everything is indexed by POSITION, ids are names)  *)
(*   M.rxns : Seq(STRING)    reaction ids;   reactions are 1..Len(M.rxns)  *)
(*   M.mets : Seq(STRING)    metabolite ids; metabolites are 1..Len(M.mets)*)
(*   M.S    : Seq(Seq(Int))  M.S[r][m] = coefficient of metabolite m in    *)
(*                           reaction r (one row per REACTION)             *)
(*   M.lb, M.ub : Seq(Int)   bounds; the tokens NegInf (= -1000000) and    *)
(*                           Inf (= 1000000) mean "no bound"               *)
(*   M.c    : Seq(Int)       objective coefficients                        *)
(*   M.dir  : "max" | "min"                                                *)
(* A flux vector v is a Seq(Int) of length Len(M.rxns).                    *)
(*                                                                         *)
(* WHY THE LATTICE IS THE LP.  If every reaction has at most one +1 and at *)
(* most one -1 coefficient (IsUnitNetwork), S is a network matrix, hence   *)
(* totally unimodular [Schrijver, Theory of Linear and Integer Programming,*)
(* 19.3]; with integer bounds the polyhedron {S v = 0, lb <= v <= ub} is   *)
(* integral and stays integral under further BOUND-TYPE restrictions and   *)
(* on every face (19.1).  So every LP optimum / range end point is attained*)
(* at an integer point, and TLC's enumeration of the integer points is the *)
(* exact answer.  Infinite bounds: every vertex has |v[r]| <= the sum of   *)
(* the finite bound magnitudes (basic solutions of a TU system are signed  *)
(* sums of non-basic values), so clipping to +-Big(M) loses no vertex;     *)
(* unboundedness is decided on the recession cone, whose extreme rays lie  *)
(* in {-1,0,1}^n for the same reason.                                      *)
(*                                                                         *)
(* STABLE OPERATOR SIGNATURES (a second module may EXTEND this one)        *)
(*   NR(M) NM(M) RIdx(M) MIdx(M) PosOf(seq, id)                            *)
(*   IsUnitNetwork(M)  FinLB(M,r) FinUB(M,r) AllFinite(M)  Big(M)          *)
(*   Dot(a, b)                      sum of a[i]*b[i]                       *)
(*   Balanced(M, v)  InBounds(M, v)                                        *)
(*   Feasible(M)                    set of integer flux vectors (clipped)  *)
(*   WithBounds(M, r, lo, hi)  KnockOut(M, R)  WithObjective(M, c, dir)    *)
(*   SetMax(X) SetMin(X)                                                   *)
(*   OptIn(F, c, dir)  Opt(M)       optimum over a vector set / of M       *)
(*   Rays(M)  Infeasible(M) Unbounded(M) HasOpt(M) StatusClass(M)          *)
(*   ArgOpt(M)                      the optimal integer vectors            *)
(*   RangeIn(F, r)                  <<min, max>> of v[r] over the set F    *)
(*   Range(M, r, X(_))              ... over {v \in Feasible(M) : X(v)}    *)
(*   RangeUnb(M, r)                 <<min is -inf, max is +inf>>           *)
(*   ObjAtLeast(M, num, den, opt, v)  v keeps the objective at or beyond   *)
(*                                  num/den of opt (use inside a LAMBDA)   *)
(*   Blocked(M)   Internal(M) Boundary(M)                                  *)
(*   Cycles(M)  IsLoopless(M, v)  Loopless(M)                              *)
(*   L1(v)  MinL1In(F)                                                     *)
(*   DualFeasible(M, y, v)  DualCertExists(M, K)                           *)
(*   Decidable(M, q)   InScope_C04 / _C05 / _C19 / _C17                    *)
(*   fixed point (scale 10^6): Scale Tol FxInBounds FxBalanced FxObjOf ... *)
(***************************************************************************)
EXTENDS Integers, Sequences, FiniteSets, TLC

Inf == 1000000
NegInf == -1000000

NR(M) == Len(M.rxns)
NM(M) == Len(M.mets)
RIdx(M) == 1..Len(M.rxns)
MIdx(M) == 1..Len(M.mets)
PosOf(seq, id) == IF \E k \in 1..Len(seq) : seq[k] = id THEN CHOOSE k \in 1..Len(seq) : seq[k] = id ELSE 0

Abs(x) == IF x < 0 THEN -x ELSE x
Sign(x) == IF x > 0 THEN 1 ELSE IF x < 0 THEN -1 ELSE 0
MaxOf(a, b) == IF a > b THEN a ELSE b
MinOf(a, b) == IF a < b THEN a ELSE b

RECURSIVE DotUpTo(_, _, _)
DotUpTo(a, b, k) == IF k = 0 THEN 0 ELSE a[k] * b[k] + DotUpTo(a, b, k - 1)
Dot(a, b) == DotUpTo(a, b, Len(a))
RECURSIVE SumUpTo(_, _)
SumUpTo(a, k) == IF k = 0 THEN 0 ELSE a[k] + SumUpTo(a, k - 1)
SumSeq(a) == SumUpTo(a, Len(a))

SetMax(X) == CHOOSE x \in X : \A y \in X : y <= x
SetMin(X) == CHOOSE x \in X : \A y \in X : x <= y

\* ---------------------------------------------------------------- structure
NonZeros(M, r) == {m \in MIdx(M) : M.S[r][m] # 0}
\* at most one +1 and at most one -1 per reaction, nothing else
IsUnitNetwork(M) ==
  \A r \in RIdx(M) :
     /\ \A m \in MIdx(M) : M.S[r][m] \in {-1, 0, 1}
     /\ Cardinality({m \in MIdx(M) : M.S[r][m] = 1}) <= 1
     /\ Cardinality({m \in MIdx(M) : M.S[r][m] = -1}) <= 1
\* cobra's Reaction.boundary: exactly one metabolite
Boundary(M) == {r \in RIdx(M) : Cardinality(NonZeros(M, r)) = 1}
Internal(M) == RIdx(M) \ Boundary(M)

FinLB(M, r) == M.lb[r] > NegInf
FinUB(M, r) == M.ub[r] < Inf
AllFinite(M) == \A r \in RIdx(M) : FinLB(M, r) /\ FinUB(M, r)
BoundsOrdered(M) == \A r \in RIdx(M) : M.lb[r] <= M.ub[r]

\* clipping magnitude for infinite bounds (see the header)
FinMag(M, r) == MaxOf(IF FinLB(M, r) THEN Abs(M.lb[r]) ELSE 0, IF FinUB(M, r) THEN Abs(M.ub[r]) ELSE 0)
Big(M) == MaxOf(1, SumSeq([r \in RIdx(M) |-> FinMag(M, r)]))
Lo(M, r) == IF FinLB(M, r) THEN M.lb[r] ELSE -Big(M)
Hi(M, r) == IF FinUB(M, r) THEN M.ub[r] ELSE Big(M)

InBounds(M, v) == \A r \in RIdx(M) : (FinLB(M, r) => v[r] >= M.lb[r]) /\ (FinUB(M, r) => v[r] <= M.ub[r])
RowOf(M, m) == [r \in RIdx(M) |-> M.S[r][m]]
Balanced(M, v) == \A m \in MIdx(M) : Dot(RowOf(M, m), v) = 0

\* ---------------------------------------------------------------- the feasible lattice
\* vectors are built reaction by reaction; a metabolite row is tested as soon as the
\* last reaction that touches it has a value (pruning; same set as the definition
\*   {v \in [RIdx -> Lo..Hi] : Balanced(M, v)} )
LastRxn(M, m) == LET T == {r \in RIdx(M) : M.S[r][m] # 0} IN IF T = {} THEN 0 ELSE SetMax(T)
RECURSIVE ExtendTo(_, _, _, _, _)
ExtendTo(M, lo, hi, last, k) ==
  IF k = 0 THEN {<<>>}
  ELSE LET rows == {m \in MIdx(M) : last[m] = k} IN
       {t \in {Append(s, x) : s \in ExtendTo(M, lo, hi, last, k - 1), x \in lo[k]..hi[k]} :
           \A m \in rows : DotUpTo(RowOf(M, m), t, k) = 0}
FeasibleBox(M, lo, hi) == ExtendTo(M, lo, hi, [m \in MIdx(M) |-> LastRxn(M, m)], NR(M))
Feasible(M) == LET b == Big(M) IN
  FeasibleBox(M, [r \in RIdx(M) |-> IF FinLB(M, r) THEN M.lb[r] ELSE -b],
                 [r \in RIdx(M) |-> IF FinUB(M, r) THEN M.ub[r] ELSE b])

\* ---------------------------------------------------------------- derived instances
WithBounds(M, r, lo, hi) == [M EXCEPT !.lb[r] = lo, !.ub[r] = hi]
KnockOut(M, R) == [M EXCEPT !.lb = [r \in RIdx(M) |-> IF r \in R THEN 0 ELSE M.lb[r]],
                            !.ub = [r \in RIdx(M) |-> IF r \in R THEN 0 ELSE M.ub[r]]]
WithObjective(M, c, dir) == [M EXCEPT !.c = c, !.dir = dir]
Unit(M, r) == [k \in RIdx(M) |-> IF k = r THEN 1 ELSE 0]
ZeroVec(M) == [k \in RIdx(M) |-> 0]

\* ---------------------------------------------------------------- optimum, status
OptIn(F, c, dir) == LET vals == {Dot(c, v) : v \in F} IN IF dir = "max" THEN SetMax(vals) ELSE SetMin(vals)
\* the recession cone, cut to the unit box: {z : S z = 0, z[r] >= 0 if lb finite, z[r] <= 0 if ub finite}
Rays(M) == FeasibleBox(M, [r \in RIdx(M) |-> IF FinLB(M, r) THEN 0 ELSE -1],
                          [r \in RIdx(M) |-> IF FinUB(M, r) THEN 0 ELSE 1])
Improves(c, dir, z) == IF dir = "max" THEN Dot(c, z) > 0 ELSE Dot(c, z) < 0
Infeasible(M) == ~BoundsOrdered(M) \/ Feasible(M) = {}
Unbounded(M) == ~Infeasible(M) /\ \E z \in Rays(M) : Improves(M.c, M.dir, z)
HasOpt(M) == ~Infeasible(M) /\ ~Unbounded(M)
StatusClass(M) == IF Infeasible(M) THEN "infeasible" ELSE IF Unbounded(M) THEN "unbounded" ELSE "optimal"
Opt(M) == OptIn(Feasible(M), M.c, M.dir)                 \* meaningful iff HasOpt(M)
ArgOpt(M) == LET F == Feasible(M) o == OptIn(F, M.c, M.dir) IN {v \in F : Dot(M.c, v) = o}

\* ---------------------------------------------------------------- ranges
RangeIn(F, r) == LET vals == {v[r] : v \in F} IN <<SetMin(vals), SetMax(vals)>>
Range(M, r, X(_)) == RangeIn({v \in Feasible(M) : X(v)}, r)
RangeUnb(M, r) == LET Z == Rays(M) IN <<\E z \in Z : z[r] < 0, \E z \in Z : z[r] > 0>>
NoRestriction(v) == TRUE
\* "the objective stays at or beyond num/den of its optimum" (direction of M); exact in integers
ObjAtLeast(M, num, den, opt, v) ==
  IF M.dir = "max" THEN den * Dot(M.c, v) >= num * opt ELSE den * Dot(M.c, v) <= num * opt
Blocked(M) == LET F == Feasible(M) IN {r \in RIdx(M) : \A v \in F : v[r] = 0}

\* ---------------------------------------------------------------- internal cycles
\* elementary sign vectors of the internal null space (TU: entries in {-1,0,1} suffice)
Cycles(M) ==
  LET I == Internal(M) IN
  FeasibleBox(M, [r \in RIdx(M) |-> IF r \in I THEN -1 ELSE 0],
                 [r \in RIdx(M) |-> IF r \in I THEN 1 ELSE 0]) \ {ZeroVec(M)}
Conforms(z, v) == \A r \in 1..Len(z) : z[r] # 0 => Sign(z[r]) = Sign(v[r])
LooplessWrt(Z, v) == \A z \in Z : ~Conforms(z, v)
IsLoopless(M, v) == LooplessWrt(Cycles(M), v)
Loopless(M) == LET Z == Cycles(M) IN {v \in Feasible(M) : LooplessWrt(Z, v)}

\* ---------------------------------------------------------------- total flux
L1(v) == SumSeq([r \in 1..Len(v) |-> Abs(v[r])])
MinL1In(F) == SetMin({L1(v) : v \in F})

\* ---------------------------------------------------------------- LP duality on the lattice
\* y : Seq(Int) over metabolites.  d = c - S^T y.  (v, y) is an optimal primal/dual pair iff v is
\* feasible and, when maximising, d[r] > 0 => v[r] = ub[r] and d[r] < 0 => v[r] = lb[r]
\* (minimising: reversed).  Complete certificate: c.w = d.w for every balanced w.
RedCost(M, y, r) == M.c[r] - Dot(M.S[r], y)
DualFeasible(M, y, v) ==
  \A r \in RIdx(M) :
    LET d == IF M.dir = "max" THEN RedCost(M, y, r) ELSE -RedCost(M, y, r) IN
    /\ d > 0 => (FinUB(M, r) /\ v[r] = M.ub[r])
    /\ d < 0 => (FinLB(M, r) /\ v[r] = M.lb[r])
RECURSIVE SeqsOver(_, _)
SeqsOver(V, n) == IF n = 0 THEN {<<>>} ELSE {Append(s, x) : s \in SeqsOver(V, n - 1), x \in V}
\* design theorem (strong duality, integral duals on TU instances): the lattice optimum is
\* certified by some integer y with |y| <= K -- i.e. it IS the LP optimum
DualCertExists(M, K) ==
  LET A == ArgOpt(M) v == CHOOSE w \in A : TRUE IN
  \E y \in SeqsOver((-K)..K, NM(M)) : DualFeasible(M, y, v)

\* ---------------------------------------------------------------- scope and decidability
\* single-reaction objective: exactly one non-zero coefficient
ObjSupport(M) == {r \in RIdx(M) : M.c[r] # 0}
\* q is a record [kind, ...]:
\*   "opt"                       optimum / status of M
\*   "range"  num den            FVA ranges under objective >= num/den of the optimum
\*   "lrange" num den            the same over loop-free vectors
\*   "blocked"                   blocked set
\*   "lopt"                      optimum over loop-free vectors
\* Bound-type restriction <=> the lattice is exact.  fraction 1 is a face (always fine);
\* a fraction < 1 needs a single-reaction objective whose bound num*opt/den is an integer,
\* or a restriction that is vacuous on the whole polyhedron; and finite bounds, so that the
\* clipping box still contains every vertex after the new bound has been added.
FracIsBound(M, num, den, opt) ==
  \/ num = den
  \/ /\ Cardinality(ObjSupport(M)) = 1
     /\ LET r == CHOOSE k \in ObjSupport(M) : TRUE IN (num * opt) % (den * Abs(M.c[r])) = 0
     /\ AllFinite(M)
  \/ LET worst == OptIn(Feasible(M), M.c, IF M.dir = "max" THEN "min" ELSE "max") IN
     /\ ~Unbounded(WithObjective(M, M.c, IF M.dir = "max" THEN "min" ELSE "max"))
     /\ (IF M.dir = "max" THEN den * worst >= num * opt ELSE den * worst <= num * opt)
Decidable(M, q) ==
  /\ IsUnitNetwork(M)
  /\ CASE q.kind = "opt" -> TRUE
       [] q.kind = "blocked" -> TRUE
       [] q.kind = "range" -> HasOpt(M) /\ FracIsBound(M, q.num, q.den, Opt(M))
       [] q.kind = "lrange" -> HasOpt(M) /\ AllFinite(M) /\ FracIsBound(M, q.num, q.den, Opt(M))
       [] q.kind = "lopt" -> AllFinite(M)
       [] OTHER -> FALSE

\* C04: every model
InScope_C04(M) == TRUE
\* C05: feasible model with an optimum; fraction 1, or in [0,1] when the optimum has the sign of
\* the direction; finite ranges for the requested reactions (a reported number is claimed)
SignOK(M, opt) == IF M.dir = "max" THEN opt >= 0 ELSE opt <= 0
InScope_C05(M, num, den) ==
  /\ HasOpt(M)
  /\ num >= 0 /\ num <= den /\ den > 0
  /\ (num = den \/ SignOK(M, Opt(M)))
\* C19: every bound interval contains 0
InScope_C19(M) == \A r \in RIdx(M) : M.lb[r] <= 0 /\ M.ub[r] >= 0
\* C17: feasible model with an optimum and at least one internal cycle (start vectors come from the
\* same model)
InScope_C17(M) == HasOpt(M) /\ Cycles(M) # {}

\* ---------------------------------------------------------------- fixed point (solver outputs)
\* observed numbers are integers = round(value * 10^6); |value| < 2000
Scale == 1000000
Tol == 1                         \* 1e-6 absolute
Near(x, e, tol) == x - e <= tol /\ e - x <= tol
FxInBounds(M, vx) ==
  \A r \in RIdx(M) : (FinLB(M, r) => vx[r] >= M.lb[r] * Scale - Tol) /\ (FinUB(M, r) => vx[r] <= M.ub[r] * Scale + Tol)
\* every term carries a rounding error of 1/2: tolerance grows with the number of terms
FxBalanced(M, vx) == \A m \in MIdx(M) : Near(Dot(RowOf(M, m), vx), 0, Tol + SumSeq([r \in RIdx(M) |-> Abs(M.S[r][m])]))
FxObjOf(M, vx) == Dot(M.c, vx)
FxObjTol(M) == Tol + SumSeq([r \in RIdx(M) |-> Abs(M.c[r])])
\* reduced cost identity and dual certificate in fixed point (y scaled)
FxRedCost(M, yx, r) == M.c[r] * Scale - Dot(M.S[r], yx)
FxDualTol(M, r) == Tol + SumSeq([m \in MIdx(M) |-> Abs(M.S[r][m])])
FxDualFeasible(M, yx, vx) ==
  \A r \in RIdx(M) :
    LET d == IF M.dir = "max" THEN FxRedCost(M, yx, r) ELSE -FxRedCost(M, yx, r) t == FxDualTol(M, r) IN
    /\ d > t => (FinUB(M, r) /\ Near(vx[r], M.ub[r] * Scale, Tol))
    /\ d < -t => (FinLB(M, r) /\ Near(vx[r], M.lb[r] * Scale, Tol))
=============================================================================
