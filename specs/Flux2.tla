------------------------------- MODULE Flux2 -------------------------------
(***************************************************************************)
(* Instance enumerator + design theorems for the secondary analyses        *)
(* (properties C09, C06, C18, C20; operators in Flux2Ops).                 *)
(*                                                                         *)
(* The library calls are sequential and the logged arguments determine the *)
(* result, so a behaviour is: an instance is chosen (Init, cheap index     *)
(* tuples), then ONE step builds the model, the knock-out states, the      *)
(* reference solutions and the list of calls the driver has to make (Next, *)
(* evaluated in parallel by the TLC workers).  The design theorems are     *)
(* invariants of the built state; with Emit = TRUE every in-scope built    *)
(* state is printed as one JSON line for the conformance driver.           *)
(*                                                                         *)
(* Modes: "full"  every instance of the small family  (NMets metabolites, NRxns  *)
(*                reactions with non-decreasing column shapes, bounds from *)
(*                the palette, every objective reaction)                   *)
(*        "rand"  NWalks larger instances drawn by an LCG seeded by Seed   *)
(***************************************************************************)
EXTENDS Flux2Ops, Json

CONSTANTS Prop,        \* "C09" | "C06" | "C18" | "C20"
          Mode, NMets, NRxns, NWalks, Seed, Emit,
          Pal,         \* bound palette (a sequence of <<lb, ub>>), see the Pal* definitions
          Dirs         \* directions enumerated in "full" mode

VARIABLES inst,        \* raw instance descriptor (index tuples / rng)
          phase,       \* 0 chosen, 1 built
          out          \* the built state: [skip, M, calls, ...]
vars == <<inst, phase, out>>

\* ---------------------------------------------------------------- palettes (a .cfg cannot hold negative numbers)
PalA == <<<<0, 2>>, <<-2, 2>>, <<-2, 0>>, <<1, 2>>>>
PalS == <<<<0, 2>>, <<-2, 2>>, <<-2, 0>>>>
PalB == <<<<0, 2>>, <<-2, 2>>, <<-2, 0>>, <<1, 2>>, <<0, 1>>, <<-1, 2>>, <<0, 3>>, <<-3, 1>>>>
PalInf == <<<<0, 2>>, <<-2, 2>>, <<0, Inf>>, <<NegInf, Inf>>, <<-2, 0>>, <<1, 2>>, <<NegInf, 1>>>>
PalMed == <<<<0, 2>>, <<-2, 2>>, <<-2, 0>>, <<-3, 3>>, <<0, 3>>, <<-1, 2>>>>
DirsMax == <<"max">>
DirsBoth == <<"max", "min">>

\* ---------------------------------------------------------------- columns of a unit network
\* ordered pairs (tail, head) over 0..NMets (0 = outside), tail # head
RECURSIVE PairSeq(_, _, _)
PairSeq(n, i, j) ==
  IF i > n THEN <<>>
  ELSE IF j > n THEN PairSeq(n, i + 1, 0)
  ELSE (IF i # j THEN <<<<i, j>>>> ELSE <<>>) \o PairSeq(n, i, j + 1)
Cols(n) == PairSeq(n, 0, 0)
ColOf(p, n) == [m \in 1..n |-> IF m = p[1] THEN -1 ELSE IF m = p[2] THEN 1 ELSE 0]

MetNames == <<"A", "B", "C", "D">>
RxnNames == <<"r1", "r2", "r3", "r4", "r5", "r6">>

MkModel(nm, shapes, bnds, c, dir) ==
  LET cols == Cols(nm) n == Len(shapes) IN
  [rxns |-> SubSeq(RxnNames, 1, n), mets |-> SubSeq(MetNames, 1, nm),
   S |-> [r \in 1..n |-> ColOf(cols[shapes[r]], nm)],
   lb |-> [r \in 1..n |-> bnds[r][1]], ub |-> [r \in 1..n |-> bnds[r][2]],
   c |-> c, dir |-> dir]

\* ---------------------------------------------------------------- pseudo-random draws (see DictList.tla)
LCG(r) == (r * 75 + 74) % 65537
RECURSIVE Draws(_, _)
Draws(r, n) == IF n = 0 THEN <<>> ELSE <<LCG(r)>> \o Draws(LCG(r), n - 1)
Pick(seq, d) == seq[(d % Len(seq)) + 1]

\* ---------------------------------------------------------------- the instance of a descriptor
\* full: [sh, bd, oc, dir]      rand: [rng]
CoefPal == <<1, 1, 1, 2, -1>>
InstModel(d) ==
  IF Mode = "full"
  THEN MkModel(NMets, d.sh, [r \in 1..NRxns |-> Pal[d.bd[r]]], [r \in 1..NRxns |-> IF r = d.oc THEN 1 ELSE 0], d.dir)
  ELSE LET ds == Draws(d.rng, 4 + 3 * NRxns)
           n == NRxns - (ds[1] % 2)                       \* NRxns-1 or NRxns reactions
           ncols == Len(Cols(NMets))
           o1 == (ds[2] % n) + 1
           o2 == (ds[3] % n) + 1
           two == ds[4] % 4 = 0                       \* a quarter of the instances: two-reaction objective
           c == [r \in 1..n |-> IF r = o1 THEN Pick(CoefPal, ds[4] \div 4)
                                ELSE IF two /\ r = o2 THEN Pick(CoefPal, ds[4] \div 20) ELSE 0]
       IN MkModel(NMets, [r \in 1..n |-> (ds[4 + r] % ncols) + 1],
                  [r \in 1..n |-> Pick(Pal, ds[4 + NRxns + r])], c,
                  IF ds[4 + 2 * NRxns + 1] % 5 = 0 THEN "min" ELSE "max")
\* further draws for the argument choices of an instance
ArgDraws(d) == IF Mode = "full" THEN Draws(LCG(d.oc * 97 + d.bd[1] * 13 + d.sh[1] + d.sh[NRxns] * 7), 24)
               ELSE Draws(LCG(d.rng + 12345), 24)

\* ---------------------------------------------------------------- C09: calls
\* a reference solution of the model before knock-out: the optimal lattice point that is extreme
\* for the weight vector w (optimal vertices first, like a simplex solver would return)
RefFor(A, w) == CHOOSE v \in A : \A u \in A : Dot(w, u) <= Dot(w, v)
Weights(n, ds, k) == [r \in 1..n |-> ((ds[k + r] % 7) - 3)]

NoCall == [k |-> "none", ko |-> <<>>, ref |-> <<>>, refgiven |-> FALSE, refobj |-> 0, num |-> 1, den |-> 1,
           delta |-> 0, eps |-> 0, useobj |-> FALSE, objc |-> <<>>, sub |-> <<>>]
Call(M, k, K) == [NoCall EXCEPT !.k = k, !.ko = Mask(M, K), !.ref = ZeroVec(M), !.objc = M.c,
                                !.sub = [r \in RIdx(M) |-> 1]]

\* F is Feasible(KnockOut(M, K)) (computed once per knock-out state by the caller)
PfbaCalls(M, K, F, ds, few) ==
  LET KO == KnockOut(M, K)
      fr == IF few THEN <<<<1, 1>>, <<1, 2>>>> ELSE <<<<1, 1>>, <<1, 2>>, <<0, 1>>>>
      base == [j \in 1..Len(fr) |-> [Call(M, "pfba", K) EXCEPT !.num = fr[j][1], !.den = fr[j][2]]]
      \* objective= override: another single reaction (coefficient 1 or 2)
      o == (ds[1] % NR(M)) + 1
      oc == [r \in RIdx(M) |-> IF r = o THEN 1 + (ds[2] % 2) ELSE 0]
      ovr == [Call(M, "pfba", K) EXCEPT !.useobj = TRUE, !.objc = oc, !.num = 1, !.den = 1 + (ds[3] % 2)]
      \* reactions= subset
      sub == [Call(M, "pfba", K) EXCEPT !.sub = [r \in RIdx(M) |-> IF r = o \/ ds[4] % (r + 1) = 0 THEN 1 ELSE 0]]
      all == IF few THEN base ELSE base \o <<ovr, sub>>
  IN SelectSeq(all, LAMBDA cl : InScope_pfbaF(F, WithObjective(KO, cl.objc, M.dir), cl.num, cl.den))

\* the calls of knock-out state number j (1 = no knock-out); A = ArgOpt(M) of the model before knock-out
AdjustCalls(M, K, A, ds, j) ==
  LET ref == RefFor(A, Weights(NR(M), ds, 4 + j))
      ro == Dot(M.c, ref)
      g(k) == [Call(M, k, K) EXCEPT !.ref = ref, !.refgiven = TRUE, !.refobj = ro]
      room(d, e) == [g("room") EXCEPT !.delta = d, !.eps = e]
      x == IF (ds[12 + j] % 2) = 0 THEN room(1, 0) ELSE room(0, 1)
  IN <<g("moma"), room(0, 0), g("linroom")>> \o
     (IF j % 2 = 1 THEN <<room(1, 1), g("roomdef")>>
      ELSE <<x, Call(M, "moma", K), [Call(M, "room", K) EXCEPT !.eps = ds[13 + j] % 2, !.delta = ds[14 + j] % 2]>>)

RECURSIVE ConcatAll(_)
ConcatAll(ss) == IF ss = <<>> THEN <<>> ELSE Head(ss) \o ConcatAll(Tail(ss))
RECURSIVE SetToSortedSeq(_)
SetToSortedSeq(S) == IF S = {} THEN <<>> ELSE LET x == SetMin(S) IN <<x>> \o SetToSortedSeq(S \ {x})

\* knock-out states: none, every single reaction ("full") or two drawn singles and a drawn pair ("rand")
KOStates(M, ds) ==
  LET n == NR(M) IN
  IF Mode = "full" THEN <<{}>> \o [r \in 1..n |-> {r}]
  ELSE <<{}, {(ds[20] % n) + 1}, {(ds[21] % n) + 1}, {(ds[22] % n) + 1, (ds[23] % n) + 1}>>

\* the exhaustive family keeps the instances in which every reaction can carry flux and the
\* optimum is not zero (the others are covered by the drawn instances)
Interesting(F, M) == Mode = "rand" \/ (OptF(F, M) # 0 /\ \A r \in RIdx(M) : \E v \in F : v[r] # 0)
BuildC09(d) ==
  LET M == InstModel(d) ds == ArgDraws(d) F0 == Feasible(M) IN
  IF ~(IsUnitNetwork(M) /\ HasOptF(F0, M) /\ Interesting(F0, M)) THEN [skip |-> TRUE]
  ELSE LET A == ArgOptF(F0, M)
           kos == KOStates(M, ds)
           Fs == [j \in 1..Len(kos) |-> IF kos[j] = {} THEN F0 ELSE Feasible(KnockOut(M, kos[j]))]
           feas == SelectSeq([j \in 1..Len(kos) |-> j], LAMBDA j : Fs[j] # {})
           pf == PfbaCalls(M, {}, F0, ds, FALSE) \o
                 (IF Len(feas) >= 2 THEN PfbaCalls(M, kos[feas[2]], Fs[feas[2]], ds, TRUE) ELSE <<>>)
           adj == IF AllFinite(M) THEN ConcatAll([i \in 1..Len(feas) |-> AdjustCalls(M, kos[feas[i]], A, ds, i)]) ELSE <<>>
       IN [skip |-> FALSE, M |-> M, calls |-> pf \o adj]

Build(d) == CASE Prop = "C09" -> BuildC09(d)
              [] OTHER -> [skip |-> TRUE]

\* ---------------------------------------------------------------- behaviour
NonDec(s) == \A i \in 1..(Len(s) - 1) : s[i] <= s[i + 1]
Init ==
  /\ phase = 0
  /\ out = [skip |-> TRUE]
  /\ IF Mode = "full"
     THEN inst \in {[sh |-> sh, bd |-> bd, oc |-> oc, dir |-> Dirs[di]] :
                      sh \in {s \in [1..NRxns -> 1..Len(Cols(NMets))] : NonDec(s)},
                      bd \in [1..NRxns -> 1..Len(Pal)], oc \in 1..NRxns, di \in 1..Len(Dirs)}
     ELSE inst \in {[rng |-> LCG((Seed * 7919 + w * 104729) % 65537), walk |-> w] : w \in 1..NWalks}

Next ==
  /\ phase = 0
  /\ phase' = 1
  /\ inst' = inst
  /\ out' = Build(inst)

Spec == Init /\ [][Next]_vars

Constr == (Emit /\ phase = 1 /\ ~out.skip) => PrintT(ToJson([M |-> out.M, calls |-> out.calls]))

\* ---------------------------------------------------------------- design theorems (C09)
Built == phase = 1 /\ ~out.skip
CallsOf(k) == {j \in 1..Len(out.calls) : out.calls[j].k \in k}
KOMasks == {out.calls[j].ko : j \in 1..Len(out.calls)}
KOof(mask) == KnockOut(out.M, MaskSet(mask))
\* P(KO, F, cl) for every call cl of the kinds k, with F = Feasible(KO) computed once per knock-out state
ForCalls(k, P(_, _, _)) ==
  Built => \A mask \in KOMasks :
     LET KO == KOof(mask) F == Feasible(KO) IN
     \A j \in CallsOf(k) : out.calls[j].ko = mask => P(KO, F, out.calls[j])

\* the formulation cobrapy builds (split columns, sum of all columns) has the documented optimum
ThmPfbaFormulation ==
  ForCalls({"pfba"}, LAMBDA KO, F, cl :
     LET Me == WithObjective(KO, cl.objc, out.M.dir) X == FracSetIn(F, Me, cl.num, cl.den) IN
     SetMin({SplitCost(Me, v) : v \in X}) = MinL1In(X))
\* a larger fraction can only cost more total flux
ThmPfbaMonotone ==
  ForCalls({"pfba"}, LAMBDA KO, F, a :
     \A j \in CallsOf({"pfba"}) : LET b == out.calls[j] IN
       (a.ko = b.ko /\ ~a.useobj /\ ~b.useobj /\ a.num * b.den <= b.num * a.den /\ SignOK(KO, OptF(F, KO)))
          => MinL1In(FracSetIn(F, KO, a.num, a.den)) <= MinL1In(FracSetIn(F, KO, b.num, b.den)))
\* abs-variable formulation of linear MOMA = sum of absolute differences
ThmMomaFormulation ==
  ForCalls({"moma"}, LAMBDA KO, F, cl : cl.refgiven => AbsFormMinDistIn(F, cl.ref) = MinDistIn(F, cl.ref))
\* big-M formulation of ROOM = number of fluxes outside the band
ThmRoomFormulation ==
  ForCalls({"room"}, LAMBDA KO, F, cl :
     cl.refgiven => BigMRoomOptIn(KO, F, cl.ref, cl.delta, cl.eps) = RoomOptIn(F, cl.ref, cl.delta, cl.eps))
\* a reference that is still feasible needs no adjustment and vice versa; the relaxation is below the
\* MILP; wider bands cannot need more switches; the growth interval lies inside the growth range
ThmAdjustSanity ==
  ForCalls({"moma"}, LAMBDA KO, F, cl :
     cl.refgiven =>
       /\ (cl.ref \in F) => /\ MinDistIn(F, cl.ref) = 0 /\ RoomOptIn(F, cl.ref, 0, 0) = 0
                            /\ LinRoomOptIn(KO, F, cl.ref)[1] = 0
       /\ (cl.ref \notin F) => MinDistIn(F, cl.ref) > 0 /\ RoomOptIn(F, cl.ref, 0, 0) > 0
       /\ LET lr == LinRoomOptIn(KO, F, cl.ref) IN lr[1] <= lr[2] * RoomOptIn(F, cl.ref, 0, 0)
       /\ RoomOptIn(F, cl.ref, 1, 1) <= RoomOptIn(F, cl.ref, 1, 0)
       /\ RoomOptIn(F, cl.ref, 1, 0) <= RoomOptIn(F, cl.ref, 0, 0)
       /\ RoomOptIn(F, cl.ref, 1, 1) <= RoomOptIn(F, cl.ref, 0, 1)
       /\ RoomOptIn(F, cl.ref, 0, 1) <= RoomOptIn(F, cl.ref, 0, 0)
       /\ LET gi == GrowthIntervalIn(F, cl.ref, out.M.c) IN
          /\ gi[1] <= gi[2]
          /\ gi[1] >= OptIn(F, out.M.c, "min") /\ gi[2] <= OptIn(F, out.M.c, "max"))
\* the references handed to the driver are what the property quantifies over
ThmRefsInScope ==
  Built => LET A == ArgOpt(out.M) o == Opt(out.M) IN
           \A j \in CallsOf({"moma", "room", "linroom", "roomdef"}) :
              LET cl == out.calls[j] IN cl.refgiven => cl.ref \in A /\ cl.refobj = o /\ ~Infeasible(KOof(cl.ko))
=============================================================================
