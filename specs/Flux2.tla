------------------------------- MODULE Flux2 -------------------------------
(***************************************************************************)
(* Instance enumerator + design theorems for the secondary analyses        *)
(* (properties C09, C06, C18, C20; operators in Flux2Ops).                 *)
(*                                                                         *)
(* The library calls are sequential and the logged arguments determine the *)
(* result, so a behaviour is: an instance is chosen (Init, cheap index     *)
(* tuples), then ONE step builds the model, the knock-out states, the      *)
(* reference solutions and the list of calls the driver has to make (Next, *)
(* evaluated in parallel by the TLC workers).  The design theorems are     *)
(* invariants of the built state; with Emit = TRUE every in-scope built    *)
(* state is printed as one JSON line for the conformance driver.           *)
(*                                                                         *)
(* Modes: "full"  every instance of the small family  (NMets metabolites, NRxns  *)
(*                reactions with non-decreasing column shapes, bounds from *)
(*                the palette, every objective reaction)                   *)
(*        "rand"  NWalks larger instances drawn by an LCG seeded by Seed   *)
(***************************************************************************)
EXTENDS Flux2Ops, Json

CONSTANTS Prop,        \* "C09" | "C06" | "C18" | "C20"
          Mode, NMets, NRxns, NWalks, Seed, Emit,
          Pal,         \* bound palette (a sequence of <<lb, ub>>), see the Pal* definitions
          Dirs         \* directions enumerated in "full" mode

VARIABLES inst,        \* raw instance descriptor (index tuples / rng)
          phase,       \* 0 chosen, 1 built
          out          \* the built state: [skip, M, calls, ...]
vars == <<inst, phase, out>>

\* ---------------------------------------------------------------- palettes (a .cfg cannot hold negative numbers)
PalA == <<<<0, 2>>, <<-2, 2>>, <<-2, 0>>, <<1, 2>>>>
PalS == <<<<0, 2>>, <<-2, 2>>, <<-2, 0>>>>
PalB == <<<<0, 2>>, <<-2, 2>>, <<-2, 0>>, <<1, 2>>, <<0, 1>>, <<-1, 2>>, <<0, 3>>, <<-3, 1>>>>
PalInf == <<<<0, 2>>, <<-2, 2>>, <<0, Inf>>, <<NegInf, Inf>>, <<-2, 0>>, <<1, 2>>, <<NegInf, 1>>>>
PalMed == <<<<0, 2>>, <<-2, 2>>, <<-2, 0>>, <<-3, 3>>, <<0, 3>>, <<-1, 2>>>>
DirsMax == <<"max">>
DirsBoth == <<"max", "min">>

\* ---------------------------------------------------------------- columns of a unit network
\* ordered pairs (tail, head) over 0..NMets (0 = outside), tail # head
RECURSIVE PairSeq(_, _, _)
PairSeq(n, i, j) ==
  IF i > n THEN <<>>
  ELSE IF j > n THEN PairSeq(n, i + 1, 0)
  ELSE (IF i # j THEN <<<<i, j>>>> ELSE <<>>) \o PairSeq(n, i, j + 1)
Cols(n) == PairSeq(n, 0, 0)
ColOf(p, n) == [m \in 1..n |-> IF m = p[1] THEN -1 ELSE IF m = p[2] THEN 1 ELSE 0]

MetNames == <<"A", "B", "C", "D">>
RxnNames == <<"r1", "r2", "r3", "r4", "r5", "r6">>

MkModel(nm, shapes, bnds, c, dir) ==
  LET cols == Cols(nm) n == Len(shapes) IN
  [rxns |-> SubSeq(RxnNames, 1, n), mets |-> SubSeq(MetNames, 1, nm),
   S |-> [r \in 1..n |-> ColOf(cols[shapes[r]], nm)],
   lb |-> [r \in 1..n |-> bnds[r][1]], ub |-> [r \in 1..n |-> bnds[r][2]],
   c |-> c, dir |-> dir]

\* ---------------------------------------------------------------- pseudo-random draws (see DictList.tla)
LCG(r) == (r * 75 + 74) % 65537
RECURSIVE Draws(_, _)
Draws(r, n) == IF n = 0 THEN <<>> ELSE <<LCG(r)>> \o Draws(LCG(r), n - 1)
Pick(seq, d) == seq[(d % Len(seq)) + 1]

\* ---------------------------------------------------------------- the instance of a descriptor
\* full: [sh, bd, oc, dir]      rand: [rng]
CoefPal == <<1, 1, 1, 2, -1>>
InstModel(d) ==
  IF Mode = "full"
  THEN MkModel(NMets, d.sh, [r \in 1..NRxns |-> Pal[d.bd[r]]], [r \in 1..NRxns |-> IF r = d.oc THEN 1 ELSE 0], d.dir)
  ELSE LET ds == Draws(d.rng, 4 + 3 * NRxns)
           n == NRxns - (ds[1] % 2)                       \* NRxns-1 or NRxns reactions
           ncols == Len(Cols(NMets))
           o1 == (ds[2] % n) + 1
           o2 == (ds[3] % n) + 1
           two == ds[4] % 4 = 0                       \* a quarter of the instances: two-reaction objective
           c == [r \in 1..n |-> IF r = o1 THEN Pick(CoefPal, ds[4] \div 4)
                                ELSE IF two /\ r = o2 THEN Pick(CoefPal, ds[4] \div 20) ELSE 0]
       IN MkModel(NMets, [r \in 1..n |-> (ds[4 + r] % ncols) + 1],
                  [r \in 1..n |-> Pick(Pal, ds[4 + NRxns + r])], c,
                  IF ds[4 + 2 * NRxns + 1] % 5 = 0 THEN "min" ELSE "max")
\* further draws for the argument choices of an instance
ArgDraws(d) == IF Mode = "full" THEN Draws(LCG(d.oc * 97 + d.bd[1] * 13 + d.sh[1] + d.sh[NRxns] * 7), 44)
               ELSE Draws(LCG(d.rng + 12345), 44)

\* ---------------------------------------------------------------- C09: calls
\* a reference solution of the model before knock-out: the optimal lattice point that is extreme
\* for the weight vector w (optimal vertices first, like a simplex solver would return)
RefFor(A, w) == CHOOSE v \in A : \A u \in A : Dot(w, u) <= Dot(w, v)
Weights(n, ds, k) == [r \in 1..n |-> ((ds[k + r] % 7) - 3)]

NoCall == [k |-> "none", ko |-> <<>>, ref |-> <<>>, refgiven |-> FALSE, refobj |-> 0, num |-> 1, den |-> 1,
           delta |-> 0, eps |-> 0, useobj |-> FALSE, objc |-> <<>>, sub |-> <<>>,
           hist |-> "none",
           refuse |-> FALSE]      \* TRUE: the model has an infinite bound -- ROOM has no valid big-M and refuses (ValueError)
Call(M, k, K) == [NoCall EXCEPT !.k = k, !.ko = Mask(M, K), !.ref = ZeroVec(M), !.objc = M.c,
                                !.sub = [r \in RIdx(M) |-> 1]]

\* F is Feasible(KnockOut(M, K)) (computed once per knock-out state by the caller)
PfbaCalls(M, K, F, ds, few) ==
  LET KO == KnockOut(M, K)
      fr == IF few THEN <<<<1, 1>>, <<1, 2>>>> ELSE <<<<1, 1>>, <<1, 2>>, <<0, 1>>>>
      base == [j \in 1..Len(fr) |-> [Call(M, "pfba", K) EXCEPT !.num = fr[j][1], !.den = fr[j][2]]]
      \* objective= override: another single reaction (coefficient 1 or 2)
      o == (ds[1] % NR(M)) + 1
      oc == [r \in RIdx(M) |-> IF r = o THEN 1 + (ds[2] % 2) ELSE 0]
      ovr == [Call(M, "pfba", K) EXCEPT !.useobj = TRUE, !.objc = oc, !.num = 1, !.den = 1 + (ds[3] % 2)]
      \* reactions= subset
      sub == [Call(M, "pfba", K) EXCEPT !.sub = [r \in RIdx(M) |-> IF r = o \/ ds[4] % (r + 1) = 0 THEN 1 ELSE 0]]
      \* the same question asked of a model with a history: fix_objective_as_constraint(model)
      \* was called for the old objective, the objective was then edited in place
      \* (objective_coefficient) and pfba is called without objective=.  The library replaces its
      \* own fixed_objective constraint, so the answer is that of `ovr`.
      stale == [ovr EXCEPT !.hist = "fixobj"]
      all == IF few THEN base ELSE base \o <<ovr, sub, stale>>
  IN SelectSeq(all, LAMBDA cl : InScope_pfbaF(F, WithObjective(KO, cl.objc, M.dir), cl.num, cl.den))

\* the calls of knock-out state number j (1 = no knock-out); A = ArgOpt(M) of the model before knock-out
AdjustCalls(M, K, A, ds, j) ==
  LET ref == RefFor(A, Weights(NR(M), ds, 4 + j))
      ro == Dot(M.c, ref)
      g(k) == [Call(M, k, K) EXCEPT !.ref = ref, !.refgiven = TRUE, !.refobj = ro]
      room(d, e) == [g("room") EXCEPT !.delta = d, !.eps = e]
      x == IF (ds[12 + j] % 2) = 0 THEN room(1, 0) ELSE room(0, 1)
  IN <<g("moma"), room(0, 0), g("linroom")>> \o
     (IF j % 2 = 1 THEN <<room(1, 1), g("roomdef")>>
      ELSE <<x, Call(M, "moma", K), [Call(M, "room", K) EXCEPT !.eps = ds[13 + j] % 2, !.delta = ds[14 + j] % 2]>>)

RECURSIVE ConcatAll(_)
ConcatAll(ss) == IF ss = <<>> THEN <<>> ELSE Head(ss) \o ConcatAll(Tail(ss))
RECURSIVE SetToSortedSeq(_)
SetToSortedSeq(S) == IF S = {} THEN <<>> ELSE LET x == SetMin(S) IN <<x>> \o SetToSortedSeq(S \ {x})

\* knock-out states: none, every single reaction ("full") or two drawn singles and a drawn pair ("rand")
KOStates(M, ds) ==
  LET n == NR(M) IN
  IF Mode = "full" THEN <<{}>> \o [r \in 1..n |-> {r}]
  ELSE <<{}, {(ds[20] % n) + 1}, {(ds[21] % n) + 1}, {(ds[22] % n) + 1, (ds[23] % n) + 1}>>

\* the exhaustive family keeps the instances in which every reaction can carry flux and the
\* optimum is not zero (the others are covered by the drawn instances)
Interesting(F, M) == Mode = "rand" \/ (OptF(F, M) # 0 /\ \A r \in RIdx(M) : \E v \in F : v[r] # 0)
BuildC09(d) ==
  LET M == InstModel(d) ds == ArgDraws(d) F0 == Feasible(M) IN
  IF ~(IsUnitNetwork(M) /\ HasOptF(F0, M) /\ Interesting(F0, M)) THEN [skip |-> TRUE]
  ELSE LET A == ArgOptF(F0, M)
           kos == KOStates(M, ds)
           Fs == [j \in 1..Len(kos) |-> IF kos[j] = {} THEN F0 ELSE Feasible(KnockOut(M, kos[j]))]
           feas == SelectSeq([j \in 1..Len(kos) |-> j], LAMBDA j : Fs[j] # {})
           pf == PfbaCalls(M, {}, F0, ds, FALSE) \o
                 (IF Len(feas) >= 2 THEN PfbaCalls(M, kos[feas[2]], Fs[feas[2]], ds, TRUE) ELSE <<>>)
           adj == IF AllFinite(M) THEN ConcatAll([i \in 1..Len(feas) |-> AdjustCalls(M, kos[feas[i]], A, ds, i)])
                  ELSE LET ref == RefFor(A, Weights(NR(M), ds, 5))
                           g(k) == [Call(M, k, {}) EXCEPT !.ref = ref, !.refgiven = TRUE, !.refobj = Dot(M.c, ref), !.refuse = TRUE]
                       IN <<g("room"), g("linroom")>>
       IN [skip |-> FALSE, M |-> M, calls |-> pf \o adj]

\* ---------------------------------------------------------------- C06: rules, lists, calls
G(x) == <<"g", x>>
RuleU == << <<"none">>, G("g1"), G("g2"), G("g3"), <<"and", G("g1"), G("g2")>>, <<"or", G("g1"), G("g2")>>,
            <<"or", <<"and", G("g1"), G("g2")>>, G("g3")>>, <<"and", G("g1"), <<"or", G("g2"), G("g3")>>>>,
            <<"and", <<"or", G("g1"), G("g2")>>, G("g3")>>, <<"or", G("g2"), G("g3")>>, G("g1") >>
GeneNames == <<"g1", "g2", "g3">>
WithRules(M, ds, k) ==
  LET rules == [r \in RIdx(M) |-> Pick(RuleU, ds[k + r])]
      used == UNION {RuleGenes(rules[r]) : r \in RIdx(M)} IN
  [rxns |-> M.rxns, mets |-> M.mets, S |-> M.S, lb |-> M.lb, ub |-> M.ub, c |-> M.c, dir |-> M.dir,
   rules |-> rules, ruletext |-> [r \in RIdx(M) |-> RuleText(rules[r])],
   genes |-> SelectSeq(GeneNames, LAMBDA g : g \in used)]

\* a drawn list of positions in 1..n (length 1..3, repeats allowed)
DrawList(n, ds, k) == [i \in 1..((ds[k] % 3) + 1) |-> (ds[k + i] % n) + 1]

NoDel == [k |-> "none", method |-> "fba", l1 |-> <<>>, l1given |-> FALSE, l2 |-> <<>>, l2given |-> FALSE,
          byobj |-> FALSE, ref |-> <<>>, refgiven |-> FALSE, refobj |-> 0, tdefault |-> TRUE, tnum |-> 0, tden |-> 1,
          prior |-> <<>>, pmode |-> "none", pctx |-> FALSE]
BuildC06(d) ==
  LET M0 == InstModel(d) ds == ArgDraws(d) F0 == Feasible(M0) IN
  IF ~(IsUnitNetwork(M0) /\ (Mode = "rand" \/ (HasOptF(F0, M0) /\ Interesting(F0, M0)))) THEN [skip |-> TRUE]
  ELSE
  LET M == WithRules(M0, ds, 0)
      n == NR(M) ng == Len(M.genes)
      h == HasOptF(F0, M)
      ref == IF h THEN RefFor(ArgOptF(F0, M), Weights(n, ds, 6)) ELSE ZeroVec(M)
      ro == Dot(M.c, ref)
      base == [NoDel EXCEPT !.ref = ZeroVec(M)]
      del(k, a, ag, b, bg, ob) == [base EXCEPT !.k = k, !.l1 = a, !.l1given = ag, !.l2 = b, !.l2given = bg, !.byobj = ob]
      moma(c) == [c EXCEPT !.method = "lmoma", !.ref = ref, !.refgiven = TRUE, !.refobj = ro]
      rl1 == DrawList(n, ds, 12) rl2 == DrawList(n, ds, 16)
      gl1 == IF ng > 0 THEN DrawList(ng, ds, 24) ELSE <<>>
      gl2 == IF ng > 0 THEN DrawList(ng, ds, 28) ELSE <<>>
      fba == <<del("srd", <<>>, FALSE, <<>>, FALSE, FALSE), del("srd", rl1, TRUE, <<>>, FALSE, ds[20] % 2 = 0),
               del("drd", rl1, TRUE, rl2, TRUE, ds[21] % 2 = 0), del("drd", rl2, TRUE, <<>>, FALSE, ds[22] % 2 = 0)>>
             \o (IF ng = 0 THEN <<>> ELSE
                 <<del("sgd", <<>>, FALSE, <<>>, FALSE, FALSE), del("sgd", gl1, TRUE, <<>>, FALSE, ds[20] % 2 = 1),
                   del("dgd", <<>>, FALSE, <<>>, FALSE, FALSE), del("dgd", gl1, TRUE, gl2, TRUE, ds[21] % 2 = 1)>>)
      unique == h /\ AllFinite(M) /\ Cardinality(PfbaPoints(F0, M)) = 1
      lm == IF ~(h /\ AllFinite(M)) THEN <<>> ELSE
            <<moma(fba[1]), moma(fba[3])>> \o (IF ng = 0 THEN <<>> ELSE <<moma(fba[5]), moma(fba[8])>>)
            \o (IF unique THEN <<[fba[1] EXCEPT !.method = "lmoma"]>> ELSE <<>>)
      half == 2 * ((ds[33] % 5) - 1) + 1                       \* threshold half / 2 with odd half in -1..7
      ess == IF ~h THEN <<>> ELSE
             <<[base EXCEPT !.k = "ess_r"], [base EXCEPT !.k = "ess_r", !.tdefault = FALSE, !.tnum = half, !.tden = 2]>>
             \o (IF ng = 0 THEN <<>> ELSE
                 <<[base EXCEPT !.k = "ess_g"], [base EXCEPT !.k = "ess_g", !.tdefault = FALSE, !.tnum = half, !.tden = 2]>>)
      \* prior knock-out states: the model already carries non-functional genes (positions pr) when the
      \* analysis runs -- knocked out ("ko") or only flagged ("flag"), outside or inside an enclosing context
      gset(q) == {M.genes[q[i]] : i \in 1..Len(q)}
      cand == SelectSeq([g \in 1..ng |-> g], LAMBDA g : GeneKO(M, {M.genes[g]}) = {})      \* flag: no rule false yet
      pr1 == IF ng > 0 THEN <<(ds[34] % ng) + 1>> ELSE <<>>
      pr2 == IF ng > 0 THEN <<(ds[35] % ng) + 1, (ds[36] % ng) + 1>> ELSE <<>>
      prf == IF cand # <<>> THEN <<Pick(cand, ds[37])>> ELSE <<>>
      pri(c, q, md, cx) == [c EXCEPT !.prior = q, !.pmode = md, !.pctx = cx]
      prior == IF ng < 2 THEN <<>> ELSE
               <<pri(fba[5], pr1, "ko", FALSE), pri(fba[7], pr1, "ko", TRUE), pri(fba[6], pr2, "ko", ds[38] % 2 = 0),
                 pri(fba[1], pr1, "ko", ds[38] % 2 = 1)>>
               \o (IF prf = <<>> THEN <<>> ELSE
                   <<pri(fba[5], prf, "flag", ds[39] % 2 = 0), pri(fba[7], prf, "flag", ds[39] % 2 = 1)>>)
               \* "rewritten": the rules the model has NOW are what in-place rewriting left of richer ones -- the model was
               \* built with every rule as "(rule) or gX", a complete gene deletion ran on it, and
               \* remove_genes(model, [gX], remove_reactions=False) then rewrote every rule in place.  The documented
               \* result is that of the model as it stands (no prior knock-outs).
               \o <<pri(fba[5], <<>>, "rewritten", FALSE), pri(fba[8], <<>>, "rewritten", FALSE)>>
               \o (IF ~h THEN <<>> ELSE <<pri([base EXCEPT !.k = "ess_g"], <<>>, "rewritten", FALSE)>>)
               \o (IF ~h THEN <<>> ELSE
                   <<pri([base EXCEPT !.k = "ess_g"], pr1, "ko", ds[40] % 2 = 0)>>
                   \o (IF prf = <<>> THEN <<>> ELSE <<pri([base EXCEPT !.k = "ess_g"], prf, "flag", ds[40] % 2 = 1)>>))
  IN [skip |-> FALSE, M |-> M, calls |-> fba \o lm \o ess \o prior]

\* ---------------------------------------------------------------- C18: media
CompOf(nm) == [m \in 1..nm |-> IF m < nm \/ nm = 1 THEN "e" ELSE "c"]       \* the last metabolite is internal
WithComp(M) == [rxns |-> M.rxns, mets |-> M.mets, S |-> M.S, lb |-> M.lb, ub |-> M.ub, c |-> M.c, dir |-> M.dir,
                comp |-> CompOf(NM(M))]
DrawMedium(M, ds, k) ==
  [r \in RIdx(M) |-> IF r \in Exchanges(M) /\ ds[k + r] % 3 # 0 THEN (ds[k + r] \div 3) % 4 ELSE Absent]
NoMed == [k |-> "none", d |-> <<>>, g |-> 0, exports |-> FALSE, mc |-> 0, open |-> 0, opentrue |-> FALSE, hist |-> "none"]
BuildC18(d) ==
  LET M0 == InstModel(d) ds == ArgDraws(d) M == WithComp(M0) F == Feasible(M) IN
  IF ~(IsUnitNetwork(M) /\ Exchanges(M) # {} /\ (Mode = "rand" \/ (HasOptF(F, M) /\ Interesting(F, M))))
  THEN [skip |-> TRUE]
  ELSE
  LET base == [NoMed EXCEPT !.d = [r \in RIdx(M) |-> Absent]]
      setm(x) == [base EXCEPT !.k = "setmed", !.d = x]
      meds == IF ExportSideOK(M)
              THEN <<[base EXCEPT !.k = "getmed"], setm(DrawMedium(M, ds, 0)), setm(DrawMedium(M, ds, 6)),
                     [base EXCEPT !.k = "setcur"], setm(DrawMedium(M, ds, 12)), setm(base.d)>>
              ELSE <<[base EXCEPT !.k = "getmed"]>>
      mm(g, ex, mc, op) == [base EXCEPT !.k = "minmed", !.g = g, !.exports = ex, !.mc = mc, !.open = op]
      top == IF F # {} /\ ~UnboundedF(F, WithObjective(M, M.c, "max")) THEN OptIn(F, M.c, "max") ELSE 2
      k == 2 + (ds[20] % 2)
      fin == \A r \in Exchanges(M) : FinLB(M, r) /\ FinUB(M, r)
      mins == <<mm(1, FALSE, 0, 0), mm(top, FALSE, 0, 0), mm(top + 1, FALSE, 0, 0), mm(1, TRUE, 0, 0),
                mm(1 + (ds[21] % 2), FALSE, 0, k), mm(top, TRUE, 0, k),
                [mm(1, FALSE, 0, 0) EXCEPT !.opentrue = TRUE],
                \* hist = "flipped": the model object was reached through history -- every exchange written the other way
                \* round (r *= -1), minimal_medium called once on that, every exchange flipped back in place; the
                \* documented result is that of the model as it stands
                [mm(top, FALSE, 0, 0) EXCEPT !.hist = "flipped"], [mm(1, TRUE, 0, 0) EXCEPT !.hist = "flipped"]>>
              \o (IF fin \/ Mode = "rand"          \* infinite exchange bounds + components: F33 (drawn instances only)
                  THEN <<mm(1, FALSE, 1, 0), mm(1, FALSE, 2, 0), mm(top, FALSE, 3, 0), mm(top + 1, FALSE, 1, 0),
                         mm(1, TRUE, 2, 0), [mm(1, FALSE, 1, 0) EXCEPT !.hist = "flipped"]>> ELSE <<>>)
              \o <<mm(1, FALSE, 1, k), mm(top, FALSE, 2, k)>>
  IN [skip |-> FALSE, M |-> M, calls |-> meds \o mins]

\* ---------------------------------------------------------------- C20: summaries
\* boundary coefficients scaled by +-1, +-2 (the solution stays a steady state of the scaled model when the
\* boundary flux is divided accordingly, so only even boundary fluxes are scaled)
ScaleBoundary(M, sol, ds, k) ==
  LET f(r) == IF r \in Boundary(M) /\ sol[r] % 2 = 0 /\ ds[k + r] % 3 = 0 THEN 2 ELSE 1 IN
  [M |-> [M EXCEPT !.S = [r \in RIdx(M) |-> [m \in MIdx(M) |-> M.S[r][m] * f(r)]],
                   !.lb = [r \in RIdx(M) |-> IF f(r) = 2 /\ FinLB(M, r) THEN (M.lb[r] - 1) \div 2 ELSE M.lb[r]],
                   !.ub = [r \in RIdx(M) |-> IF f(r) = 2 /\ FinUB(M, r) THEN (M.ub[r] + 1) \div 2 ELSE M.ub[r]]],
   sol |-> [r \in RIdx(M) |-> sol[r] \div f(r)]]
NoSum == [k |-> "none", idx |-> 0, solgiven |-> TRUE, sol |-> <<>>, fvak |-> "none", fnum |-> 1, fden |-> 1,
          frame |-> <<>>, scaled |-> FALSE,
          fsub |-> <<>>,          \* the FVA frame has rows for these reactions only (mask; <<>> = all): a frame
                                  \* computed with reaction_list=, or before a reaction was added to the model
          passpfba |-> FALSE,     \* the caller passes the Solution returned by pfba(model) explicitly
          stale |-> FALSE, c2 |-> <<>>]    \* the model objective is changed to c2 AFTER the solution was obtained
DrawFrame(M, sol, ds, k) ==
  [r \in RIdx(M) |-> <<sol[r] - (ds[k + r] % 3), sol[r] + ((ds[k + r] \div 3) % 3)>>]
BuildC20(d) ==
  LET M == InstModel(d) ds == ArgDraws(d) F == Feasible(M) IN
  IF ~(IsUnitNetwork(M) /\ HasOptF(F, M) /\ Interesting(F, M) /\ AllFinite(M)) THEN [skip |-> TRUE]
  ELSE
  LET A == ArgOptF(F, M)
      sol == RefFor(A, Weights(NR(M), ds, 0))
      any == RefFor(F, Weights(NR(M), ds, 8))                 \* a feasible, not necessarily optimal solution
      sc == ScaleBoundary(M, sol, ds, 16)
      base == [NoSum EXCEPT !.sol = sol, !.frame = [r \in RIdx(M) |-> <<0, 0>>], !.c2 = M.c]
      fr == DrawFrame(M, sol, ds, 22)
      \* solutions whose objective_value is NOT the current objective at their fluxes
      o2 == (ds[41] % NR(M)) + 1
      cnew == [r \in RIdx(M) |-> IF r = o2 THEN 1 + (ds[42] % 2) ELSE IF r = ((o2 % NR(M)) + 1) THEN (ds[43] % 3) - 1 ELSE 0]
      foreign == <<[base EXCEPT !.k = "model", !.solgiven = FALSE, !.sol = ZeroVec(M), !.passpfba = TRUE],
                   [base EXCEPT !.k = "model", !.stale = TRUE, !.c2 = cnew],
                   [base EXCEPT !.k = "model", !.stale = TRUE, !.c2 = cnew, !.sol = any, !.fvak = "frame", !.frame = DrawFrame(M, any, ds, 22)]>>
      variants(k, i) ==
        <<[base EXCEPT !.k = k, !.idx = i],
          [base EXCEPT !.k = k, !.idx = i, !.fvak = "frame", !.frame = fr],
          \* (fraction 1, 1/2, or 0 -- `fva=0.0` is a fraction like any other)
          [base EXCEPT !.k = k, !.idx = i, !.fvak = "float", !.fnum = IF ds[30] % 3 = 2 THEN 0 ELSE 1, !.fden = 1 + (ds[30] % 2)],
          [base EXCEPT !.k = k, !.idx = i, !.sol = any],
          [base EXCEPT !.k = k, !.idx = i, !.solgiven = FALSE, !.sol = ZeroVec(M)],
          [base EXCEPT !.k = k, !.idx = i, !.fvak = "frame", !.frame = fr,
                       !.fsub = [r \in RIdx(M) |-> IF (k = "rxn" /\ r = i) \/ ds[33 + r] % 2 = 0 THEN 1 ELSE 0]]>>
      used == SelectSeq([m \in MIdx(M) |-> m], LAMBDA m : \E r \in RIdx(M) : M.S[r][m] # 0)   \* metabolites of the model
      two(k, i, o) == LET vs == variants(k, i) IN <<vs[((i + o) % 6) + 1], vs[((i + o + 2) % 6) + 1]>>
      model == variants("model", 0)
      mets == ConcatAll([q \in 1..Len(used) |-> two("met", used[q], ds[31] % 6)])
      rxns == ConcatAll([r \in RIdx(M) |-> two("rxn", r, ds[32] % 6)])
      scbase == [base EXCEPT !.sol = sc.sol, !.scaled = TRUE]
      scfr == DrawFrame(sc.M, sc.sol, ds, 22)
      scaled == IF sc.M = M THEN <<>>
                ELSE <<[scbase EXCEPT !.k = "model"], [scbase EXCEPT !.k = "model", !.fvak = "frame", !.frame = scfr]>>
                     \o ConcatAll([q \in 1..Len(used) |->
                                     <<[scbase EXCEPT !.k = "met", !.idx = used[q], !.fvak = IF q % 2 = 0 THEN "none" ELSE "frame",
                                                      !.frame = IF q % 2 = 0 THEN base.frame ELSE scfr]>>])
  \* compartments: the last metabolite is internal, so its boundary reactions are demands / sinks, not
  \* exchanges (model.boundary # model.exchanges); summaries are about every boundary reaction
  IN [skip |-> FALSE, M |-> WithComp(M), MS |-> WithComp(sc.M), calls |-> model \o foreign \o mets \o rxns \o scaled]

Build(d) == CASE Prop = "C09" -> BuildC09(d)
              [] Prop = "C06" -> BuildC06(d)
              [] Prop = "C18" -> BuildC18(d)
              [] Prop = "C20" -> BuildC20(d)
              [] OTHER -> [skip |-> TRUE]

\* ---------------------------------------------------------------- behaviour
NonDec(s) == \A i \in 1..(Len(s) - 1) : s[i] <= s[i + 1]
Init ==
  /\ phase = 0
  /\ out = [skip |-> TRUE]
  /\ IF Mode = "full"
     THEN inst \in {[sh |-> sh, bd |-> bd, oc |-> oc, dir |-> Dirs[di]] :
                      sh \in {s \in [1..NRxns -> 1..Len(Cols(NMets))] : NonDec(s)},
                      bd \in [1..NRxns -> 1..Len(Pal)], oc \in 1..NRxns, di \in 1..Len(Dirs)}
     ELSE inst \in {[rng |-> LCG((Seed * 7919 + w * 104729) % 65537), walk |-> w] : w \in 1..NWalks}

Next ==
  /\ phase = 0
  /\ phase' = 1
  /\ inst' = inst
  /\ out' = Build(inst)

Spec == Init /\ [][Next]_vars

Constr == (Emit /\ phase = 1 /\ ~out.skip) =>
             PrintT(ToJson(IF Prop = "C20" THEN [M |-> out.M, MS |-> out.MS, calls |-> out.calls]
                           ELSE [M |-> out.M, calls |-> out.calls]))

\* ---------------------------------------------------------------- design theorems (C09)
Built == phase = 1 /\ ~out.skip
CallsOf(k) == {j \in 1..Len(out.calls) : out.calls[j].k \in k}
KOMasks == {out.calls[j].ko : j \in 1..Len(out.calls)}
KOof(mask) == KnockOut(out.M, MaskSet(mask))
\* P(KO, F, cl) for every call cl of the kinds k, with F = Feasible(KO) computed once per knock-out state
ForCalls(k, P(_, _, _)) ==
  Built => \A mask \in KOMasks :
     LET KO == KOof(mask) F == Feasible(KO) IN
     \A j \in CallsOf(k) : out.calls[j].ko = mask => P(KO, F, out.calls[j])

\* the formulation cobrapy builds (split columns, sum of all columns) has the documented optimum
ThmPfbaFormulation ==
  ForCalls({"pfba"}, LAMBDA KO, F, cl :
     LET Me == WithObjective(KO, cl.objc, out.M.dir) X == FracSetIn(F, Me, cl.num, cl.den) IN
     SetMin({SplitCost(Me, v) : v \in X}) = MinL1In(X))
\* a larger fraction can only cost more total flux
ThmPfbaMonotone ==
  ForCalls({"pfba"}, LAMBDA KO, F, a :
     \A j \in CallsOf({"pfba"}) : LET b == out.calls[j] IN
       (a.ko = b.ko /\ ~a.useobj /\ ~b.useobj /\ a.num * b.den <= b.num * a.den /\ SignOK(KO, OptF(F, KO)))
          => MinL1In(FracSetIn(F, KO, a.num, a.den)) <= MinL1In(FracSetIn(F, KO, b.num, b.den)))
\* abs-variable formulation of linear MOMA = sum of absolute differences
ThmMomaFormulation ==
  ForCalls({"moma"}, LAMBDA KO, F, cl : cl.refgiven => AbsFormMinDistIn(F, cl.ref) = MinDistIn(F, cl.ref))
\* big-M formulation of ROOM = number of fluxes outside the band
ThmRoomFormulation ==
  ForCalls({"room"}, LAMBDA KO, F, cl :
     cl.refgiven => BigMRoomOptIn(KO, F, cl.ref, cl.delta, cl.eps) = RoomOptIn(F, cl.ref, cl.delta, cl.eps))
\* a reference that is still feasible needs no adjustment and vice versa; the relaxation is below the
\* MILP; wider bands cannot need more switches; the growth interval lies inside the growth range
ThmAdjustSanity ==
  ForCalls({"moma"}, LAMBDA KO, F, cl :
     cl.refgiven =>
       /\ (cl.ref \in F) => /\ MinDistIn(F, cl.ref) = 0 /\ RoomOptIn(F, cl.ref, 0, 0) = 0
                            /\ LinRoomOptIn(KO, F, cl.ref)[1] = 0
       /\ (cl.ref \notin F) => MinDistIn(F, cl.ref) > 0 /\ RoomOptIn(F, cl.ref, 0, 0) > 0
       /\ LET lr == LinRoomOptIn(KO, F, cl.ref) IN lr[1] <= lr[2] * RoomOptIn(F, cl.ref, 0, 0)
       /\ RoomOptIn(F, cl.ref, 1, 1) <= RoomOptIn(F, cl.ref, 1, 0)
       /\ RoomOptIn(F, cl.ref, 1, 0) <= RoomOptIn(F, cl.ref, 0, 0)
       /\ RoomOptIn(F, cl.ref, 1, 1) <= RoomOptIn(F, cl.ref, 0, 1)
       /\ RoomOptIn(F, cl.ref, 0, 1) <= RoomOptIn(F, cl.ref, 0, 0)
       /\ LET gi == GrowthIntervalIn(F, cl.ref, out.M.c) IN
          /\ gi[1] <= gi[2]
          /\ gi[1] >= OptIn(F, out.M.c, "min") /\ gi[2] <= OptIn(F, out.M.c, "max"))
\* the references handed to the driver are what the property quantifies over
ThmRefsInScope ==
  Built => LET A == ArgOpt(out.M) o == Opt(out.M) IN
           \A j \in CallsOf({"moma", "room", "linroom", "roomdef"}) :
              LET cl == out.calls[j] IN cl.refgiven => cl.ref \in A /\ cl.refobj = o /\ ~Infeasible(KOof(cl.ko))

\* ---------------------------------------------------------------- design theorems (C06)
\* knocking the genes out one after the other (Gene.knock_out) disables exactly the reactions whose
\* rule is false for the whole set, in any order (all orders of all subsets of the genes)
Perms(S) == {p \in [1..Cardinality(S) -> S] : \A i, j \in 1..Cardinality(S) : i # j => p[i] # p[j]}
ThmGeneKOProtocol ==
  Built => \A K \in SUBSET SeqSet(out.M.genes) : \A p \in Perms(K) : SeqGeneKO(out.M, p, {}, {}) = GeneKO(out.M, K)
\* the same from every prior knock-out state: _gene_deletion (one Gene.knock_out per requested gene)
\* forces exactly the reactions to zero whose rule is false for the requested AND the already
\* non-functional genes
ThmGeneDeletionPrior ==
  Built => LET GS == SeqSet(out.M.genes) IN
     \A P \in SUBSET GS : \A K \in SUBSET GS : \A md \in {"none", "ko", "flag"} :
        (InScope_prior(out.M, P, md) /\ (md = "none" => P = {})) =>
           \A p \in Perms(K) :
              /\ GeneDeletionProtocol(out.M, p, P, md) = GeneDeletionZero(out.M, K, P, md)
              /\ GeneDeletionZero(out.M, K, P, md) = GeneKO(out.M, K \cup P)
\* and / or are what they say: a rule is monotone in the set of functional genes; `and` needs both
ThmRuleEval ==
  Built => \A r \in RIdx(out.M) : LET t == out.M.rules[r] IN
     /\ \A K1 \in SUBSET RuleGenes(t) : \A K2 \in SUBSET K1 : EvalRule(t, K1) => EvalRule(t, K2)
     /\ (t[1] # "none") => ~EvalRule(t, RuleGenes(t))
     /\ (t[1] = "and") => \A g \in RuleGenes(t[2]) \cup RuleGenes(t[3]) :
                             (RuleGenes(t[2]) = {g} \/ RuleGenes(t[3]) = {g}) => ~EvalRule(t, {g})
\* a double deletion over a duplicate-free list with itself has n (n + 1) / 2 rows (the diagonal stays)
ThmCombinations ==
  Built => \A j \in 1..Len(out.calls) : LET cl == out.calls[j] IN
     (cl.k \in {"drd", "dgd"}) =>
        LET La == IF cl.l1given THEN cl.l1 ELSE [i \in 1..Cardinality(Universe(out.M, IF cl.k = "drd" THEN "reaction" ELSE "gene")) |-> i]
            Lb == IF cl.l2given THEN cl.l2 ELSE La
            C == Combinations(La, Lb) n == Cardinality(SeqSet(La)) IN
        /\ Singles(La) \cap Singles(Lb) \subseteq C
        /\ \A x \in SeqSet(La), y \in SeqSet(Lb) : {x, y} \in C
        /\ (SeqSet(La) = SeqSet(Lb)) => 2 * Cardinality(C) = n * (n + 1)
\* essential sets grow with the threshold; knocking out more never helps a maximised objective when
\* every bound interval contains 0
ThmEssential ==
  Built => \A e \in {"reaction", "gene"} :
     /\ Essential(out.M, e, 1, 2) \subseteq Essential(out.M, e, 3, 2)
     /\ (InScope_C19(out.M) /\ out.M.dir = "max" /\ HasOpt(out.M)) =>
           \A x \in Universe(out.M, e) : LET r == RowExpect(out.M, e, {x}) IN r.hasopt => r.opt <= Opt(out.M)

\* ---------------------------------------------------------------- design theorems (C18)
\* get and set are inverse on the documented domain; export bounds and other reactions are untouched
ThmMediumInverse ==
  Built => \A j \in 1..Len(out.calls) : LET cl == out.calls[j] M == out.M IN
     (cl.k = "setmed" /\ InScope_setmedium(M, cl.d)) =>
        LET P == SetMedium(M, cl.d) IN
        /\ GetMedium(P) = PositivePart(M, cl.d)
        /\ SetMedium(M, GetMedium(M)) = M
        /\ SetMedium(P, GetMedium(P)) = SetMedium(P, cl.d)
        /\ \A r \in RIdx(M) : IF r \notin Exchanges(M) THEN P.lb[r] = M.lb[r] /\ P.ub[r] = M.ub[r]
                              ELSE IF ExportWritten(M, r) THEN P.ub[r] = M.ub[r] ELSE P.lb[r] = M.lb[r]
        /\ \A r \in Exchanges(M) : cl.d[r] = Absent => ImportBound(P, r) <= 0
\* relations between the two notions of minimality, on every minimal-medium call
ThmMinMedium ==
  Built => \A j \in 1..Len(out.calls) : LET cl == out.calls[j] IN
     (cl.k = "minmed" /\ ~cl.opentrue) =>
        LET M == Opened(out.M, cl.open) F == Feasible(M) Rch == Reaching(F, M, cl.g) IN
        (Rch # {}) =>
          /\ (MinComponentsIn(Rch, M) = 0) = (MinMediumIn(Rch, M) = 0)
          /\ MinComponentsIn(Rch, M) <= MinMediumIn(Rch, M)
          /\ \A v \in Rch : TotalImport(M, v) = MinMediumIn(Rch, M) => MinComponentsIn(Rch, M) <= Cardinality(Components(M, v))
          /\ \A g2 \in 0..cl.g : MinMediumIn(Reaching(F, M, g2), M) <= MinMediumIn(Rch, M)

\* ---------------------------------------------------------------- design theorems (C20)
\* every boundary reaction / reaction of the metabolite on exactly one side; a steady-state solution
\* balances every metabolite; scaling commutes with the min/max swap
ThmSummary ==
  Built => \A j \in 1..Len(out.calls) : LET cl == out.calls[j] M == IF cl.scaled THEN out.MS ELSE out.M IN
     (cl.solgiven /\ cl.k \in {"model", "met"}) =>
        LET rng == IF cl.fvak = "frame" THEN cl.frame ELSE <<>>
            rows == IF cl.k = "model" THEN ModelRows(M, cl.sol, rng) ELSE MetRows(M, cl.sol, rng, cl.idx)
            plus == {x \in rows : OnPlusSide(x)} minus == rows \ plus IN
        /\ Balanced(M, cl.sol)
        /\ (cl.k = "met") => SumFlux(plus) = SumFlux(minus)
        /\ \A x \in rows : x.lo <= x.hi /\ (cl.fvak = "frame" => (x.lo <= x.flux /\ x.flux <= x.hi))
        /\ \A x \in minus : x.flux < 0 \/ (x.flux = 0 /\ x.factor < 0)
\* the objective value a model summary shows is the CURRENT objective evaluated at the summarised fluxes,
\* whatever objective_value the Solution object carries (pFBA: total flux; a solution older than the objective)
ThmSummaryObjective ==
  Built => \A j \in 1..Len(out.calls) : LET cl == out.calls[j] IN
     (cl.k = "model" /\ cl.solgiven /\ ~cl.scaled) =>
        ShownObjective(cl.c2, cl.sol, Dot(out.M.c, cl.sol)) = Dot(cl.c2, cl.sol)
=============================================================================
