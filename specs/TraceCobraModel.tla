-------------------------- MODULE TraceCobraModel --------------------------
(***************************************************************************)
(* Batch trace validation for the `model` engine (C01 C02 C03 C07 C10 C11  *)
(* C12 C13).  Each recorded event carries the abstract operation, the      *)
(* outcome and the FULL projected observable state of both model slots     *)
(* (content, cross references, DictList lookups, raw GLPK problem).        *)
(*                                                                         *)
(* For every event TLC                                                      *)
(*  (1) computes exp == Apply(op, pre) and compares it field by field with *)
(*      the logged post-state (documented semantics, C02/C03/C07/C12...),  *)
(*  (2) evaluates the invariants LPMirrors (C01), CrossRefOK (C02), RFunc  *)
(*      (C07), Exact on the IMPLEMENTATION state, edge-triggered,          *)
(*  (3) continues from the logged state (gene-rule trees, which are not    *)
(*      observable, are carried over from exp as long as their truth table *)
(*      matches the observed one).                                         *)
(* Mismatches are printed as JSON verdict lines; the run itself never      *)
(* fails because of a mismatch.                                            *)
(***************************************************************************)
EXTENDS CobraModelOps, Json, IOUtils, TLCExt

RxSeq8 == <<"r1", "r2", "r3", "r4", "EX_m3", "EX_m4", "DM_m1", "SK_m2">>
MetSeq4 == <<"m1", "m2", "m3", "m4">>
MetSeq5 == <<"m1", "m2", "m3", "m4", "m5">>        \* (m5: a spare internal identifier -- the target of renames)
GeneSeq4 == <<"g1", "g2", "g3", "g4">>
GrpSeq1 == <<"grp1">>

Traces == JsonDeserialize(IOEnv.TRACE_FILE)

VARIABLES tid, l, st, bad, ok,
          mgr,     \* per slot: the HistoryManagers of the open contexts, as numbered by the hook observer
          dig      \* per slot: digest of the RAW solver problem (every column, row, coefficient, objective
                   \* coefficient and the direction, names sorted) observed at the Enter of each open context
          ,prevdig  \* per slot: that digest after the previous event ("" = no model)
vars == <<tid, l, st, bad, ok, mgr, dig, prevdig>>

\* ------------------------------------------------------------ observed slot -> content
PosIn(seq, x) == IF \E k \in 1..Len(seq) : seq[k] = x THEN (CHOOSE k \in 1..Len(seq) : seq[k] = x) - 1 ELSE Missing
SeqNoDup(seq) == \A i, j \in 1..Len(seq) : seq[i] = seq[j] => i = j

RuleMatches(t, o, r) == TT(t) = o.tt[r] /\ GenesOf(t) = SeqSet(o.rgenes[r])
ObsContent(o, Cexp) ==
  IF ~o.present THEN NoModel
  ELSE LET base == IF IsModel(Cexp) THEN Cexp ELSE EmptyContent(o.solver) IN
  [rxns |-> SeqSet(o.rxns) \cap RxU, mets |-> SeqSet(o.mets) \cap MetU, genes |-> SeqSet(o.genes) \cap GeneU,
   groups |-> SeqSet(o.groups) \cap GrpU,
   S |-> [r \in RxU |-> [m \in MetU |-> o.S[r][m]]],
   lb |-> [r \in RxU |-> o.lb[r]], ub |-> [r \in RxU |-> o.ub[r]],
   rule |-> [r \in RxU |-> base.rule[r]],
   objc |-> [r \in RxU |-> o.objc[r]], dir |-> o.dir, sbo |-> [r \in RxU |-> o.sbo[r]],
   func |-> [g \in GeneU |-> o.func[g]],
   member |-> [g \in GrpU |-> SeqSet(o.member[g]) \cap AllIds],
   ann |-> [x \in AllIds |-> o.ann[x]], note |-> [x \in AllIds |-> o.note[x]],
   attr |-> [x \in AllIds |-> [name |-> o.attr[x].name, formula |-> o.attr[x].formula, charge |-> o.attr[x].charge,
                               subsys |-> o.attr[x].subsys, comp |-> o.attr[x].comp]],
   xcols |-> SeqSet(o.lp.xcols), xrows |-> SeqSet(o.lp.xrows), solver |-> o.solver, tol |-> o.tol,
   \* the name of a compartment without metabolites is not observable (-1): carried over from the expectation
   cname |-> [c \in 1..3 |-> IF o.cname[c] # -1 THEN o.cname[c] ELSE base.cname[c]]]
RulesInSync(o, C) == o.present => \A r \in RxU : (r \in SeqSet(o.rxns) => RuleMatches(C.rule[r], o, r))

\* ------------------------------------------------------------ (1) expected vs observed, one slot
SlotDiff(o, C, depth, helper) ==
  IF ~IsModel(C) THEN (IF o.present THEN {"present"} ELSE {})
  ELSE IF ~o.present THEN {"present"}
  ELSE
     (IF SeqSet(o.rxns) # C.rxns THEN {"rxns"} ELSE {})
     \cup (IF SeqSet(o.mets) # C.mets THEN {"mets"} ELSE {})
     \cup (IF SeqSet(o.genes) # C.genes THEN {"genes"} ELSE {})
     \cup (IF SeqSet(o.groups) # C.groups THEN {"groups"} ELSE {})
     \cup (IF \E r \in RxU, m \in MetU : o.S[r][m] # C.S[r][m] THEN {"S"} ELSE {})
     \cup (IF \E r \in RxU : o.lb[r] # C.lb[r] THEN {"lb"} ELSE {})
     \cup (IF \E r \in RxU : o.ub[r] # C.ub[r] THEN {"ub"} ELSE {})
     \cup (IF \E r \in C.rxns : o.tt[r] # TT(C.rule[r]) THEN {"rule"} ELSE {})
     \cup (IF \E r \in C.rxns : SeqSet(o.rgenes[r]) # GenesOf(C.rule[r]) THEN {"rgenes"} ELSE {})
     \cup (IF helper = 0 /\ (\E r \in RxU : o.objc[r] # C.objc[r]) THEN {"objc"} ELSE {})
     \cup (IF helper = 0 /\ o.dir # C.dir THEN {"dir"} ELSE {})
     \cup (IF \E r \in RxU : o.sbo[r] # C.sbo[r] THEN {"sbo"} ELSE {})
     \cup (IF \E g \in GeneU : o.func[g] # C.func[g] THEN {"func"} ELSE {})
     \cup (IF \E g \in GrpU : SeqSet(o.member[g]) # C.member[g] THEN {"member"} ELSE {})
     \cup (IF \E x \in AllIds : C.ann[x] # Wild /\ o.ann[x] # C.ann[x] THEN {"ann"} ELSE {})
     \cup (IF \E x \in AllIds : C.note[x] # Wild /\ o.note[x] # C.note[x] THEN {"note"} ELSE {})
     \cup (IF \E x \in AllIds : C.attr[x].name # Wild /\ o.attr[x].name # C.attr[x].name THEN {"name"} ELSE {})
     \cup (IF \E x \in AllIds : C.attr[x].formula # Wild /\ o.attr[x].formula # C.attr[x].formula THEN {"formula"} ELSE {})
     \cup (IF \E x \in AllIds : C.attr[x].charge # Wild /\ o.attr[x].charge # C.attr[x].charge THEN {"charge"} ELSE {})
     \cup (IF \E x \in AllIds : C.attr[x].subsys # Wild /\ o.attr[x].subsys # C.attr[x].subsys THEN {"subsys"} ELSE {})
     \cup (IF \E x \in AllIds : C.attr[x].comp # Wild /\ o.attr[x].comp # C.attr[x].comp THEN {"comp"} ELSE {})
     \cup (IF helper = 0 /\ SeqSet(o.lp.xcols) # C.xcols THEN {"xcols"} ELSE {})
     \cup (IF helper = 0 /\ SeqSet(o.lp.xrows) # C.xrows THEN {"xrows"} ELSE {})
     \cup (IF o.solver # C.solver THEN {"solver"} ELSE {})
     \cup (IF o.tol # C.tol THEN {"tol"} ELSE {})
     \cup (IF \E c \in 1..3 : o.cname[c] # -1 /\ o.cname[c] # C.cname[c] THEN {"cname"} ELSE {})
     \cup (IF o.ctx # depth THEN {"ctx"} ELSE {})

\* ------------------------------------------------------------ (2) invariants on the implementation state
\* C01: the LP is exactly the flux-balance problem of the model as it stands
LPMirrors(o, helper) ==
  LET rx == SeqSet(o.rxns) \cap RxU mt == SeqSet(o.mets) \cap MetU lp == o.lp IN
  /\ \A r \in RxU :
        IF r \in rx THEN /\ lp.cols[r].present
                         /\ NetLo(lp.cols[r]) = o.lb[r]
                         /\ NetHi(lp.cols[r]) = o.ub[r]
        ELSE ~lp.cols[r].present
  /\ \A m \in MetU :
        IF m \in mt THEN /\ lp.rows[m].present /\ lp.rows[m].lb = 0 /\ lp.rows[m].ub = 0
                         /\ lp.rows[m].other = 0
                         /\ \A r \in RxU : /\ lp.rows[m].cf[r] = (IF r \in rx THEN o.S[r][m] ELSE 0)
                                           /\ lp.rows[m].cr[r] = (IF r \in rx THEN -o.S[r][m] ELSE 0)
        ELSE ~lp.rows[m].present
  /\ helper = 0 =>
        /\ \A r \in RxU : lp.obj[r].f = (IF r \in rx THEN o.objc[r] ELSE 0)
                          /\ lp.obj[r].r = (IF r \in rx THEN -o.objc[r] ELSE 0)
        /\ lp.objx = 0 /\ lp.dir = o.dir /\ lp.noncont = 0
  \* the solver works with the model's tolerance (feasibility and integrality)
  /\ lp.tolf = o.tol /\ lp.toli = o.tol

\* C02: cross references, ownership, identifier lookups
CrossRefOK(o) ==
  LET rx == SeqSet(o.rxns) mt == SeqSet(o.mets) gn == SeqSet(o.genes) gr == SeqSet(o.groups) IN
  /\ rx \subseteq RxU /\ mt \subseteq MetU /\ gn \subseteq GeneU /\ gr \subseteq GrpU
  /\ SeqNoDup(o.rxns) /\ SeqNoDup(o.mets) /\ SeqNoDup(o.genes) /\ SeqNoDup(o.groups)
  /\ \A r \in rx \cap RxU :
        /\ \A m \in MetU : (m \in SeqSet(o.rxnMets[r])) = (o.S[r][m] # 0)
        /\ SeqSet(o.rxnMets[r]) \subseteq mt
        /\ SeqSet(o.rgenes[r]) = SeqSet(o.gprgenes[r])
        /\ SeqSet(o.rgenes[r]) \subseteq gn
  /\ \A m \in MetU : SeqSet(o.metRxns[m]) = (IF m \in mt THEN {r \in rx \cap RxU : o.S[r][m] # 0} ELSE {})
  /\ \A g \in GeneU : SeqSet(o.geneRxns[g]) = (IF g \in gn THEN {r \in rx \cap RxU : g \in SeqSet(o.rgenes[r])} ELSE {})
  /\ \A x \in RxU : o.pos[x] = PosIn(o.rxns, x)
  /\ \A x \in MetU : o.pos[x] = PosIn(o.mets, x)
  /\ \A x \in GeneU : o.pos[x] = PosIn(o.genes, x)
  /\ \A x \in GrpU : o.pos[x] = PosIn(o.groups, x)
  /\ \A x \in AllIds : o.getok[x] /\ o.owner[x]
  /\ \A g \in gr \cap GrpU : SeqSet(o.member[g]) \subseteq (rx \cup mt \cup gn \cup gr)

\* C07: reaction.functional agrees with the rule and the non-functional genes
NonFuncIdx(o) ==
  LET gn == SeqSet(o.genes) IN
  1 + (IF "g1" \in gn /\ ~o.func["g1"] THEN 1 ELSE 0) + (IF "g2" \in gn /\ ~o.func["g2"] THEN 2 ELSE 0)
    + (IF "g3" \in gn /\ ~o.func["g3"] THEN 4 ELSE 0) + (IF "g4" \in gn /\ ~o.func["g4"] THEN 8 ELSE 0)
RFunc(o) == \A r \in SeqSet(o.rxns) \cap RxU : o.rfunc[r] = (o.tt[r][NonFuncIdx(o)] = 1)

InvNames(o, helper) ==
  IF ~o.present THEN {}
  ELSE (IF ~LPMirrors(o, helper) THEN {"LPMirrors"} ELSE {})
       \cup (IF ~CrossRefOK(o) THEN {"CrossRefOK"} ELSE {})
       \cup (IF ~RFunc(o) THEN {"RFunc"} ELSE {})
       \cup (IF Len(o.inexact) # 0 THEN {"Exact"} ELSE {})

SlotTag(s, names) == {IF s = 1 THEN "s1:" \o n ELSE "s2:" \o n : n \in names}

\* ------------------------------------------------------------ tags (root-cause hints for the findings filter)
Tags(op, S) ==
  LET s == IF "s" \in DOMAIN op THEN op.s ELSE 1
      depth == Len(S.ctx[s]) IN
  (IF depth >= 1 THEN {"in_context"} ELSE {})
  \cup (IF depth >= 2 THEN {"nested_depth_ge2"} ELSE {})
  \cup (IF S.helper[s] # 0 THEN {"helper_active"} ELSE {})
  \cup (IF S.sw[s] THEN {"solver_switched_in_context"} ELSE {})
  \cup (IF op.a = "LoadDoc" /\ "fmt" \in DOMAIN S.doc /\ S.doc.c.dir = "min" THEN {"doc_dir_min"} ELSE {})
  \cup (IF op.a = "LoadDoc" /\ "fmt" \in DOMAIN S.doc /\ FmtFamily(S.doc.fmt) \in {"json", "yaml", "dict"} THEN {"doc_textfmt"} ELSE {})
  \cup (IF op.a = "LoadDoc" /\ "fmt" \in DOMAIN S.doc /\ FmtFamily(S.doc.fmt) = "sbml" THEN {"doc_sbml"} ELSE {})
  \cup (IF IsModel(S.m[s]) /\ "uvr4" \in S.m[s].xcols THEN {"user_variable_named_like_reaction"} ELSE {})
  \cup (IF IsModel(S.m[s]) /\ S.m[s].solver = "glpk_exact" THEN {"solver_exact"} ELSE {})
  \cup (IF IsModel(S.m[s]) /\ (\E r \in S.m[s].rxns : S.m[s].lb[r] = -INF \/ S.m[s].ub[r] = INF) THEN {"infinite_bound"} ELSE {})
  \cup (IF IsModel(S.m[s]) /\ S.m[s].dir = "min" THEN {"dir_min"} ELSE {})
  \cup (IF IsModel(S.m[s]) /\ (\A r \in RxU : S.m[s].objc[r] = 0) THEN {"empty_objective"} ELSE {})
  \cup (IF IsModel(S.m[s]) /\ (\E m \in S.m[s].mets : S.m[s].attr[m].charge = 99) THEN {"charge_none"} ELSE {})
  \cup (IF IsModel(S.m[s]) /\ (\E r \in S.m[s].rxns : MetsOfRxn(S.m[s], r) = {}) THEN {"empty_reaction"} ELSE {})

\* ------------------------------------------------------------ (3) the undo-log mechanism (hook events, C03)
\* hooks = the events cobra.util._verif reported during this call, in order:
\*   ctx.enter(m, depth) ctx.exit(m, depth after pop) ctx.register(m, size) ctx.reset.begin(m, size)
\*   ctx.undo(m, size) ctx.reset.end(m, size)
Count(hs, k, name) == Cardinality({j \in 1..(k - 1) : hs[j].e = name})
InReset(hs, k) == Count(hs, k, "ctx.reset.begin") > Count(hs, k, "ctx.reset.end")
EditActions == ContentActions \ {"Analyze", "RoundTrip", "GetMedium", "Init"}
HookFails(op, hs, stackPre) ==
  LET n == Len(hs) depth == Len(stackPre) IN
  \* nothing is registered while a context is being reset (UndoLog.tla: Hide)
  (IF \E k \in 1..n : hs[k].e = "ctx.register" /\ InReset(hs, k) THEN {"NoRecordingWhileResetting"} ELSE {})
  \* a reset runs exactly the entries that were registered, last in first out, down to empty
  \cup (IF \E k \in 1..n : hs[k].e = "ctx.reset.begin" /\
              ~(\E e \in (k + 1)..n : /\ hs[e].e = "ctx.reset.end" /\ hs[e].m = hs[k].m /\ hs[e].n = 0
                                       /\ Cardinality({j \in (k + 1)..(e - 1) : hs[j].e = "ctx.undo" /\ hs[j].m = hs[k].m}) = hs[k].n)
        THEN {"ResetRunsAllEntries"} ELSE {})
  \cup (IF op.a = "Enter" /\ ~(n = 1 /\ hs[1].e = "ctx.enter" /\ hs[1].n = depth + 1) THEN {"EnterPushesOne"} ELSE {})
  \cup (IF op.a = "Exit" /\ depth > 0 /\ ~(n >= 3 /\ hs[1].e = "ctx.exit" /\ hs[1].m = stackPre[depth] /\ hs[1].n = depth - 1
                                            /\ hs[2].e = "ctx.reset.begin" /\ hs[2].m = stackPre[depth])
        THEN {"ExitResetsTop"} ELSE {})
  \* an edit made inside a context is recorded in the TOP context, and nothing is recorded without one
  \cup (IF op.a \in EditActions /\ (\E k \in 1..n : hs[k].e = "ctx.register" /\ (depth = 0 \/ hs[k].m # stackPre[depth]))
        THEN {"RecordsIntoTop"} ELSE {})
  \* an analysis that is not documented to modify the model works in contexts of its own: it leaves nothing
  \* in the undo logs of the caller's open contexts (a record left there is replayed when the caller leaves)
  \cup (IF op.a = "Analyze" /\ (\E k \in 1..n : hs[k].e = "ctx.register" /\ (\E j \in 1..depth : hs[k].m = stackPre[j]))
        THEN {"AnalysisRecordsNothingInCallerContext"} ELSE {})
MgrNext(op, hs, stackPre, raised) ==
  IF op.a = "Enter" /\ Len(hs) >= 1 /\ hs[1].e = "ctx.enter" THEN Append(stackPre, hs[1].m)
  ELSE IF op.a = "Exit" /\ Len(stackPre) > 0 /\ Len(hs) >= 1 /\ hs[1].e = "ctx.exit" THEN SubSeq(stackPre, 1, Len(stackPre) - 1)
  ELSE stackPre

\* ------------------------------------------------------------ the trace
Init ==
  /\ tid \in 1..Len(Traces)
  /\ l = 0
  /\ ok = TRUE
  /\ bad = {}
  /\ st = InitState
  /\ mgr = [s \in Slots |-> <<>>]
  /\ dig = [s \in Slots |-> <<>>]
  /\ prevdig = [s \in Slots |-> ""]

ExpRet(op, S, res) ==
  IF op.a = "GetMedium" /\ IsModel(S.m[op.s]) THEN [ids |-> {}, n |-> 0, med |-> MediumOf(S.m[op.s])]
  ELSE [ids |-> res.ret.ids, n |-> res.ret.n, med |-> [r \in RxU |-> Missing]]
ArithDiffers(ev, op, S) ==
  /\ op.a = "RxnArith" /\ IsModel(S.m[op.s]) /\ op.r \in S.m[op.s].rxns /\ op.q \in S.m[op.s].rxns
  /\ LET e == ArithResult(S.m[op.s], op.kind, op.r, op.q, op.k) a == ev.ret.ar IN
     \/ ~a.detached
     \/ \E m \in MetU : a.S[m] # e.S[m]
     \/ a.lb # e.lb \/ a.ub # e.ub
     \/ a.tt # TT(e.rule)
     \/ SeqSet(a.genes) # GenesOf(e.rule)
\* read-only views of the model (reversibility, boundary, reactants / products, compartments, mass balance,
\* boundary-type lists) against the content the specification holds
B01(b) == IF b THEN 1 ELSE 0
QueryDiffers(ev, op, S) ==
  /\ op.a = "Query" /\ IsModel(S.m[op.s]) /\ QueryDecidable(S.m[op.s]) /\ ev.raises = "none"
  /\ LET C == S.m[op.s] q == ev.ret.q IN
     \/ \E r \in C.rxns :
           \/ q.rev[r] # B01(Rev(C, r))
           \/ q.bnd[r] # B01(Boundary(C, r))
           \/ SeqSet(q.react[r]) # {m \in MetU : C.S[r][m] < 0}
           \/ SeqSet(q.prod[r]) # {m \in MetU : C.S[r][m] > 0}
           \/ SeqSet(q.comps[r]) # CompsOfRxn(C, r)
           \/ q.mb[r] # MassBal(C, r)
     \/ SeqSet(q.bset) # {r \in C.rxns : Boundary(C, r)}
     \/ SeqSet(q.mcomps) # {C.attr[m].comp : m \in C.mets}
     \/ HasExt(C) /\ \/ q.exok # 1
                     \/ SeqSet(q.exch) # BoundaryTypeSet(C, "exchange")
                     \/ SeqSet(q.dem) # BoundaryTypeSet(C, "demand")
                     \/ SeqSet(q.sink) # BoundaryTypeSet(C, "sink")
RetDiffers(ev, er) ==
  \/ ev.ret.x # ev.ret.x2          \* two identical calls of an analysis: identical uniquely defined outputs
  \/ SeqSet(ev.ret.ids) # er.ids
  \/ ev.ret.n # er.n
  \/ \E r \in RxU : ev.ret.med[r] # er.med[r]

Next ==
  /\ ok
  /\ l < Len(Traces[tid].events)
  /\ LET ev == Traces[tid].events[l + 1]
         op == ev.op
         res0 == Apply(op, st)
         \* fix_objective_as_constraint raises when the model has no optimum: then nothing may have changed
         res == IF op.a = "FixObjective" /\ ev.raises # "none" /\ res0.raises = "none"
                THEN [res0 EXCEPT !.st = st, !.raises = ev.raises] ELSE res0
         E0 == res.st
         \* out-of-scope argument combinations are not judged; whether a detached reaction object exists is
         \* known to the driver only
         judged == res.raises # "skip" /\ ~(op.a \in {"DetachedSetBounds", "ReAddDetached", "DetachedRename"} /\ ev.raises = "skip")
         \* an analysis may legitimately raise (infeasible model ...): its outcome is not predicted, the model
         \* must be unchanged either way
         unexpectedRaise == judged /\ op.a \notin {"Analyze", "Helper"} /\ ev.raises # res.raises
         compareState == judged /\ ~unexpectedRaise /\ (res.raises = "none" \/ res.atomic) /\ ev.raises # "skip"
         diffs == IF compareState
                  THEN UNION {SlotTag(s, SlotDiff(ev.obs[s], E0.m[s], Len(E0.ctx[s]), E0.helper[s])) : s \in Slots}
                       \cup (IF res.raises = "none" /\ RetDiffers(ev, ExpRet(op, st, res)) THEN {"ret"} ELSE {})
                       \cup (IF res.raises = "none" /\ ArithDiffers(ev, op, st) THEN {"arith"} ELSE {})
                       \cup (IF res.raises = "none" /\ QueryDiffers(ev, op, st) THEN {"query"} ELSE {})
                  ELSE IF unexpectedRaise THEN {"raises"} ELSE {}
         nowBad == UNION {SlotTag(s, InvNames(ev.obs[s], E0.helper[s])) : s \in Slots}
         os == IF "s" \in DOMAIN op THEN op.s ELSE 1
         hookBad == IF ev.hooks_on /\ op.a # "Copy" /\ op.a # "NewModel"
                    THEN SlotTag(os, HookFails(op, ev.hooks, mgr[os])) ELSE {}
         \* C03, independent of the content model: the raw solver problem after an Exit is the one observed at the
         \* matching Enter (also while an analysis helper holds the objective, which the content comparison skips)
         digBad == IF /\ op.a = "Exit" /\ ev.raises = "none" /\ res.raises = "none" /\ ev.obs[os].present
                       /\ Len(dig[os]) > 0 /\ Len(dig[os]) = Len(st.ctx[os]) /\ ~st.taint[os] /\ ~st.sw[os]
                       /\ ev.obs[os].lp.dig # dig[os][Len(dig[os])]
                    THEN SlotTag(os, {"ExitRestoresLP"}) ELSE {}
         \* the slots whose solver problem this operation may change; every other model, and the model itself under an
         \* analysis or a read-only call, must keep its raw solver problem (C13 / C12 at the level of the raw problem:
         \* also what the content comparison cannot see, e.g. coefficients of user-added constraints)
         changing == IF op.a \in {"Copy", "MergeNew", "Prune", "AddArith"} THEN {op.t} ELSE {os}
         nowdig == [s \in Slots |-> IF ev.obs[s].present THEN ev.obs[s].lp.dig ELSE ""]
         stutter == op.a \in {"Analyze", "Query", "GetMedium", "RxnArith", "SaveDoc", "Init"}
         lpBad == UNION {IF prevdig[s] # "" /\ nowdig[s] # prevdig[s] /\ ev.raises # "skip"
                            /\ (s \notin changing \/ stutter)
                         THEN SlotTag(s, {IF s \notin changing THEN "SlotsIndependentLP"
                                          ELSE IF op.a = "Analyze" THEN "AnalysisLeavesLP" ELSE "ReadOnlyLeavesLP"})
                         ELSE {} : s \in Slots}
         newBad == (nowBad \ bad) \cup hookBad \cup digBad \cup lpBad
         \* the state to continue from: what the implementation really is (trees carried from exp)
         \* an operation that was to put a NEW model into slot op.t raised unexpectedly (reported above): the driver
         \* still holds the old model of that slot -- continue from it
         failedNew == unexpectedRaise /\ op.a \in {"Copy", "MergeNew", "Prune"}
         E == IF failedNew
              THEN [E0 EXCEPT !.m[op.t] = st.m[op.t], !.ctx[op.t] = st.ctx[op.t], !.helper[op.t] = st.helper[op.t],
                              !.sw[op.t] = st.sw[op.t], !.taint[op.t] = st.taint[op.t], !.det[op.t] = st.det[op.t]]
              ELSE E0
         N == [m |-> [s \in Slots |-> ObsContent(ev.obs[s], E.m[s])],
               ctx |-> [s \in Slots |-> IF ev.obs[s].present /\ ev.obs[s].ctx = Len(E.ctx[s]) THEN E.ctx[s]
                                        ELSE IF ev.obs[s].present /\ ev.obs[s].ctx < Len(E.ctx[s])
                                             THEN SubSeq(E.ctx[s], 1, ev.obs[s].ctx) ELSE E.ctx[s]],
               helper |-> E.helper, sw |-> E.sw, taint |-> E.taint, doc |-> E.doc, det |-> E.det]
     IN
     /\ (diffs \cup newBad # {}) =>
           PrintT(ToJson([verdict |-> "MISMATCH", tid |-> Traces[tid].tid, l |-> l + 1, action |-> op.a, op |-> op,
                          fields |-> diffs, invs |-> newBad, tags |-> Tags(op, st),
                          expraises |-> res.raises, obsraises |-> ev.raises,
                          inexact |-> (IF ev.obs[1].present THEN ev.obs[1].inexact ELSE <<>>)
                                       \o (IF ev.obs[2].present THEN ev.obs[2].inexact ELSE <<>>)]))
     /\ bad' = nowBad
     /\ mgr' = [s \in Slots |-> IF op.a \in {"Copy", "MergeNew", "Prune"} /\ s = op.t /\ ~failedNew THEN <<>>
                                 ELSE IF op.a = "NewModel" /\ s = os THEN <<>>
                                 ELSE IF s = os THEN MgrNext(op, ev.hooks, mgr[s], ev.raises) ELSE mgr[s]]
     /\ dig' = [s \in Slots |-> IF op.a \in {"Copy", "MergeNew", "Prune"} /\ s = op.t /\ ~failedNew THEN <<>>
                                 ELSE IF op.a \in {"NewModel", "LoadDoc"} /\ s = os THEN <<>>
                                 ELSE IF s = os /\ op.a = "Enter" /\ ev.raises = "none" /\ ev.obs[s].present
                                      THEN Append(dig[s], ev.obs[s].lp.dig)
                                 ELSE IF s = os /\ op.a = "Exit" /\ ev.raises # "skip" /\ Len(dig[s]) > 0
                                      THEN SubSeq(dig[s], 1, Len(dig[s]) - 1)
                                 ELSE dig[s]]
     /\ prevdig' = [s \in Slots |-> IF ev.obs[s].present THEN ev.obs[s].lp.dig ELSE ""]
     /\ st' = N
     /\ ok' = \A s \in Slots : (IsModel(N.m[s]) => RulesInSync(ev.obs[s], N.m[s]))
  /\ l' = l + 1
  /\ tid' = tid
=============================================================================
