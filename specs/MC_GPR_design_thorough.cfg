\* design check, thorough tier: every tree of Trees(2, 3) on 3 genes (855 003), all theorems of GPROps,
\* (removal steps are explored by the quick configuration; here Steps = FALSE).  Negative controls: set Bug to rm_hoist_first,
\* rm_and_keeps_survivors, print_no_inner_parens or spell_mix_unparenthesised -- TLC must report
\* a violated invariant.  (harness/gpr_engine.py writes the same file into its work directory.)
CONSTANTS
  GeneSeq <- GeneSeq3
  Bug = "none"
  Mode = "full"
  D = 2
  W = 3
  NSamples = 1
  Seed = 0
  NSpell = 1
  Steps = FALSE
  Emit = FALSE
INIT Init
NEXT Next
INVARIANT InvTheorems
INVARIANT InvRemoved
CONSTRAINT Constr
CHECK_DEADLOCK FALSE
