-------------------------- MODULE CobraModelOps --------------------------
(***************************************************************************)
(* Variable-free operator module: the cobra.Model object graph as abstract *)
(* state, one `Apply` function per public mutator (the documented          *)
(* semantics, as an executable reference), and the invariants that tie the *)
(* redundant copies of the state together (C01 LPMirrors, C02 CrossRefOK,  *)
(* C03 ExitRestores, C07 KOSemantics, C12 SlotsIndependent, ...).          *)
(*                                                                         *)
(* Content of a model (record C), every function TOTAL over a universe     *)
(* with a canonical default for absent entities:                           *)
(*   rxns, mets, genes, groups : sets of ids                               *)
(*   S[r][m] : Int   (0 = metabolite not in the reaction)                  *)
(*   lb[r], ub[r] : Int, with +-INF as tokens                              *)
(*   rule[r] : and/or tree over gene ids (RuleNone = no rule)              *)
(*   objc[r] : Int, dir : "max" | "min"                                    *)
(*   sbo[r]  : "none" | "exchange" | "demand" | "sink"                     *)
(*   func[g] : BOOLEAN (gene functional), member[grp] : set of ids         *)
(*   ann[x]  : Int (a token stored in the object's annotation container)   *)
(*   xcols, xrows : names of user-added variables / constraints            *)
(*   solver  : "glpk" | "glpk_exact"                                       *)
(*   tol     : k for model.tolerance = 10^-k (feasibility and integrality  *)
(*             tolerance of the solver; kept by copies and solver switches)*)
(* A state St has up to two model slots (copies, merges) and per slot the  *)
(* stack of context snapshots:  St = [m : slot -> C or NoModel,            *)
(*                                    ctx : slot -> Seq(C)].               *)
(* Numbers are small integers; the driver multiplies them by the palette's *)
(* scale when it talks to the real objects and divides on the way back.    *)
(***************************************************************************)
EXTENDS Integers, Sequences, FiniteSets, TLC

CONSTANTS RxSeq, MetSeq, GeneSeq, GrpSeq,   \* the id universes, as sequences (fixed orders)
          Bug                               \* "none" or a negative-control name

INF == 1000000
Missing == -1000
Slots == {1, 2}

SeqSet(s) == {s[i] : i \in 1..Len(s)}
RxU == SeqSet(RxSeq)
MetU == SeqSet(MetSeq)
GeneU == SeqSet(GeneSeq)
GrpU == SeqSet(GrpSeq)
AllIds == RxU \cup MetU \cup GeneU \cup GrpU \cup {"MODEL"}     \* "MODEL": the model's own notes / annotation

\* compartments are static: ids ending in "e" ... are external.  ExtMets is given by
\* naming convention of the universe: the metabolites listed in ExtMetSeq
ExtMets == {m \in MetU : m \in {"m3", "m4"}}
CompOf(m) == IF m \in ExtMets THEN "e" ELSE "c"

Neg(x) == IF x = INF THEN -INF ELSE IF x = -INF THEN INF ELSE -x
Min2(a, b) == IF a < b THEN a ELSE b
Max2(a, b) == IF a > b THEN a ELSE b

\* ------------------------------------------------------------------ gene rules
RuleNone == [k |-> "none", id |-> "", ch |-> <<>>]
G(g) == [k |-> "gene", id |-> g, ch |-> <<>>]
And2(a, b) == [k |-> "and", id |-> "", ch |-> <<a, b>>]
Or2(a, b) == [k |-> "or", id |-> "", ch |-> <<a, b>>]

RECURSIVE Eval(_, _)
Eval(t, K) ==     \* K = set of absent (non-functional) genes
  CASE t.k = "none" -> TRUE
    [] t.k = "gene" -> t.id \notin K
    [] t.k = "and"  -> \A i \in 1..Len(t.ch) : Eval(t.ch[i], K)
    [] t.k = "or"   -> \E i \in 1..Len(t.ch) : Eval(t.ch[i], K)
RECURSIVE GenesOf(_)
GenesOf(t) ==
  CASE t.k = "none" -> {}
    [] t.k = "gene" -> {t.id}
    [] OTHER -> UNION {GenesOf(t.ch[i]) : i \in 1..Len(t.ch)}
Gone == [k |-> "gone", id |-> "", ch |-> <<>>]
\* transcription of cobra.manipulation.delete._GeneRemover
RECURSIVE RemoveT(_, _)
RemoveT(t, K) ==
  CASE t.k = "none" -> t
    [] t.k = "gene" -> IF t.id \in K THEN Gone ELSE t
    [] OTHER ->
       LET sub == [i \in 1..Len(t.ch) |-> RemoveT(t.ch[i], K)]
           kept == SelectSeq(sub, LAMBDA x : x.k # "gone") IN
       IF Len(kept) = 0 THEN Gone
       ELSE IF t.k = "and" /\ Len(kept) < Len(t.ch) THEN Gone
       ELSE IF Len(kept) = 1 THEN kept[1]
       ELSE [k |-> t.k, id |-> "", ch |-> kept]
RemoveRule(t, K) == LET r == RemoveT(t, K) IN IF r.k = "gone" THEN RuleNone ELSE r
RECURSIVE RenameT(_, _)
RenameT(t, f) ==     \* f : GeneU -> GeneU
  CASE t.k = "none" -> t
    [] t.k = "gene" -> G(f[t.id])
    [] OTHER -> [k |-> t.k, id |-> "", ch |-> [i \in 1..Len(t.ch) |-> RenameT(t.ch[i], f)]]
\* truth table in the canonical subset order: entry k <-> the genes whose bit is set in k-1 are absent
Pow2(n) == IF n = 0 THEN 1 ELSE IF n = 1 THEN 2 ELSE IF n = 2 THEN 4 ELSE IF n = 3 THEN 8 ELSE IF n = 4 THEN 16 ELSE 32
BitSet(k, i) == ((k \div Pow2(i - 1)) % 2) = 1
SubsetK(k) == {GeneSeq[i] : i \in {j \in 1..Len(GeneSeq) : BitSet(k - 1, j)}}
TT(t) == [k \in 1..Pow2(Len(GeneSeq)) |-> IF Eval(t, SubsetK(k)) THEN 1 ELSE 0]

\* ------------------------------------------------------------------ content
ZeroS == [r \in RxU |-> [m \in MetU |-> 0]]
\* compartments: metabolites are created in "c" (token 1; m1, m2) or "e" (token 2; the external m3, m4); an internal
\* metabolite can be moved to "p" (token 3).  0 = not a metabolite.
DefComp(x) == IF x \in {"m1", "m2", "m5"} THEN 1 ELSE IF x \in {"m3", "m4"} THEN 2 ELSE 0
DefAttr(x) == [name |-> 0, formula |-> 0, charge |-> 99, subsys |-> 0, comp |-> DefComp(x)]
EmptyContent(solver) ==
  [rxns |-> {}, mets |-> {}, genes |-> {}, groups |-> {},
   S |-> ZeroS, lb |-> [r \in RxU |-> 0], ub |-> [r \in RxU |-> 0],
   rule |-> [r \in RxU |-> RuleNone], objc |-> [r \in RxU |-> 0], dir |-> "max",
   sbo |-> [r \in RxU |-> "none"],
   func |-> [g \in GeneU |-> TRUE], member |-> [g \in GrpU |-> {}],
   ann |-> [x \in AllIds |-> 0], note |-> [x \in AllIds |-> 0],
   \* plain attributes as tokens: name (all objects), formula and charge (metabolites; charge 99 = None),
   \* subsystem (reactions); 0 = the default the driver creates objects with
   attr |-> [x \in AllIds |-> DefAttr(x)],
   xcols |-> {}, xrows |-> {}, solver |-> solver,
   \* model.compartments: name token of compartment 1 ("c"), 2 ("e"), 3 ("p"); 0 = no name
   cname |-> [c \in 1..3 |-> 0],
   tol |-> 7]          \* model.tolerance = 10^-tol (Configuration().tolerance = 1e-7)
NoModel == [none |-> TRUE]
\* an expected attribute value the specification does not determine (not compared with the observation)
Wild == -77
NoDet == [present |-> FALSE, st |-> [m \in {} |-> 0], lb |-> 0, ub |-> 0, rule |-> [k |-> "none", id |-> "", ch |-> <<>>],
          sbo |-> "none", ann |-> 0, note |-> 0, attr |-> DefAttr("r1")]
IsModel(c) == "rxns" \in DOMAIN c

MetsOfRxn(C, r) == {m \in MetU : C.S[r][m] # 0}
RxnsOfMet(C, m) == {r \in C.rxns : C.S[r][m] # 0}
RxnsOfGene(C, g) == {r \in C.rxns : g \in GenesOf(C.rule[r])}
NonFunc(C) == {g \in C.genes : ~C.func[g]}
Boundary(C, r) == Cardinality(MetsOfRxn(C, r)) = 1
\* reactions cobra regards as exchanges (medium/boundary_types.py); only used when the model has
\* an "e" metabolite so that the external compartment is found by name
HasExt(C) == \E m \in C.mets : m \in ExtMets
PlainId(r) == r \in {"r1", "r2", "r3", "r4", "r5", "r6"}     \* ids without EX_/DM_/SK_ markers
\* (find_boundary_types answers with the empty list when the model has no boundary reaction at all; otherwise
\* it asks every reaction, and the SBO term dominates: an annotated reaction that has gained a second metabolite
\* still counts)
IsExchange(C, r) ==
  /\ \E b \in C.rxns : Boundary(C, b)
  /\ \/ C.sbo[r] = "exchange"
     \/ /\ C.sbo[r] = "none" /\ Boundary(C, r) /\ MetsOfRxn(C, r) \subseteq ExtMets
        /\ (PlainId(r) \/ r \in {"EX_m3", "EX_m4"})
Exchanges(C) == {r \in C.rxns : IsExchange(C, r)}

\* canonical form: absent entities carry the defaults (so that states compare by value)
Canon(C) ==
  [C EXCEPT !.S = [r \in RxU |-> IF r \in C.rxns THEN C.S[r] ELSE [m \in MetU |-> 0]],
            !.lb = [r \in RxU |-> IF r \in C.rxns THEN C.lb[r] ELSE 0],
            !.ub = [r \in RxU |-> IF r \in C.rxns THEN C.ub[r] ELSE 0],
            !.rule = [r \in RxU |-> IF r \in C.rxns THEN C.rule[r] ELSE RuleNone],
            !.objc = [r \in RxU |-> IF r \in C.rxns THEN C.objc[r] ELSE 0],
            !.sbo = [r \in RxU |-> IF r \in C.rxns THEN C.sbo[r] ELSE "none"],
            !.func = [g \in GeneU |-> IF g \in C.genes THEN C.func[g] ELSE TRUE],
            !.member = [g \in GrpU |-> IF g \in C.groups
                                       THEN C.member[g] \cap (C.rxns \cup C.mets \cup C.genes \cup C.groups)
                                       ELSE {}],
            !.xrows = C.xrows \ C.mets,
            !.attr = [x \in AllIds |-> IF x \in (C.rxns \cup C.mets \cup C.genes \cup {"MODEL"}) THEN C.attr[x]
                                       ELSE DefAttr(x)],
            !.ann = [x \in AllIds |-> IF x \in (C.rxns \cup C.mets \cup C.genes \cup {"MODEL"}) THEN C.ann[x] ELSE 0],
            !.note = [x \in AllIds |-> IF x \in (C.rxns \cup C.mets \cup C.genes \cup {"MODEL"}) THEN C.note[x] ELSE 0]]

\* ------------------------------------------------------------------ results
Res(C, raises, atomic, ret) == [c |-> C, raises |-> raises, atomic |-> atomic, ret |-> ret]
NoRet == [ids |-> {}, n |-> 0]
Ok(C) == Res(Canon(C), "none", TRUE, NoRet)
OkRet(C, ret) == Res(Canon(C), "none", TRUE, ret)
\* a documented failure that must leave everything as it was
FailAtomic(C, exc) == Res(C, exc, TRUE, NoRet)
\* a failure after which only the invariants are judged (nothing is documented about the state)
FailLoose(C, exc) == Res(C, exc, FALSE, NoRet)

\* ------------------------------------------------------------------ helpers shared by actions
\* removing reaction r (Model.remove_reactions for one element)
RemoveOneRxn(C, r, orphans) ==
  LET genesR == GenesOf(C.rule[r]) \cap C.genes
      metsR == MetsOfRxn(C, r) \cap C.mets
      C1 == [C EXCEPT !.rxns = @ \ {r}]
      orphanMets == IF orphans THEN {m \in metsR : RxnsOfMet(C1, m) = {}} ELSE {}
      orphanGenes == IF orphans THEN {g \in genesR : RxnsOfGene(C1, g) = {}} ELSE {}
  IN Canon([C1 EXCEPT !.mets = @ \ orphanMets, !.genes = @ \ orphanGenes])
RECURSIVE RemoveRxns(_, _, _)
RemoveRxns(C, rs, orphans) ==
  IF rs = <<>> THEN C
  ELSE IF Head(rs) \in C.rxns THEN RemoveRxns(RemoveOneRxn(C, Head(rs), orphans), Tail(rs), orphans)
  ELSE RemoveRxns(C, Tail(rs), orphans)

WithGenes(C, r) == [C EXCEPT !.genes = @ \cup GenesOf(C.rule[r])]    \* update_genes_from_gpr creates missing genes

\* ------------------------------------------------------------------ actions (one per public mutator)
\* model.add_metabolites([Metabolite(id) ...])
A_AddMetabolites(C, ms) == Ok([C EXCEPT !.mets = @ \cup SeqSet(ms)])

\* model.remove_metabolites(list, destructive)
RECURSIVE RemoveMets(_, _, _)
RemoveMets(C, ms, destructive) ==
  IF ms = <<>> THEN C
  ELSE LET m == Head(ms) IN
       IF m \notin C.mets THEN RemoveMets(C, Tail(ms), destructive)
       ELSE LET C1 == IF destructive
                      THEN RemoveRxns(C, SelectSeq(RxSeq, LAMBDA r : r \in RxnsOfMet(C, m)), FALSE)
                      ELSE [C EXCEPT !.S = [r \in RxU |-> [C.S[r] EXCEPT ![m] = 0]]]
            IN RemoveMets(Canon([C1 EXCEPT !.mets = @ \ {m}]), Tail(ms), destructive)
A_RemoveMetabolites(C, ms, destructive) == Ok(RemoveMets(C, ms, destructive))

\* model.add_reactions([Reaction ...]); spec = [id, st, lb, ub, rule]; ids already present are ignored
RECURSIVE AddRxns(_, _)
AddRxns(C, specs) ==
  IF specs = <<>> THEN C
  ELSE LET sp == Head(specs) IN
       IF sp.id \in C.rxns THEN AddRxns(C, Tail(specs))
       ELSE AddRxns(WithGenes([C EXCEPT !.rxns = @ \cup {sp.id},
                                        !.mets = @ \cup {m \in MetU : sp.st[m] # 0},
                                        !.S[sp.id] = sp.st, !.lb[sp.id] = sp.lb, !.ub[sp.id] = sp.ub,
                                        !.rule[sp.id] = sp.rule, !.objc[sp.id] = 0, !.sbo[sp.id] = "none"],
                                  sp.id), Tail(specs))
\* two new reactions with the same id in one call: the duplicate check of the list raises before anything changed
A_AddReactions(C, specs) ==
  IF \E i, j \in 1..Len(specs) : i # j /\ specs[i].id = specs[j].id /\ specs[i].id \notin C.rxns
  THEN FailAtomic(C, "ValueError")
  \* the user variable "uvr4" carries the name reaction r4 needs for its forward variable: the solver rejects the
  \* reaction part-way through the call (nothing is documented about the state then; a context still restores)
  ELSE IF "uvr4" \in C.xcols /\ (\E i \in 1..Len(specs) : specs[i].id = "r4") /\ "r4" \notin C.rxns
  THEN FailLoose(C, "KeyError")
  ELSE Ok(AddRxns(C, specs))

\* model.remove_reactions(list of objects or ids, remove_orphans)
A_RemoveReactions(C, rs, orphans) == Ok(RemoveRxns(C, rs, orphans))

\* model.add_boundary(metabolite, type) with the default identifier and bounds (lo, hi = Configuration bounds)
BoundaryId(m, type) == (IF type = "exchange" THEN "EX_" ELSE IF type = "demand" THEN "DM_" ELSE "SK_") \o m
A_AddBoundary(C, m, type, lo, hi) ==
  LET rid == BoundaryId(m, type) IN
  IF m \notin C.mets \/ rid \notin RxU THEN FailLoose(C, "skip")
  ELSE IF type = "exchange" /\ ~HasExt(C) THEN FailLoose(C, "skip")    \* external compartment heuristics: out of scope
  ELSE IF type = "exchange" /\ m \notin ExtMets THEN FailAtomic(C, "ValueError")
  ELSE IF rid \in C.rxns THEN FailAtomic(C, "ValueError")
  ELSE Ok([C EXCEPT !.rxns = @ \cup {rid}, !.S[rid] = [x \in MetU |-> IF x = m THEN -1 ELSE 0],
                    !.lb[rid] = IF type = "demand" THEN 0 ELSE lo, !.ub[rid] = hi,
                    !.rule[rid] = RuleNone, !.objc[rid] = 0, !.sbo[rid] = type])

\* reaction.add_metabolites({m: k ...}, combine) / subtract_metabolites; d is total, 0 = key absent
A_RxnAddMetabolites(C, r, d, combine, sign) ==
  IF r \notin C.rxns THEN FailLoose(C, "skip")
  ELSE Ok([C EXCEPT !.S[r] = [m \in MetU |-> IF d[m] = 0 THEN C.S[r][m]
                                              ELSE IF combine THEN C.S[r][m] + sign * d[m] ELSE sign * d[m]],
                    !.mets = @ \cup {m \in MetU : d[m] # 0}])

\* reaction *= k
A_RxnIMul(C, r, k) ==
  \* (k = 0: nothing is left of the reaction -- no zero entries)
  IF r \notin C.rxns THEN FailLoose(C, "skip")
  ELSE Ok([C EXCEPT !.S[r] = [m \in MetU |-> C.S[r][m] * k],
                    !.lb[r] = IF k < 0 THEN Neg(C.ub[r]) ELSE C.lb[r],
                    !.ub[r] = IF k < 0 THEN Neg(C.lb[r]) ELSE C.ub[r]])

\* r += q : stoichiometry added, rules and-combined
A_RxnIAdd(C, r, q) ==
  IF r \notin C.rxns \/ q \notin C.rxns THEN FailLoose(C, "skip")
  ELSE Ok([C EXCEPT !.S[r] = [m \in MetU |-> C.S[r][m] + C.S[q][m]],
                    !.rule[r] = IF C.rule[r].k # "none" /\ C.rule[q].k # "none" THEN And2(C.rule[r], C.rule[q])
                                ELSE IF C.rule[r].k # "none" THEN C.rule[r] ELSE C.rule[q]])
\* r -= q : stoichiometry only
A_RxnISub(C, r, q) ==
  IF r \notin C.rxns \/ q \notin C.rxns THEN FailLoose(C, "skip")
  ELSE Ok([C EXCEPT !.S[r] = [m \in MetU |-> C.S[r][m] - C.S[q][m]]])

\* reaction.build_reaction_from_string("2 m1 + m2 --> m3"): the stoichiometry is replaced by the one written,
\* the arrow decides the bounds from the Configuration defaults; only metabolites of the model are in scope
\* (unknown ids would be created without a compartment)
A_BuildFromString(C, r, d, arrow, lo, hi) ==
  IF r \notin C.rxns \/ ~({m \in MetU : d[m] # 0} \subseteq C.mets) THEN FailLoose(C, "skip")
  ELSE Ok([C EXCEPT !.S[r] = d,
                    !.lb[r] = IF arrow = "fwd" THEN 0 ELSE lo,
                    !.ub[r] = IF arrow = "rev" THEN 0 ELSE hi])
\* gene.functional = b : only the flag (no bounds are touched)
A_SetFunctional(C, g, b) == IF g \in C.genes THEN Ok([C EXCEPT !.func[g] = b]) ELSE FailLoose(C, "skip")

\* bounds
A_SetBounds(C, r, lo, hi) ==
  IF r \notin C.rxns THEN FailLoose(C, "skip")
  ELSE IF lo > hi THEN FailAtomic(C, "ValueError")
  ELSE Ok([C EXCEPT !.lb[r] = lo, !.ub[r] = hi])
A_SetLB(C, r, lo) == IF r \in C.rxns THEN A_SetBounds(C, r, lo, C.ub[r]) ELSE FailLoose(C, "skip")
A_SetUB(C, r, hi) == IF r \in C.rxns THEN A_SetBounds(C, r, C.lb[r], hi) ELSE FailLoose(C, "skip")
A_RxnKnockOut(C, r) == A_SetBounds(C, r, 0, 0)

\* reaction.gene_reaction_rule = text / reaction.gpr = GPR
A_SetRule(C, r, t) ==
  IF r \notin C.rxns THEN FailLoose(C, "skip")
  ELSE Ok(WithGenes([C EXCEPT !.rule[r] = t], r))

\* gene.knock_out(): the gene becomes non-functional; every reaction OF THAT GENE whose rule is
\* false with the non-functional genes absent gets bounds (0, 0)
KnockOne(C, g) ==
  IF g \notin C.genes THEN C
  ELSE LET C1 == [C EXCEPT !.func[g] = FALSE]
           hit == {r \in RxnsOfGene(C1, g) :
                     IF Bug = "ko_any_gene" THEN TRUE ELSE ~Eval(C1.rule[r], NonFunc(C1))} IN
       [C1 EXCEPT !.lb = [r \in RxU |-> IF r \in hit THEN 0 ELSE C1.lb[r]],
                  !.ub = [r \in RxU |-> IF r \in hit THEN 0 ELSE C1.ub[r]]]
A_GeneKnockOut(C, g) == IF g \in C.genes THEN Ok(KnockOne(C, g)) ELSE FailLoose(C, "skip")
RECURSIVE KnockMany(_, _)
KnockMany(C, gs) == IF gs = <<>> THEN C ELSE KnockMany(KnockOne(C, Head(gs)), Tail(gs))
\* knock_out_model_genes(model, list): returns the reactions of those genes that are not functional
A_KnockOutModelGenes(C, gs) ==
  IF ~(SeqSet(gs) \subseteq C.genes) THEN FailLoose(C, "skip")
  ELSE LET C1 == KnockMany(C, gs) IN
       OkRet(C1, [ids |-> {r \in UNION {RxnsOfGene(C1, g) : g \in SeqSet(gs)} : ~Eval(C1.rule[r], NonFunc(C1))},
                  n |-> 0])

\* cobra.manipulation.remove_genes(model, list, remove_reactions)
A_RemoveGenes(C, gs, rr) ==
  LET K == SeqSet(gs) IN
  IF ~(K \subseteq C.genes) \/ K = {} THEN FailLoose(C, "skip")
  ELSE LET dead == IF rr THEN {r \in C.rxns : C.rule[r].k # "none" /\ ~Eval(C.rule[r], K)} ELSE {}
           C1 == [C EXCEPT !.rule = [r \in RxU |-> IF r \in C.rxns \ dead THEN RemoveRule(C.rule[r], K) ELSE C.rule[r]],
                           !.genes = @ \ K]
       IN Ok(RemoveRxns(C1, SelectSeq(RxSeq, LAMBDA r : r \in dead), FALSE))

\* cobra.manipulation.rename_genes(model, {old: new}); single pair
A_RenameGene(C, old, new) ==
  IF old \notin C.genes \/ old = new THEN FailLoose(C, "skip")
  ELSE LET f == [g \in GeneU |-> IF g = old THEN new ELSE g]
           C1 == [C EXCEPT !.rule = [r \in RxU |-> RenameT(C.rule[r], f)],
                           !.genes = (@ \ {old}) \cup {new},
                           !.func = [g \in GeneU |-> IF g = new THEN (IF new \in C.genes THEN C.func[new] ELSE C.func[old])
                                                     ELSE C.func[g]],
                           !.member = [gr \in GrpU |-> IF old \in C.member[gr] /\ new \notin C.genes
                                                       THEN (C.member[gr] \ {old}) \cup {new}
                                                       ELSE C.member[gr] \ {old}],
                           !.ann = [x \in AllIds |-> IF x = new /\ new \notin C.genes THEN C.ann[old]
                                                     ELSE IF x = old THEN 0 ELSE C.ann[x]],
                           !.note = [x \in AllIds |-> IF x = new /\ new \notin C.genes THEN C.note[old]
                                                      ELSE IF x = old THEN 0 ELSE C.note[x]],
                           !.attr = [x \in AllIds |-> IF x = new /\ new \notin C.genes
                                                      THEN [C.attr[old] EXCEPT !.name = C.attr[old].name] ELSE C.attr[x]]]
       IN Ok(C1)

\* a whole rename dictionary, processed entry by entry (a later entry sees the genes as the earlier ones left
\* them: two keys mapping to one NEW id rename the first gene and merge the second into it).  Only
\* dictionaries whose values are not keys are in scope ("undefined if a value matches a different key")
RECURSIVE RenameFold(_, _)
RenameFold(C, pairs) ==
  IF pairs = <<>> THEN C
  ELSE LET r == A_RenameGene(C, Head(pairs).g, Head(pairs).new) IN
       RenameFold(IF r.raises = "none" THEN r.c ELSE C, Tail(pairs))
A_RenameGenes(C, pairs) ==
  LET keys == {pairs[i].g : i \in 1..Len(pairs)} vals == {pairs[i].new : i \in 1..Len(pairs)} IN
  IF keys \cap vals # {} \/ Cardinality(keys) # Len(pairs) \/ pairs[1].g \notin C.genes THEN FailLoose(C, "skip")
  ELSE Ok(RenameFold(C, pairs))

\* reaction.id = new / metabolite.id = new
SwapKey(f, old, new, dflt) == [x \in DOMAIN f |-> IF x = new THEN f[old] ELSE IF x = old THEN dflt ELSE f[x]]
A_RenameReaction(C, r, new) ==
  IF r \notin C.rxns \/ r = new THEN FailLoose(C, "skip")
  ELSE IF new \in C.rxns THEN FailAtomic(C, "ValueError")
  ELSE Ok([C EXCEPT !.rxns = (@ \ {r}) \cup {new},
                    !.S = SwapKey(C.S, r, new, [m \in MetU |-> 0]), !.lb = SwapKey(C.lb, r, new, 0),
                    !.ub = SwapKey(C.ub, r, new, 0), !.rule = SwapKey(C.rule, r, new, RuleNone),
                    !.objc = SwapKey(C.objc, r, new, 0), !.sbo = SwapKey(C.sbo, r, new, "none"),
                    !.ann = SwapKey(C.ann, r, new, 0), !.note = SwapKey(C.note, r, new, 0),
                    !.attr = SwapKey(C.attr, r, new, DefAttr(r)),
                    !.member = [g \in GrpU |-> IF r \in C.member[g] THEN (C.member[g] \ {r}) \cup {new} ELSE C.member[g]]])
A_RenameMetabolite(C, m, new) ==     \* (compartments are tied to the ids in this model of the universe)
  IF m \notin C.mets \/ m = new \/ CompOf(m) # CompOf(new) THEN FailLoose(C, "skip")
  ELSE IF new \in C.mets THEN FailAtomic(C, "ValueError")
  ELSE Ok([C EXCEPT !.mets = (@ \ {m}) \cup {new},
                    !.S = [r \in RxU |-> SwapKey(C.S[r], m, new, 0)],
                    !.ann = SwapKey(C.ann, m, new, 0), !.note = SwapKey(C.note, m, new, 0),
                    !.attr = SwapKey(C.attr, m, new, DefAttr(m)),
                    !.member = [g \in GrpU |-> IF m \in C.member[g] THEN (C.member[g] \ {m}) \cup {new} ELSE C.member[g]]])

\* objective
A_SetObjective(C, d) ==     \* model.objective = {reaction: coef ...} (or id / index / Reaction for a single 1)
  IF ~({r \in RxU : d[r] # 0} \subseteq C.rxns) THEN FailLoose(C, "skip")
  ELSE Ok([C EXCEPT !.objc = d])
A_SetObjCoef(C, r, v) == IF r \in C.rxns THEN Ok([C EXCEPT !.objc[r] = v]) ELSE FailLoose(C, "skip")
A_SetDirection(C, d) == Ok([C EXCEPT !.dir = d])

\* model.medium = {exchange: value ...}; d total over RxU, Missing = not listed
ReactantWritten(C, r) == \E m \in MetU : C.S[r][m] < 0
A_SetMedium(C, d) ==
  LET listed == {r \in RxU : d[r] # Missing}
      ex == Exchanges(C)
      nlb == [r \in RxU |-> IF r \in listed /\ ReactantWritten(C, r) THEN -d[r]
                            ELSE IF r \in ex \ listed /\ ReactantWritten(C, r) THEN Max2(0, C.lb[r])
                            ELSE C.lb[r]]
      \* (a reaction without metabolites -- an SBO-annotated exchange that was emptied -- has no import direction:
      \* set_active_bound does nothing for it)
      nub == [r \in RxU |-> IF r \in listed /\ ~ReactantWritten(C, r) /\ MetsOfRxn(C, r) # {} THEN d[r]
                            ELSE IF r \in ex \ listed /\ ~ReactantWritten(C, r) /\ MetsOfRxn(C, r) # {} THEN Min2(0, C.ub[r])
                            ELSE C.ub[r]]
  IN
  IF ~HasExt(C) \/ ~(listed \subseteq ex) THEN FailLoose(C, "skip")
  \* a bound that would cross the other one (an exchange with a forced flux): the documented ValueError of
  \* the bound setters; some entries may have been applied already
  ELSE IF \E r \in C.rxns : nlb[r] > nub[r] THEN FailLoose(C, "ValueError")
  ELSE Ok([C EXCEPT !.lb = nlb, !.ub = nub])
\* what model.medium reads back
MediumOf(C) ==
  [r \in RxU |-> IF r \in Exchanges(C) /\ ((~ReactantWritten(C, r) /\ MetsOfRxn(C, r) # {} /\ C.ub[r] > 0)
                                           \/ (ReactantWritten(C, r) /\ C.lb[r] < 0))
                 THEN (IF ReactantWritten(C, r) THEN Neg(C.lb[r]) ELSE C.ub[r])
                 ELSE Missing]

A_SwitchSolver(C, s) == Ok([C EXCEPT !.solver = s])
A_SetTolerance(C, k) == Ok([C EXCEPT !.tol = k])
A_AddUserCons(C, name) == IF name \in C.xrows THEN FailLoose(C, "skip") ELSE Ok([C EXCEPT !.xrows = @ \cup {name}])
A_AddUserVar(C, name) == IF name \in C.xcols THEN FailLoose(C, "skip") ELSE Ok([C EXCEPT !.xcols = @ \cup {name}])
A_RemoveUserCons(C, name) == IF name \notin C.xrows THEN FailLoose(C, "skip") ELSE Ok([C EXCEPT !.xrows = @ \ {name}])
A_RemoveUserVar(C, name) == IF name \notin C.xcols THEN FailLoose(C, "skip") ELSE Ok([C EXCEPT !.xcols = @ \ {name}])

\* groups
A_AddGroup(C, g, members) ==
  LET newm == members \cap (MetU \ C.mets) IN
  IF ~((members \ newm) \subseteq (C.rxns \cup C.mets \cup C.genes)) THEN FailLoose(C, "skip")
  ELSE IF g \in C.groups THEN Ok(C)
  \* "If any group contains members that are not in the model, these members are added to the model as well"
  \* (exercised with metabolites)
  ELSE Ok([C EXCEPT !.mets = @ \cup newm, !.groups = @ \cup {g}, !.member[g] = members])
\* group.add_members([...]) / group.remove_members([...]) on a group of the model
A_GroupAddMembers(C, g, xs) ==
  IF g \notin C.groups \/ ~(xs \subseteq (C.rxns \cup C.mets \cup C.genes)) THEN FailLoose(C, "skip")
  ELSE Ok([C EXCEPT !.member[g] = @ \cup xs])
A_GroupRemoveMembers(C, g, xs) ==
  IF g \notin C.groups \/ ~(xs \subseteq (C.rxns \cup C.mets \cup C.genes)) THEN FailLoose(C, "skip")
  ELSE Ok([C EXCEPT !.member[g] = @ \ xs])
A_RemoveGroup(C, g) == IF g \in C.groups THEN Ok([C EXCEPT !.groups = @ \ {g}]) ELSE Ok(C)
\* x.name / metabolite.formula / metabolite.charge / reaction.subsystem = token
A_SetAttr(C, x, field, v) ==
  IF x \notin (C.rxns \cup C.mets \cup C.genes) THEN FailLoose(C, "skip")
  ELSE IF field \in {"formula", "charge"} /\ x \notin C.mets THEN FailLoose(C, "skip")
  ELSE IF field = "subsys" /\ x \notin C.rxns THEN FailLoose(C, "skip")
  ELSE IF field = "comp" /\ (x \notin {"m1", "m2"} \/ x \notin C.mets \/ v \notin {1, 3}) THEN FailLoose(C, "skip")
  ELSE Ok([C EXCEPT !.attr[x] = [@ EXCEPT ![field] = v]])
\* model.compartments = {compartment: name}: updates the names of the compartments given
A_SetCompName(C, c, v) == Ok([C EXCEPT !.cname[c] = v])
A_Annotate(C, x, v, via) ==     \* via 0: annotation[k] = v; 1: annotation = {...}; 2: notes[k] = v as well
  IF x \notin (C.rxns \cup C.mets \cup C.genes \cup {"MODEL"}) THEN FailLoose(C, "skip")
  ELSE Ok([C EXCEPT !.ann[x] = v, !.note[x] = IF via = 2 THEN v ELSE @])

\* io round trips: what import(export(model)) is documented to preserve.  Pickle keeps everything (it carries
\* the solver object); the text formats rebuild the model with the default solver, without user-added
\* constraints/variables and without gene states; json/yaml/dict do not carry groups (C11 does not list them)
FmtFamily(fmt) ==
  CASE fmt \in {"json", "json_file", "json_sorted"} -> "json"
    [] fmt \in {"yaml", "yaml_file"} -> "yaml"
    [] fmt \in {"sbml", "sbml_file", "sbml_freplace_off"} -> "sbml"
    [] OTHER -> fmt
A_RoundTrip(C, fmt) ==
  LET fam == FmtFamily(fmt) IN
  IF fam = "pickle" THEN Ok(C)
  \* (annotation token 7 is a nested dictionary: not an identifiers.org-style entry, SBML cannot carry it)
  ELSE IF fam = "sbml" /\ (\E x \in AllIds : C.ann[x] = 7) THEN FailLoose(C, "skip")
  ELSE Ok([C EXCEPT !.solver = "glpk", !.xcols = {}, !.xrows = {}, !.tol = 7,
                    \* the documents list the compartments that hold a metabolite (model.compartments)
                    !.cname = [c \in 1..3 |-> IF \E m \in C.mets : C.attr[m].comp \in {c, Wild} THEN C.cname[c] ELSE 0],
                    !.func = [g \in GeneU |-> TRUE],
                    !.groups = IF fam = "sbml" THEN @ ELSE {},
                    \* subsystems are not among what C10 lists for SBML (Wild = not compared)
                    !.attr = IF fam = "sbml" THEN [x \in AllIds |-> [C.attr[x] EXCEPT !.subsys = Wild]] ELSE @,
                    \* SBML notes are plain text (C10); the structured note tokens 3..5 are judged for the other formats
                    !.note = IF fam = "sbml" THEN [x \in AllIds |-> IF C.note[x] \in {3, 4, 5} THEN Wild ELSE C.note[x]] ELSE @])

\* expected detached result of reaction arithmetic (kind: "copy" | "add" | "sub" | "mul")
ArithResult(C, kind, r, q, k) ==
  LET rl == IF C.rule[r].k # "none" /\ C.rule[q].k # "none" THEN And2(C.rule[r], C.rule[q])
            ELSE IF C.rule[r].k # "none" THEN C.rule[r] ELSE C.rule[q] IN
  \* ("radd0": 0 + r, "sum1": sum([r]) -- reflected addition starts from a copy of r, like every other arithmetic)
  CASE kind \in {"copy", "radd0", "sum1"} -> [S |-> C.S[r], lb |-> C.lb[r], ub |-> C.ub[r], rule |-> C.rule[r]]
    [] kind = "add"  -> [S |-> [m \in MetU |-> C.S[r][m] + C.S[q][m]], lb |-> C.lb[r], ub |-> C.ub[r], rule |-> rl]
    [] kind = "sub"  -> [S |-> [m \in MetU |-> C.S[r][m] - C.S[q][m]], lb |-> C.lb[r], ub |-> C.ub[r], rule |-> C.rule[r]]
    [] kind = "mul"  -> [S |-> [m \in MetU |-> C.S[r][m] * k],
                         lb |-> IF k < 0 THEN Neg(C.ub[r]) ELSE C.lb[r], ub |-> IF k < 0 THEN Neg(C.lb[r]) ELSE C.ub[r],
                         rule |-> C.rule[r]]

\* ------------------------------------------------------------------ whole-state dispatcher
\* St = [m |-> [s \in Slots |-> C or NoModel], ctx |-> [s \in Slots |-> Seq(C)]]
SRes(St, raises, atomic, ret) == [st |-> St, raises |-> raises, atomic |-> atomic, ret |-> ret]
\* reactions that leave the model during a step are remembered as detached objects (with their attributes of
\* the moment before the step)
Departed(St, s, C2) ==
  [r \in RxU |-> IF IsModel(St.m[s]) /\ r \in St.m[s].rxns /\ r \notin C2.rxns
                 THEN [present |-> TRUE, st |-> St.m[s].S[r], lb |-> St.m[s].lb[r], ub |-> St.m[s].ub[r],
                       rule |-> St.m[s].rule[r], sbo |-> St.m[s].sbo[r], ann |-> St.m[s].ann[r], note |-> St.m[s].note[r],
                       attr |-> St.m[s].attr[r]]
                 ELSE St.det[s][r]]
Lift(St, s, r) == SRes([St EXCEPT !.m[s] = r.c, !.det[s] = Departed(St, s, r.c)], r.raises, r.atomic, r.ret)
Skip(St) == SRes(St, "skip", FALSE, NoRet)


\* cobra.manipulation.add_SBO(model): exchanges / demands named after their single metabolite get their SBO term
\* (reactions that carry a term already are left alone)
A_AddSBO(C) ==
  Ok([C EXCEPT !.sbo = [r \in RxU |->
        IF r \in C.rxns /\ C.sbo[r] = "none" /\ Cardinality(MetsOfRxn(C, r)) = 1
        THEN (IF r = "EX_m3" /\ MetsOfRxn(C, r) = {"m3"} THEN "exchange"
              ELSE IF r = "EX_m4" /\ MetsOfRxn(C, r) = {"m4"} THEN "exchange"
              ELSE IF r = "DM_m1" /\ MetsOfRxn(C, r) = {"m1"} THEN "demand" ELSE "none")
        ELSE C.sbo[r]]])

\* ------------------------------------------------------------------ read-only views (action Query)
\* reaction.reversibility / boundary / reactants / products / compartments / check_mass_balance,
\* model.boundary / exchanges / demands / sinks (medium/boundary_types.py: the SBO term dominates, then the
\* compartment, the identifier and the reversibility decide)
Rev(C, r) == C.lb[r] < 0 /\ C.ub[r] > 0
CompsOfRxn(C, r) == {C.attr[m].comp : m \in MetsOfRxn(C, r)}
ExcludedFor(type, r) ==
  CASE type = "demand" -> r \in {"SK_m2", "EX_m3", "EX_m4"}
    [] type = "sink"   -> r \in {"DM_m1", "EX_m3", "EX_m4"}
    [] OTHER           -> r \in {"DM_m1", "SK_m2"}
IsBoundaryType(C, r, type) ==
  /\ \E b \in C.rxns : Boundary(C, b)
  /\ \/ C.sbo[r] = type
     \/ /\ C.sbo[r] = "none" /\ Boundary(C, r) /\ ~ExcludedFor(type, r)
        /\ (IF type = "exchange" THEN 2 \in CompsOfRxn(C, r) ELSE 2 \notin CompsOfRxn(C, r))
        /\ (type = "demand" => ~Rev(C, r)) /\ (type = "sink" => Rev(C, r))
BoundaryTypeSet(C, type) == {r \in C.rxns : IsBoundaryType(C, r, type)}
\* formulas behind the tokens: 1 C6H12O6, 2 H2O, 3 C10H12N5O13P3 (0: no formula); vector <<C, H, N, O, P>>
ElemVec(f) == CASE f = 1 -> <<6, 12, 0, 6, 0>> [] f = 2 -> <<0, 2, 0, 1, 0>> [] f = 3 -> <<10, 12, 5, 13, 3>>
                [] OTHER -> <<0, 0, 0, 0, 0>>
RECURSIVE SumSeq(_)
SumSeq(q) == IF q = <<>> THEN 0 ELSE Head(q) + SumSeq(Tail(q))
\* reaction.check_mass_balance(): <<C, H, N, O, P, charge>> of the imbalance (a metabolite without charge adds none)
MassBal(C, r) ==
  [k \in 1..6 |-> SumSeq([i \in 1..Len(MetSeq) |->
       LET m == MetSeq[i] IN
       C.S[r][m] * (IF k <= 5 THEN ElemVec(C.attr[m].formula)[k]
                    ELSE IF C.attr[m].charge = 99 THEN 0 ELSE C.attr[m].charge)])]
\* (attributes of metabolites that came back with a re-added detached reaction are not determined: no verdict then)
QueryDecidable(C) == \A m \in C.mets : C.attr[m].comp # Wild /\ C.attr[m].formula # Wild /\ C.attr[m].charge # Wild

ContentOp(op, C) ==
  CASE op.a = "AddMetabolites"     -> A_AddMetabolites(C, op.ms)
    [] op.a = "RemoveMetabolites"  -> A_RemoveMetabolites(C, op.ms, op.destructive)
    [] op.a = "AddReactions"       -> A_AddReactions(C, op.specs)
    [] op.a = "RemoveReactions"    -> A_RemoveReactions(C, op.rs, op.orphans)
    [] op.a = "AddBoundary"        -> A_AddBoundary(C, op.met, op.type, -1000, 1000)
    [] op.a = "RxnAddMetabolites"  -> A_RxnAddMetabolites(C, op.r, op.d, op.combine, 1)
    [] op.a = "RxnSubtractMetabolites" -> A_RxnAddMetabolites(C, op.r, op.d, op.combine, -1)
    [] op.a = "RxnIMul"            -> A_RxnIMul(C, op.r, op.k)
    [] op.a = "RxnIAdd"            -> A_RxnIAdd(C, op.r, op.q)
    [] op.a = "RxnISub"            -> A_RxnISub(C, op.r, op.q)
    [] op.a = "SetLB"              -> A_SetLB(C, op.r, op.v)
    [] op.a = "SetUB"              -> A_SetUB(C, op.r, op.v)
    [] op.a = "SetBounds"          -> A_SetBounds(C, op.r, op.lo, op.hi)
    [] op.a = "RxnKnockOut"        -> A_RxnKnockOut(C, op.r)
    [] op.a = "SetRule"            -> A_SetRule(C, op.r, op.rule)
    [] op.a = "GeneKnockOut"       -> A_GeneKnockOut(C, op.g)
    \* (bad = 1: an identifier that is no gene of the model ends the list: KeyError, and nothing has changed)
    [] op.a = "KnockOutModelGenes" -> IF "bad" \in DOMAIN op /\ op.bad = 1
                                      THEN (IF SeqSet(op.gs) \subseteq C.genes THEN FailAtomic(C, "KeyError")
                                            ELSE FailLoose(C, "skip"))
                                      ELSE A_KnockOutModelGenes(C, op.gs)
    [] op.a = "RemoveGenes"        -> A_RemoveGenes(C, op.gs, op.rr)
    [] op.a = "RenameGene"         -> A_RenameGenes(C, <<[g |-> op.g, new |-> op.new]>> \o op.more)
    [] op.a = "RenameReaction"     -> A_RenameReaction(C, op.r, op.new)
    [] op.a = "RenameMetabolite"   -> A_RenameMetabolite(C, op.met, op.new)
    [] op.a = "SetObjective"       -> A_SetObjective(C, op.d)
    [] op.a = "SetObjCoef"         -> A_SetObjCoef(C, op.r, op.v)
    [] op.a = "SetDirection"       -> A_SetDirection(C, op.dir)
    [] op.a = "SetMedium"          -> A_SetMedium(C, op.d)
    [] op.a = "SwitchSolver"       -> A_SwitchSolver(C, op.solver)
    [] op.a = "SetTolerance"       -> A_SetTolerance(C, op.k)
    [] op.a = "AddUserCons"        -> A_AddUserCons(C, op.name)
    [] op.a = "AddUserVar"         -> A_AddUserVar(C, op.name)
    [] op.a = "RemoveUserCons"     -> A_RemoveUserCons(C, op.name)
    [] op.a = "RemoveUserVar"      -> A_RemoveUserVar(C, op.name)
    [] op.a = "AddGroup"           -> A_AddGroup(C, op.g, SeqSet(op.members))
    [] op.a = "RemoveGroup"        -> A_RemoveGroup(C, op.g)
    [] op.a = "GroupAddMembers"    -> A_GroupAddMembers(C, op.g, SeqSet(op.members))
    [] op.a = "GroupRemoveMembers" -> A_GroupRemoveMembers(C, op.g, SeqSet(op.members))
    [] op.a = "Annotate"           -> A_Annotate(C, op.x, op.v, op.via)
    [] op.a = "SetAttr"            -> A_SetAttr(C, op.x, op.field, op.v)
    [] op.a = "RoundTrip"          -> A_RoundTrip(C, op.fmt)
    [] op.a = "GetMedium"          -> IF HasExt(C) THEN Ok(C) ELSE FailLoose(C, "skip")   \* which reactions are exchanges
                                                                      \* is a naming heuristic otherwise
    \* an edit of a reaction object that was removed from the model (detached): the model's content does not
    \* change now; if the removal is undone later by a context exit the object comes back as it then is
    [] op.a = "DetachedSetBounds"  -> IF op.r \in C.rxns \/ op.lo > op.hi THEN FailLoose(C, "skip") ELSE Ok(C)
    \* Reaction.copy / + / - / * return detached objects and leave their operands (and the model) unchanged
    \* cobra.util.solver.fix_objective_as_constraint(model) applied for good (or inside a context): one more user row;
    \* it raises on a model without optimum (then nothing changed -- see TraceCobraModel)
    [] op.a = "FixObjective"       -> IF "fixed_objective" \in C.xrows THEN FailLoose(C, "skip")
                                      ELSE Res(Canon([C EXCEPT !.xrows = @ \cup {"fixed_objective"}]), "none", TRUE, NoRet)
    [] op.a = "BuildFromString"    -> A_BuildFromString(C, op.r, op.d, op.arrow, -1000, 1000)
    [] op.a = "SetFunctional"      -> A_SetFunctional(C, op.g, op.b)
    [] op.a = "Repair"             -> Ok(C)
    [] op.a = "RxnArith"           -> IF op.r \in C.rxns /\ op.q \in C.rxns THEN Ok(C) ELSE FailLoose(C, "skip")
    [] op.a = "AddSBO"             -> A_AddSBO(C)
    [] op.a = "SetCompName"        -> A_SetCompName(C, op.c, op.v)
    [] op.a \in {"Analyze", "Init", "Query"} -> Ok(C)     \* stuttering steps on the content
    [] OTHER                       -> FailLoose(C, "unknown-op")

ContentActions == {"AddMetabolites", "RemoveMetabolites", "AddReactions", "RemoveReactions", "AddBoundary",
                   "RxnAddMetabolites", "RxnSubtractMetabolites", "RxnIMul", "RxnIAdd", "RxnISub", "SetLB", "SetUB",
                   "SetBounds", "RxnKnockOut", "SetRule", "GeneKnockOut", "KnockOutModelGenes", "RemoveGenes",
                   "RenameGene", "RenameReaction", "RenameMetabolite", "SetObjective", "SetObjCoef", "SetDirection",
                   "SetMedium", "SwitchSolver", "SetTolerance", "AddUserCons", "AddUserVar", "RemoveUserCons", "RemoveUserVar",
                   "AddGroup", "RemoveGroup", "GroupAddMembers", "GroupRemoveMembers", "Annotate", "SetAttr", "Analyze", "RoundTrip", "GetMedium", "Init", "DetachedSetBounds", "RxnArith", "BuildFromString", "SetFunctional", "Repair", "FixObjective", "AddSBO", "Query", "SetCompName"}
\* operations that the documentation does NOT declare reversible inside `with model:`
NotContextAware == {"AddSBO", "SetCompName", "AddGroup", "RemoveGroup", "GroupAddMembers", "GroupRemoveMembers", "Annotate", "SetAttr", "RenameReaction", "RenameMetabolite", "DetachedSetBounds",
                    "SetTolerance"}

\* left.merge(right, inplace=True, objective="left"): the reactions of right whose ids are new to left are added
\* (as copies, with their metabolites and genes); user-added variables/constraints of right are copied by name;
\* steady-state rows of right's metabolites that did not come along with a reaction are copied as plain rows
SpecsOf(R, C) == LET ids == SelectSeq(RxSeq, LAMBDA r : r \in R.rxns /\ r \notin C.rxns) IN
                 [i \in 1..Len(ids) |-> [id |-> ids[i], st |-> R.S[ids[i]], lb |-> R.lb[ids[i]], ub |-> R.ub[ids[i]],
                                         rule |-> R.rule[ids[i]]]]
\* objective = "left" keeps left's objective; "right" takes right's (coefficients by reaction id, and its direction);
\* "sum" adds the two coefficient vectors and keeps left's direction
A_Merge(C, R, obj) ==
  LET C1 == AddRxns(C, SpecsOf(R, C))
      C2 == [C1 EXCEPT !.sbo = [r \in RxU |-> IF r \in C1.rxns \ C.rxns THEN R.sbo[r] ELSE C1.sbo[r]],
                       !.ann = [x \in AllIds |-> IF x \in (C1.rxns \ C.rxns) \cup (C1.mets \ C.mets) THEN R.ann[x] ELSE C1.ann[x]],
                       !.note = [x \in AllIds |-> IF x \in (C1.rxns \ C.rxns) \cup (C1.mets \ C.mets) THEN R.note[x] ELSE C1.note[x]],
                       !.attr = [x \in AllIds |-> IF x \in (C1.rxns \ C.rxns) \cup (C1.mets \ C.mets) THEN R.attr[x] ELSE C1.attr[x]],
                       !.xcols = @ \cup R.xcols,
                       \* custom rows only ("assumed to be the same if they have the same name": a row of right named
                       \* like a metabolite of left is not copied); mass balances of right's metabolites are not custom
                       !.xrows = (@ \cup R.xrows) \ C1.mets]
      C3 == CASE obj = "right" -> [C2 EXCEPT !.objc = [r \in RxU |-> IF r \in C2.rxns THEN R.objc[r] ELSE 0], !.dir = R.dir]
              [] obj = "sum" -> [C2 EXCEPT !.objc = [r \in RxU |-> IF r \in C2.rxns THEN C.objc[r] + R.objc[r] ELSE 0]]
              [] OTHER -> C2
  IN Ok(C3)

Apply(op, St) ==
  LET s == op.s IN
  IF op.a = "Enter" THEN
     IF ~IsModel(St.m[s]) THEN Skip(St)
     ELSE SRes([St EXCEPT !.ctx[s] = Append(@, St.m[s])], "none", TRUE, NoRet)
  ELSE IF op.a = "Helper" THEN    \* add_pfba / add_moma / ... : only meaningful inside a context; from here to the
                                  \* exit of that context the objective and auxiliary rows/columns are the helper's
     \* (a second helper on top of an active one is a usage error: add_moma / add_room / add_pfba refuse it,
     \* add_lp_feasibility / add_loopless poison the problem with duplicate names)
     IF ~IsModel(St.m[s]) \/ Len(St.ctx[s]) = 0 \/ St.helper[s] # 0 THEN Skip(St)
     ELSE SRes([St EXCEPT !.helper[s] = Len(St.ctx[s])], "none", FALSE, NoRet)
  ELSE IF op.a = "Exit" THEN
     IF ~IsModel(St.m[s]) \/ Len(St.ctx[s]) = 0 THEN Skip(St)
     ELSE IF St.taint[s] THEN
          LET n == Len(St.ctx[s]) IN
          SRes([St EXCEPT !.ctx[s] = SubSeq(@, 1, n - 1), !.helper[s] = IF @ > n - 1 THEN 0 ELSE @,
                          !.taint[s] = (n - 1 > 0)], "skip", FALSE, NoRet)
     ELSE LET n == Len(St.ctx[s]) snap == St.ctx[s][n] IN
          SRes([St EXCEPT !.m[s] = (IF Bug = "exit_keeps_bounds" THEN [snap EXCEPT !.lb = St.m[s].lb] ELSE snap),
                          !.ctx[s] = SubSeq(@, 1, n - 1),
                          !.det[s] = Departed(St, s, snap),
                          !.helper[s] = IF @ > n - 1 THEN 0 ELSE @], "none", TRUE, NoRet)
  ELSE IF op.a = "Copy" THEN      \* slot op.s -> slot op.t by copy() / deepcopy / pickle
     IF ~IsModel(St.m[s]) \/ op.t = s \/ St.helper[s] # 0 THEN Skip(St)
     ELSE SRes([St EXCEPT !.m[op.t] = St.m[s], !.ctx[op.t] = <<>>, !.helper[op.t] = 0, !.sw[op.t] = St.sw[s], !.taint[op.t] = FALSE,
                          !.det[op.t] = [r \in RxU |-> NoDet]],
               "none", TRUE, NoRet)
  \* new = m[s].merge(m[t], inplace=False, objective=obj): a copy of the left model with the right one merged into
  \* it; neither operand changes.  The result takes the place of the right model in slot t.
  ELSE IF op.a = "MergeNew" THEN
     IF ~IsModel(St.m[s]) \/ ~IsModel(St.m[op.t]) \/ op.t = s \/ St.helper[s] # 0 \/ St.helper[op.t] # 0 THEN Skip(St)
     ELSE LET r == A_Merge(St.m[s], St.m[op.t], op.obj) IN
          SRes([St EXCEPT !.m[op.t] = r.c, !.ctx[op.t] = <<>>, !.helper[op.t] = 0, !.sw[op.t] = St.sw[s], !.taint[op.t] = FALSE,
                          !.det[op.t] = [x \in RxU |-> NoDet]],
               "none", TRUE, NoRet)
  \* pruned, removed = prune_unused_metabolites(m[s]) / prune_unused_reactions(m[s]): a COPY of the model without the
  \* metabolites that take part in no reaction / the reactions without metabolites; the model itself is unchanged.
  \* The copy goes to slot t.
  ELSE IF op.a = "Prune" THEN
     IF ~IsModel(St.m[s]) \/ op.t = s \/ St.helper[s] # 0 THEN Skip(St)
     ELSE LET C == St.m[s]
              gone == IF op.kind = "mets" THEN {m \in C.mets : RxnsOfMet(C, m) = {}}
                      ELSE {r \in C.rxns : MetsOfRxn(C, r) = {}}
              P == IF op.kind = "mets" THEN Canon([C EXCEPT !.mets = @ \ gone])
                   ELSE RemoveRxns(C, SelectSeq(RxSeq, LAMBDA r : r \in gone), FALSE) IN
          SRes([St EXCEPT !.m[op.t] = P, !.ctx[op.t] = <<>>, !.helper[op.t] = 0, !.sw[op.t] = St.sw[s], !.taint[op.t] = FALSE,
                          !.det[op.t] = [x \in RxU |-> NoDet]],
               "none", TRUE, [ids |-> gone, n |-> 0])
  ELSE IF op.a = "NewModel" THEN
     SRes([St EXCEPT !.m[s] = EmptyContent(op.solver), !.ctx[s] = <<>>, !.helper[s] = 0, !.sw[s] = FALSE, !.taint[s] = FALSE,
                     !.det[s] = [r \in RxU |-> NoDet]],
          "none", TRUE, NoRet)
  ELSE IF op.a = "LoadDoc" THEN        \* ... import later, into slot op.s (whatever happened in between)
     IF "fmt" \notin DOMAIN St.doc \/ (IsModel(St.m[s]) /\ Len(St.ctx[s]) > 0) THEN Skip(St)
     ELSE LET r == A_RoundTrip(St.doc.c, St.doc.fmt) IN
          SRes([St EXCEPT !.m[s] = r.c, !.ctx[s] = <<>>, !.helper[s] = 0, !.sw[s] = FALSE, !.taint[s] = FALSE,
                          !.det[s] = [x \in RxU |-> NoDet]],
               "none", TRUE, NoRet)
  ELSE IF ~IsModel(St.m[s]) THEN Skip(St)
  ELSE IF op.a = "RoundTrip" /\ Len(St.ctx[s]) > 0 THEN Skip(St)      \* the loaded model replaces the object
  ELSE IF op.a = "SaveDoc" THEN        \* export now ...
     IF ~IsModel(St.m[s]) \/ St.helper[s] # 0 THEN Skip(St)
     ELSE IF FmtFamily(op.fmt) = "sbml" /\ (\E x \in AllIds : St.m[s].ann[x] = 7) THEN Skip(St)
     ELSE SRes([St EXCEPT !.doc = [c |-> St.m[s], fmt |-> op.fmt]], "none", TRUE, NoRet)
  \* (r (+|-|*) q of slot s) renamed to op.new and added to the model of slot op.t: the detached result must not
  \* tie the two models together
  ELSE IF op.a = "AddArith" THEN
     IF ~IsModel(St.m[s]) \/ ~IsModel(St.m[op.t]) \/ op.r \notin St.m[s].rxns \/ op.q \notin St.m[s].rxns
        \/ op.new \in St.m[op.t].rxns \/ St.helper[op.t] # 0
     THEN Skip(St)
     ELSE LET e == ArithResult(St.m[s], op.kind, op.r, op.q, op.k)
              T1 == AddRxns(St.m[op.t], <<[id |-> op.new, st |-> e.S, lb |-> e.lb, ub |-> e.ub, rule |-> e.rule]>>)
              nm == T1.mets \ St.m[op.t].mets       \* metabolites that arrive with the reaction: copies of the source's
              src == St.m[s]
          IN \* the result is a copy of r: it carries r's annotation, notes and SBO term
          Lift(St, op.t, Ok([T1 EXCEPT !.ann = [x \in AllIds |-> IF x = op.new THEN src.ann[op.r] ELSE IF x \in nm THEN src.ann[x] ELSE @[x]],
                                       !.note = [x \in AllIds |-> IF x = op.new THEN src.note[op.r] ELSE IF x \in nm THEN src.note[x] ELSE @[x]],
                                       !.sbo[op.new] = src.sbo[op.r],
                                       !.attr = [x \in AllIds |-> IF x = op.new THEN src.attr[op.r] ELSE IF x \in nm THEN src.attr[x] ELSE @[x]]]))
  ELSE IF op.a = "Merge" THEN
     IF ~IsModel(St.m[op.t]) \/ op.t = s \/ St.helper[s] # 0 \/ St.helper[op.t] # 0 THEN Skip(St)
     ELSE Lift(St, s, A_Merge(St.m[s], St.m[op.t], op.obj))
  \* renaming onto an identifier that some open context will bring back on exit is a clash of the user's
  \* making (the rename is not reversible): out of scope
  ELSE IF op.a = "RenameReaction" /\ (\E k \in 1..Len(St.ctx[s]) : op.new \in St.ctx[s][k].rxns) THEN Skip(St)
  ELSE IF op.a = "RenameMetabolite" /\ (\E k \in 1..Len(St.ctx[s]) : op.new \in St.ctx[s][k].mets) THEN Skip(St)
  ELSE IF op.a = "RoundTrip" THEN
       LET r == Lift(St, s, ContentOp(op, St.m[s])) IN
       SRes([r.st EXCEPT !.det[s] = [x \in RxU |-> NoDet]], r.raises, r.atomic, r.ret)
  \* model.add_reactions([the detached object]): the reaction comes back as the object now is
  ELSE IF op.a = "ReAddDetached" THEN
       IF ~St.det[s][op.r].present \/ op.r \in St.m[s].rxns THEN Skip(St)
       ELSE LET d == St.det[s][op.r]
                C1 == AddRxns(St.m[s], <<[id |-> op.r, st |-> d.st, lb |-> d.lb, ub |-> d.ub, rule |-> d.rule]>>)
                \* metabolites that come back with it are the objects the detached reaction holds, with whatever
                \* attributes they had when they left the model: not determined here
                back == C1.mets \ St.m[s].mets
                wa == [name |-> Wild, formula |-> Wild, charge |-> Wild, subsys |-> Wild, comp |-> Wild] IN
            Lift(St, s, Ok([C1 EXCEPT !.sbo[op.r] = d.sbo,
                                      !.ann = [x \in AllIds |-> IF x = op.r THEN d.ann ELSE IF x \in back THEN Wild ELSE @[x]],
                                      !.note = [x \in AllIds |-> IF x = op.r THEN d.note ELSE IF x \in back THEN Wild ELSE @[x]],
                                      !.attr = [x \in AllIds |-> IF x = op.r THEN d.attr ELSE IF x \in back THEN wa ELSE @[x]]]))
  \* detached.id = new: the object is renamed while it belongs to no model (judged outside contexts only)
  ELSE IF op.a = "DetachedRename" THEN
       IF ~St.det[s][op.r].present \/ op.r \in St.m[s].rxns \/ op.new \in St.m[s].rxns \/ St.det[s][op.new].present
          \/ Len(St.ctx[s]) > 0 \/ op.new = op.r
       THEN Skip(St)
       ELSE SRes([St EXCEPT !.det[s] = [x \in RxU |-> IF x = op.new THEN St.det[s][op.r]
                                                      ELSE IF x = op.r THEN NoDet ELSE St.det[s][x]]],
                 "none", TRUE, NoRet)
  ELSE IF op.a = "DetachedSetBounds" /\ St.det[s][op.r].present /\ op.r \notin St.m[s].rxns /\ op.lo <= op.hi THEN
       LET r == IF Len(St.ctx[s]) > 0 THEN Lift([St EXCEPT !.taint[s] = TRUE], s, Ok(St.m[s])) ELSE Lift(St, s, Ok(St.m[s])) IN
       SRes([r.st EXCEPT !.det[s][op.r].lb = op.lo, !.det[s][op.r].ub = op.hi], "none", TRUE, NoRet)
  \* the Metabolite object is shared with the detached reaction objects: they see the new id, too
  ELSE IF op.a = "RenameMetabolite" THEN
       LET St1 == IF Len(St.ctx[s]) > 0 THEN [St EXCEPT !.taint[s] = TRUE] ELSE St
           r == Lift(St1, s, ContentOp(op, St.m[s])) IN
       IF r.raises # "none" THEN r
       ELSE SRes([r.st EXCEPT !.det[s] = [x \in RxU |-> IF r.st.det[s][x].present
                                                        THEN (IF r.st.det[s][x].st[op.new] # 0 THEN NoDet   \* (two objects, one id: not modelled)
                                                              ELSE [r.st.det[s][x] EXCEPT !.st = SwapKey(@, op.met, op.new, 0)])
                                                        ELSE r.st.det[s][x]]],
                 r.raises, r.atomic, r.ret)
  \* key form 3: the keys are the metabolite OBJECTS of the other slot's model; one whose id this model does not
  \* have arrives as a copy of that object, with its attributes (and the other model keeps its own)
  ELSE IF op.a \in {"RxnAddMetabolites", "RxnSubtractMetabolites"} /\ op.form = 3 /\ IsModel(St.m[3 - s]) THEN
       LET r == Lift(St, s, ContentOp(op, St.m[s]))
           other == St.m[3 - s]
           nm == IF IsModel(r.st.m[s]) THEN (r.st.m[s].mets \ St.m[s].mets) \cap other.mets ELSE {} IN
       IF r.raises # "none" \/ nm = {} THEN r
       ELSE SRes([r.st EXCEPT !.m[s].attr = [x \in AllIds |-> IF x \in nm THEN other.attr[x] ELSE @[x]],
                              !.m[s].ann = [x \in AllIds |-> IF x \in nm THEN other.ann[x] ELSE @[x]],
                              !.m[s].note = [x \in AllIds |-> IF x \in nm THEN other.note[x] ELSE @[x]]],
                 r.raises, r.atomic, r.ret)
  ELSE IF op.a \in NotContextAware /\ Len(St.ctx[s]) > 0
       THEN Lift([St EXCEPT !.taint[s] = TRUE], s, ContentOp(op, St.m[s]))
  ELSE IF op.a = "SwitchSolver" /\ Len(St.ctx[s]) > 0 /\ op.solver # St.m[s].solver
       THEN Lift([St EXCEPT !.sw[s] = TRUE], s, ContentOp(op, St.m[s]))
  ELSE Lift(St, s, ContentOp(op, St.m[s]))

\* sw[s]: the solver interface of slot s was switched while a context was open (history flag; the undo
\* functions registered before the switch are bound to the replaced solver object -- known finding F38)
InitState == [m |-> [s \in Slots |-> NoModel], ctx |-> [s \in Slots |-> <<>>], helper |-> [s \in Slots |-> 0],
              sw |-> [s \in Slots |-> FALSE],
              \* taint[s]: an operation that is NOT documented as reversible (annotations, groups, renaming
              \* reactions/metabolites) was applied while a context was open: the exits of the contexts open at
              \* that time are not judged against their snapshots
              taint |-> [s \in Slots |-> FALSE],
              \* doc: a document saved earlier (SaveDoc) and not loaded yet: the content it was saved from + format
              doc |-> NoModel,
              \* det[s][r]: the Reaction OBJECT with id r that left the model object of slot s most recently, as it
              \* is now (a detached object keeps its stoichiometry, bounds and rule and can be edited and re-added)
              det |-> [s \in Slots |-> [r \in RxU |-> NoDet]]]

\* ------------------------------------------------------------------ invariants on a content / state
\* C02: cross references, derived declaratively from the content
ExpMetRxns(C) == [m \in MetU |-> IF m \in C.mets THEN RxnsOfMet(C, m) ELSE {}]
ExpGeneRxns(C) == [g \in GeneU |-> IF g \in C.genes THEN RxnsOfGene(C, g) ELSE {}]
ContentWellFormed(C) ==
  /\ \A r \in C.rxns : MetsOfRxn(C, r) \subseteq C.mets /\ GenesOf(C.rule[r]) \subseteq C.genes
  /\ \A r \in C.rxns : C.lb[r] <= C.ub[r]
  /\ \A g \in C.groups : C.member[g] \subseteq (C.rxns \cup C.mets \cup C.genes \cup C.groups)
  /\ C = Canon(C)
StateWellFormed(St) == \A s \in Slots : IsModel(St.m[s]) => ContentWellFormed(St.m[s])

\* C07: the batch semantics of knocking out a set K of genes from a model where all genes were functional:
\* exactly the reactions whose rule is false without K get (0,0)
KOBatch(C, K) ==
  [C EXCEPT !.func = [g \in GeneU |-> IF g \in K THEN FALSE ELSE C.func[g]],
            !.lb = [r \in RxU |-> IF r \in C.rxns /\ C.rule[r].k # "none" /\ ~Eval(C.rule[r], K \cup NonFunc(C)) THEN 0 ELSE C.lb[r]],
            !.ub = [r \in RxU |-> IF r \in C.rxns /\ C.rule[r].k # "none" /\ ~Eval(C.rule[r], K \cup NonFunc(C)) THEN 0 ELSE C.ub[r]]]

\* update_variable_bounds: how (lb, ub) is split over the forward / reverse column; and the inverse
\* view the property talks about (the net flux range)
SplitBounds(lo, hi) ==
  IF lo > 0 THEN [fl |-> lo, fu |-> hi, rl |-> 0, ru |-> 0]
  ELSE IF hi < 0 THEN [fl |-> 0, fu |-> 0, rl |-> Neg(hi), ru |-> Neg(lo)]
  ELSE [fl |-> 0, fu |-> hi, rl |-> 0, ru |-> Neg(lo)]
NetLo(c) == IF c.fl = -INF \/ c.ru = INF THEN -INF ELSE c.fl - c.ru
NetHi(c) == IF c.fu = INF \/ c.rl = -INF THEN INF ELSE c.fu - c.rl
SplitIsExact == \A lo, hi \in {-INF, -2000, -1000, -5, -1, 0, 1, 5, 1000, 2000, INF} :
                   lo <= hi => LET c == SplitBounds(lo, hi) IN NetLo(c) = lo /\ NetHi(c) = hi
=============================================================================
