--------------------------- MODULE DictListOps ---------------------------
(***************************************************************************)
(* Variable-free operator module for cobra.core.dictlist.DictList.         *)
(*                                                                         *)
(* A DictList is a Python list of objects (each with an `id`) plus an      *)
(* index `_dict : id -> position`.  The index is maintained INCREMENTALLY  *)
(* by the class (shift loops after insert / pop / del, roll-back after a   *)
(* failed extend ...).  This module transcribes those incremental rules    *)
(* one public method at a time (`Apply`), so that                          *)
(*     Coherent == idx = IndexOf(items) /\ NoDup(items)                    *)
(* is a theorem about the arithmetic that TLC checks on every reachable    *)
(* state, for every positive, negative and out-of-range index.             *)
(*                                                                         *)
(* Objects are records [id, v]: `v` distinguishes different Python objects *)
(* that carry the same identifier (v \in 0..1; a renamed object gets v+2). *)
(* Positions are 0-based as in Python; TLA+ sequences are 1-based.         *)
(***************************************************************************)
EXTENDS Integers, Sequences, FiniteSets, TLC

CONSTANT Ids,           \* the identifier universe (strings)
         Bug            \* "none", or the name of a negative control: one of the index defects the
                        \* pinned tree had (repaired by fix: commits), re-introduced in the model so
                        \* that TLC must find the incoherent state (non-vacuity of InvCoherent)

Missing == -1000        \* "id not in the index"
NoneIdx == 99           \* Python's None as a slice bound

Obj(id, v) == [id |-> id, v |-> v]

IdsOf(items) == {items[k].id : k \in 1..Len(items)}
NoDup(items) == \A i, j \in 1..Len(items) : items[i].id = items[j].id => i = j
PosOf(items, x) == IF \E k \in 1..Len(items) : items[k].id = x
                   THEN (CHOOSE k \in 1..Len(items) : items[k].id = x) - 1
                   ELSE Missing
IndexOf(items) == [x \in Ids |-> PosOf(items, x)]
AllMissing == [x \in Ids |-> Missing]

\* the abstract oracle named by the property: a plain list with a uniqueness rule
Coherent(st) == NoDup(st.items) /\ st.idx = IndexOf(st.items)

ListState(items) == [items |-> items, idx |-> IndexOf(items)]
NoRet == [items |-> <<>>, idx |-> AllMissing, n |-> 0]
RetList(items) == [items |-> items, idx |-> IndexOf(items), n |-> Len(items)]
RetObj(o) == [items |-> <<o>>, idx |-> AllMissing, n |-> 0]
RetInt(n) == [items |-> <<>>, idx |-> AllMissing, n |-> n]

R(items, idx, raises, ret) == [items |-> items, idx |-> idx, raises |-> raises, ret |-> ret]
Fail(st, exc) == R(st.items, st.idx, exc, NoRet)
Ok(items, idx) == R(items, idx, "none", NoRet)

InsertAt(s, p, x) == SubSeq(s, 1, p) \o <<x>> \o SubSeq(s, p + 1, Len(s))
RemoveAt(s, p) == SubSeq(s, 1, p) \o SubSeq(s, p + 2, Len(s))
Rev(s) == [k \in 1..Len(s) |-> s[Len(s) + 1 - k]]

\* ---------------------------------------------------------------- index arithmetic
\* list.insert clamps
ClampInsert(i, n) == IF i < 0 THEN (IF n + i < 0 THEN 0 ELSE n + i) ELSE (IF i > n THEN n ELSE i)
\* item access: negative indices count from the end; out of range -> IndexError
NormIndex(i, n) == IF i < 0 THEN i + n ELSE i
ValidIndex(i, n) == LET p == NormIndex(i, n) IN p >= 0 /\ p < n
\* slice bounds with step 1 (slice.indices)
ClampSlice(b, n, dflt) == IF b = NoneIdx THEN dflt
                          ELSE IF b < 0 THEN (IF n + b < 0 THEN 0 ELSE n + b)
                          ELSE IF b > n THEN n ELSE b
SliceLo(a, n) == ClampSlice(a, n, 0)
SliceHi(a, b, n) == LET lo == SliceLo(a, n) hi == ClampSlice(b, n, n) IN IF hi < lo THEN lo ELSE hi

\* ---------------------------------------------------------------- the methods
\* append: _check, _dict[id] = len, list.append
DoAppend(st, x) ==
  IF st.idx[x.id] # Missing THEN Fail(st, "ValueError")
  ELSE Ok(Append(st.items, x), [st.idx EXCEPT ![x.id] = Len(st.items)])

\* extend: list.extend, then index the new tail one by one; on a duplicate the
\* extension is rolled back and ValueError raised (add, += are the same code path)
RECURSIVE ExtendFrom(_, _, _)
ExtendFrom(st0, cur, xs) ==
  IF xs = <<>> THEN Ok(cur.items, cur.idx)
  ELSE LET x == Head(xs) IN
       IF cur.idx[x.id] # Missing
       THEN (IF Bug = "extend_no_rollback" THEN R(cur.items \o xs, cur.idx, "ValueError", NoRet) ELSE Fail(st0, "ValueError"))
       ELSE ExtendFrom(st0, [items |-> Append(cur.items, x),
                             idx |-> [cur.idx EXCEPT ![x.id] = Len(cur.items)]], Tail(xs))
DoExtend(st, xs) == ExtendFrom(st, [items |-> st.items, idx |-> st.idx], xs)

\* union: append the elements whose id is not present yet
RECURSIVE UnionFrom(_, _)
UnionFrom(cur, xs) ==
  IF xs = <<>> THEN Ok(cur.items, cur.idx)
  ELSE LET x == Head(xs) IN
       IF cur.idx[x.id] # Missing THEN UnionFrom(cur, Tail(xs))
       ELSE UnionFrom([items |-> Append(cur.items, x),
                       idx |-> [cur.idx EXCEPT ![x.id] = Len(cur.items)]], Tail(xs))
DoUnion(st, xs) == UnionFrom([items |-> st.items, idx |-> st.idx], xs)

\* insert: _check, list.insert, shift every index >= position, store position
DoInsert(st, i, x) ==
  IF st.idx[x.id] # Missing THEN Fail(st, "ValueError")
  ELSE LET p == ClampInsert(i, Len(st.items)) IN
       Ok(InsertAt(st.items, p, x),
          [k \in Ids |-> IF k = x.id THEN p
                         ELSE IF st.idx[k] # Missing /\ st.idx[k] >= (IF Bug = "insert_raw_index" THEN i ELSE p)
                              THEN st.idx[k] + 1
                         ELSE st.idx[k]])

\* removal at a valid 0-based position p: drop the id, shift every index > p down
RemovePos(st, p) ==
  LET o == st.items[p + 1] IN
  [items |-> RemoveAt(st.items, p),
   idx |-> [k \in Ids |-> IF k = o.id THEN Missing
                          ELSE IF st.idx[k] # Missing /\ st.idx[k] > p THEN st.idx[k] - 1
                          ELSE st.idx[k]]]

DoPop(st, i) ==   \* pop(i)
  IF ~ValidIndex(i, Len(st.items)) THEN Fail(st, "IndexError")
  ELSE LET p == NormIndex(i, Len(st.items)) s == RemovePos(st, p) IN
       R(s.items, s.idx, "none", RetObj(st.items[p + 1]))
DoPopLast(st) == DoPop(st, -1)     \* pop()

DoDelItem(st, i) ==
  IF ~ValidIndex(i, Len(st.items)) THEN Fail(st, "IndexError")
  ELSE LET p == NormIndex(i, Len(st.items)) s == RemovePos(st, p) IN
       IF Bug = "del_raw_index"     \* shift compared with the raw (possibly negative) index
       THEN Ok(s.items, [k \in Ids |-> IF k = st.items[p + 1].id THEN Missing
                                       ELSE IF st.idx[k] # Missing /\ st.idx[k] > i THEN st.idx[k] - 1 ELSE st.idx[k]])
       ELSE Ok(s.items, s.idx)

\* remove(x): x is an id string (byid) or an object; index() raises ValueError for a
\* missing id and for another object carrying the same id
FindForRemove(st, x, byid) ==
  IF st.idx[x.id] = Missing THEN Missing
  ELSE IF ~byid /\ st.items[st.idx[x.id] + 1] # x THEN Missing
  ELSE st.idx[x.id]
DoRemove(st, x, byid) ==
  LET p == FindForRemove(st, x, byid) IN
  IF p = Missing THEN Fail(st, "ValueError")
  ELSE LET s == RemovePos(st, p) IN Ok(s.items, s.idx)

\* -= : remove one by one; any failure leaves the list as it was
RECURSIVE ISubFrom(_, _, _)
ISubFrom(st0, cur, xs) ==
  IF xs = <<>> THEN Ok(cur.items, cur.idx)
  ELSE LET p == FindForRemove(cur, Head(xs), FALSE) IN
       IF p = Missing THEN Fail(st0, "ValueError")
       ELSE ISubFrom(st0, RemovePos(cur, p), Tail(xs))
DoISub(st, xs) == ISubFrom(st, [items |-> st.items, idx |-> st.idx], xs)

\* l[i] = x : replaces the element at a valid index; the id of x must not be
\* present elsewhere in the list
DoSetItem(st, i, x) ==
  IF ~ValidIndex(i, Len(st.items)) THEN Fail(st, "IndexError")
  ELSE LET p == NormIndex(i, Len(st.items)) old == st.items[p + 1] IN
       IF x.id # old.id /\ st.idx[x.id] # Missing THEN Fail(st, "ValueError")
       ELSE Ok([st.items EXCEPT ![p + 1] = x],
               [k \in Ids |-> IF k = x.id THEN p ELSE IF k = old.id THEN Missing ELSE st.idx[k]])

\* l[a:b] = xs : every new id is checked against the whole current list and against
\* the other new ones; then list slice assignment and a rebuilt index
SeqNoDup(xs) == \A i, j \in 1..Len(xs) : xs[i].id = xs[j].id => i = j
DoSetSlice(st, a, b, xs) ==
  LET n == Len(st.items) lo == SliceLo(a, n) hi == SliceHi(a, b, n) IN
  IF (\E k \in 1..Len(xs) : st.idx[xs[k].id] # Missing) \/ ~SeqNoDup(xs) THEN Fail(st, "ValueError")
  ELSE LET items2 == SubSeq(st.items, 1, lo) \o xs \o SubSeq(st.items, hi + 1, n) IN
       Ok(items2, IndexOf(items2))
\* the alternative outcome a plain unique list would also allow: the new ids only
\* collide with elements of the slice that is being replaced
SetSliceAlt(st, a, b, xs) ==
  LET n == Len(st.items) lo == SliceLo(a, n) hi == SliceHi(a, b, n)
      items2 == SubSeq(st.items, 1, lo) \o xs \o SubSeq(st.items, hi + 1, n) IN
  IF NoDup(items2) THEN Ok(items2, IndexOf(items2)) ELSE Fail(st, "ValueError")

\* l[a:b:2] = xs : an extended slice; the new ids are checked like those of a plain slice, then the sizes must
\* agree (list.__setitem__ raises ValueError otherwise, before anything changed) and the elements at
\* lo, lo + 2, ... (< hi) are replaced one for one
DoSetSlice2(st, a, b, xs) ==
  LET n == Len(st.items) lo == SliceLo(a, n) hi == SliceHi(a, b, n)
      P == {p \in lo..(hi - 1) : (p - lo) % 2 = 0}
      rank(p) == ((p - lo) \div 2) + 1 IN
  IF (\E k \in 1..Len(xs) : st.idx[xs[k].id] # Missing) \/ ~SeqNoDup(xs) THEN Fail(st, "ValueError")
  ELSE IF Len(xs) # Cardinality(P) THEN Fail(st, "ValueError")
  ELSE LET items2 == [k \in 1..n |-> IF (k - 1) \in P THEN xs[rank(k - 1)] ELSE st.items[k]] IN
       Ok(items2, IndexOf(items2))

DoDelSlice(st, a, b) ==
  LET n == Len(st.items) lo == SliceLo(a, n) hi == SliceHi(a, b, n)
      items2 == SubSeq(st.items, 1, lo) \o SubSeq(st.items, hi + 1, n) IN
  Ok(items2, IndexOf(items2))

\* sort by id (the ids are ordered by their position in IdOrder), reverse
\* (SortSeq comes from the TLC module)

\* ---------------------------------------------------------------- non-mutating
DoGetSlice(st, a, b) ==
  LET n == Len(st.items) lo == SliceLo(a, n) hi == SliceHi(a, b, n) IN
  R(st.items, st.idx, "none", RetList(SubSeq(st.items, lo + 1, hi)))
DoQuery(st, S) ==
  R(st.items, st.idx, "none", RetList(SelectSeq(st.items, LAMBDA o : o.id \in S)))
DoCopy(st) == R(st.items, st.idx, "none", RetList(st.items))
DoAddOp(st, xs) ==      \* l + xs
  LET r == DoExtend(st, xs) IN
  IF r.raises # "none" THEN Fail(st, r.raises) ELSE R(st.items, st.idx, "none", RetList(r.items))
DoSubOp(st, xs) ==      \* l - xs
  LET r == DoISub(st, xs) IN
  IF r.raises # "none" THEN Fail(st, r.raises) ELSE R(st.items, st.idx, "none", RetList(r.items))
DoGetItem(st, i) ==
  IF ~ValidIndex(i, Len(st.items)) THEN Fail(st, "IndexError")
  ELSE R(st.items, st.idx, "none", RetObj(st.items[NormIndex(i, Len(st.items)) + 1]))

\* rename the element at position p to a new id (the object changes behind the
\* list's back), followed by the documented repair `_generate_index()`; the renamed
\* object is a new abstract object (v + 2) so that it cannot be confused with
\* another object of the universe
DoRename(st, i, newid) ==
  IF ~ValidIndex(i, Len(st.items)) \/ st.idx[newid] # Missing THEN R(st.items, st.idx, "skip", NoRet)
  ELSE LET p == NormIndex(i, Len(st.items)) old == st.items[p + 1]
           items2 == [st.items EXCEPT ![p + 1] = Obj(newid, old.v + 2)] IN
       Ok(items2, IndexOf(items2))

\* ---------------------------------------------------------------- dispatcher
Apply(op, st, IdLess(_, _)) ==
  CASE op.op = "init"     -> R(st.items, st.idx, "none", NoRet)
    [] op.op = "append"   -> DoAppend(st, op.x)
    [] op.op = "add"      -> DoExtend(st, <<op.x>>)
    [] op.op = "extend"   -> DoExtend(st, op.xs)
    [] op.op = "iadd"     -> DoExtend(st, op.xs)
    [] op.op = "union"    -> DoUnion(st, op.xs)
    [] op.op = "insert"   -> DoInsert(st, op.i, op.x)
    [] op.op = "pop"      -> DoPop(st, op.i)
    [] op.op = "poplast"  -> DoPopLast(st)
    [] op.op = "delitem"  -> DoDelItem(st, op.i)
    [] op.op = "remove"   -> DoRemove(st, op.x, FALSE)
    [] op.op = "removeid" -> DoRemove(st, op.x, TRUE)
    [] op.op = "isub"     -> DoISub(st, op.xs)
    [] op.op = "setitem"  -> DoSetItem(st, op.i, op.x)
    [] op.op = "setslice" -> DoSetSlice(st, op.a, op.b, op.xs)
    [] op.op = "setslice2" -> DoSetSlice2(st, op.a, op.b, op.xs)
    [] op.op = "delslice" -> DoDelSlice(st, op.a, op.b)
    [] op.op = "sort"     -> LET s == SortSeq(st.items, LAMBDA x, y : IdLess(x.id, y.id)) IN Ok(s, IndexOf(s))
    [] op.op = "sortrev"  -> LET s == SortSeq(st.items, LAMBDA x, y : IdLess(y.id, x.id)) IN Ok(s, IndexOf(s))
    [] op.op = "reverse"  -> Ok(Rev(st.items), IndexOf(Rev(st.items)))
    [] op.op = "getslice" -> DoGetSlice(st, op.a, op.b)
    [] op.op = "query"    -> DoQuery(st, {op.qs[k] : k \in 1..Len(op.qs)})
    [] op.op = "copy"     -> DoCopy(st)
    [] op.op = "pickle"   -> DoCopy(st)
    [] op.op = "deepcopy" -> DoCopy(st)
    [] op.op = "addop"    -> DoAddOp(st, op.xs)
    [] op.op = "subop"    -> DoSubOp(st, op.xs)
    [] op.op = "getitem"  -> DoGetItem(st, op.i)
    [] op.op = "rename"   -> DoRename(st, op.i, op.nid)
    [] OTHER              -> R(st.items, st.idx, "unknown-op", NoRet)

Mutating(op) == op.op \in {"append", "add", "extend", "iadd", "union", "insert", "pop", "poplast",
                           "delitem", "remove", "removeid", "isub", "setitem", "setslice", "setslice2",
                           "delslice", "sort", "sortrev", "reverse", "rename"}
ReturnsList(op) == op.op \in {"getslice", "query", "copy", "pickle", "deepcopy", "addop", "subop"}

\* tags: computed from spec state and arguments only (known-findings filter)
Tags(op, st) ==
  LET n == Len(st.items) IN
  (IF op.op \in {"insert", "pop", "delitem", "setitem", "getitem"} /\ op.i < 0 THEN {"index_negative"} ELSE {})
  \cup (IF op.op = "insert" /\ (op.i > n \/ op.i < -n) THEN {"index_out_of_range"} ELSE {})
  \cup (IF op.op \in {"pop", "delitem", "setitem", "getitem"} /\ ~ValidIndex(op.i, n) THEN {"index_out_of_range"} ELSE {})
=============================================================================
