CONSTANTS
  Vars = {"a", "b"}
  Vals = {0, 1}
  MaxDepth = 3
  MaxOps = 7
  Hide = TRUE
INIT Init
NEXT Next
INVARIANT ExitRestores
INVARIANT UndoRefinesSnapshot
CHECK_DEADLOCK FALSE
