----------------------------- MODULE FluxLattice -----------------------------
(***************************************************************************)
(* Instance enumerator / state machine for the flux engine (C04 C05 C19    *)
(* C17).  The state is a flux-balance instance M (record of               *)
(* FluxLatticeOps) plus the history of public calls and edits applied to   *)
(* it.                                                                     *)
(*                                                                         *)
(* Modes (constant Mode):                                                  *)
(*   "family"  Init enumerates a WHOLE instance family: every assignment   *)
(*             of (column shape, bound pair) to NRxns reactions over NMets *)
(*             metabolites x objective palette x direction (Topo = "all"), *)
(*             or every bound assignment of a fixed topology with internal *)
(*             cycles (Topo = "cyc2" | "cyc3"); each instance gets the     *)
(*             fixed call script of the property (Script), chosen inside   *)
(*             InScope / Decidable.                                        *)
(*   "walk"    NWalks pseudo-random larger instances (LCG seeded by Seed), *)
(*             each followed by Depth pseudo-random steps: public calls    *)
(*             of the property's vocabulary and model edits (bounds,       *)
(*             objective coefficient, direction) that change M.            *)
(*   "proto"   the FVA protocol machine of variability.py on every family  *)
(*             instance: Safety -> AddFraction -> ZeroObjective ->         *)
(*             for what in <min,max>: for each r: SetCoef -> Optimize ->   *)
(*             ClearCoef;  theorem: its result = the declarative Range.    *)
(* Design theorems (invariants) are evaluated on every reached instance.   *)
(* Bug # "none" re-introduces a realistic defect that TLC must reject.     *)
(* With Emit = TRUE every finished behaviour is printed as one JSON line   *)
(* [M0, steps, walk] for the conformance driver.                           *)
(***************************************************************************)
EXTENDS FluxLatticeOps, Json

CONSTANTS Prop,        \* "C04" | "C05" | "C19" | "C17": the step vocabulary / script
          Mode, NMets, NRxns, BPal, OPal, NWalks, Depth, Seed, Emit, Bug,
          Canon,       \* family: only non-decreasing (shape, bound) assignments (reaction order symmetry)
          Topo,        \* family: "all" = every shape assignment; or a named fixed topology (every bound assignment)
          Thm          \* which design theorems the invariant evaluates: subset of {"dual","range","loop","blocked"}

VARIABLES M, M0, hist, rng, walk, fva
vars == <<M, M0, hist, rng, walk, fva>>

\* ------------------------------------------------------------- palettes
BPairs ==
  CASE BPal = "q6" -> <<<<0, 2>>, <<-2, 2>>, <<0, 0>>, <<1, 2>>, <<-2, -1>>, <<0, Inf>>>>
    [] BPal = "t8" -> <<<<0, 2>>, <<-2, 2>>, <<0, 0>>, <<1, 2>>, <<-2, -1>>, <<0, Inf>>, <<NegInf, Inf>>, <<1, 1>>>>
    [] BPal = "f7" -> <<<<0, 2>>, <<-2, 2>>, <<0, 1>>, <<1, 2>>, <<-2, 0>>, <<0, 0>>, <<-1, 2>>>>       \* finite
    [] BPal = "f4" -> <<<<0, 2>>, <<-2, 2>>, <<1, 2>>, <<-1, 0>>>>
    [] BPal = "z5" -> <<<<0, 2>>, <<-2, 2>>, <<0, 0>>, <<-2, 0>>, <<-1, 1>>>>                           \* contain 0
    [] BPal = "z3" -> <<<<0, 2>>, <<-2, 2>>, <<-1, 0>>>>
    [] BPal = "f3" -> <<<<0, 2>>, <<-2, 2>>, <<1, 2>>>>
    \* pinned (lb = ub # 0) reactions on the cycle topologies: C17
    [] BPal = "p3" -> <<<<0, 2>>, <<-2, 2>>, <<1, 1>>>>
    [] BPal = "p5" -> <<<<0, 2>>, <<-2, 2>>, <<1, 1>>, <<2, 2>>, <<-1, -1>>>>
    [] BPal = "q4" -> <<<<0, 2>>, <<-2, 2>>, <<1, 2>>, <<0, Inf>>>>
    [] BPal = "i9" -> <<<<0, 2>>, <<-2, 2>>, <<0, 0>>, <<1, 2>>, <<-2, -1>>, <<0, Inf>>, <<NegInf, Inf>>, <<1, 1>>, <<NegInf, 1>>>>
\* column shapes: <<a, b>> consumes metabolite a and produces metabolite b (0 = nothing: boundary)
Shapes(nm) == SelectSeq([i \in 1..((nm + 1) * (nm + 1)) |-> <<(i - 1) \div (nm + 1), (i - 1) % (nm + 1)>>],
                        LAMBDA p : p[1] # p[2])
MetNames == <<"A", "B", "C", "D", "E">>
RxnName(k) == "R" \o ToString(k)
Column(nm, sh) == [m \in 1..nm |-> IF m = sh[1] THEN -1 ELSE IF m = sh[2] THEN 1 ELSE 0]

Build(nm, shapes, bounds, c, dir) ==
  [rxns |-> [k \in 1..Len(shapes) |-> RxnName(k)],
   mets |-> SubSeq(MetNames, 1, nm),
   S |-> [k \in 1..Len(shapes) |-> Column(nm, shapes[k])],
   lb |-> [k \in 1..Len(shapes) |-> bounds[k][1]],
   ub |-> [k \in 1..Len(shapes) |-> bounds[k][2]],
   c |-> c, dir |-> dir]

\* objective palettes over n reactions
ObjSet(n) ==
  CASE OPal = "unit" -> {[k \in 1..n |-> IF k = r THEN 1 ELSE 0] : r \in 1..n}
    [] OPal = "first" -> {[k \in 1..n |-> IF k = 1 THEN 1 ELSE 0]}
    [] OPal = "few" -> {[k \in 1..n |-> IF k = 1 THEN 1 ELSE 0],
                        [k \in 1..n |-> IF k = 1 THEN 2 ELSE IF k = n THEN -1 ELSE 0],
                        [k \in 1..n |-> IF k = 1 \/ k = n THEN 1 ELSE 0]}
    [] OPal = "rich" -> {c \in [1..n -> {-1, 0, 1, 2}] : Cardinality({k \in 1..n : c[k] # 0}) <= 2}

\* ------------------------------------------------------------- pseudo-random draws
LCG(r) == (r * 75 + 74) % 65537
RECURSIVE Draws(_, _)
Draws(r, n) == IF n = 0 THEN <<>> ELSE <<LCG(r)>> \o Draws(LCG(r), n - 1)
Pick(seq, d) == seq[(d % Len(seq)) + 1]

RandInstance(r) ==
  LET d == Draws(r, 6 + 3 * NRxns)
      nm == IF NMets <= 2 THEN NMets ELSE (NMets - 1) + (d[1] % 2)
      nr == IF NRxns <= 3 THEN NRxns ELSE (NRxns - 2) + (d[2] % 3)
      sh == Shapes(nm)
      \* backbones make feasible, non-trivial instances frequent: a quarter of the instances start
      \* with import -> chain -> export, a quarter with import -> 2-cycle -> export; the rest is free
      bb == d[3] % 4
      shapes == [k \in 1..nr |-> IF bb = 0 /\ k = 1 THEN <<0, 1>>
                                 ELSE IF bb = 0 /\ k = 2 THEN <<1, nm>>
                                 ELSE IF bb = 0 /\ k = 3 THEN <<nm, 0>>
                                 ELSE IF bb = 1 /\ k = 1 THEN <<0, 1>>
                                 ELSE IF bb = 1 /\ k = 2 THEN <<1, nm>>
                                 ELSE IF bb = 1 /\ k = 3 THEN <<nm, 1>>
                                 ELSE IF bb = 1 /\ k = 4 THEN <<nm, 0>>
                                 ELSE Pick(sh, d[6 + k])]
      bounds == [k \in 1..nr |-> Pick(BPairs, d[6 + NRxns + k])]
      r1 == (d[4] % nr) + 1
      r2 == (d[5] % nr) + 1
      k1 == Pick(<<1, 1, 2, -1>>, d[6 + 2 * NRxns + 1])
      k2 == Pick(<<0, 0, 0, 1, -1, 2>>, d[6 + 2 * NRxns + 2])
      c == [k \in 1..nr |-> IF k = r1 THEN k1 ELSE IF k = r2 THEN k2 ELSE 0]
      dir == IF d[6] % 3 = 0 THEN "min" ELSE "max"
      base == Build(nm, shapes, bounds, c, dir)
      \* C04 only: one instance in eight leaves the unimodular family (one reaction gets the coefficients
      \* doubled); there the lattice decides nothing and only the certificate clauses are checked
      dbl == (d[6 + 3 * NRxns] % nr) + 1
  IN IF Prop = "C04" /\ d[6 + 3 * NRxns - 1] % 8 = 0
     THEN [base EXCEPT !.S[dbl] = [m \in 1..nm |-> 2 * base.S[dbl][m]]]
     ELSE base

\* ------------------------------------------------------------- steps
\* edits (change M); every other step is a public call that must leave M alone
IsEdit(s) == s.op \in {"setbounds", "setobj", "setdir", "setobjdict", "addrxn", "dblcol"}
ApplyStep(m, s) ==
  CASE s.op = "setbounds" -> [m EXCEPT !.lb[s.r] = s.lb, !.ub[s.r] = s.ub]
    [] s.op = "setobj" -> [m EXCEPT !.c[s.r] = s.k]
    \* model.objective = {reaction: coefficient ...}: the whole objective is replaced -- by nothing when the
    \* dictionary is empty (the direction stays)
    [] s.op = "setobjdict" -> [m EXCEPT !.c = [k \in 1..Len(m.c) |-> IF k = s.r THEN s.k ELSE IF k = s.r2 THEN s.k2 ELSE 0]]
    [] s.op = "setdir" -> [m EXCEPT !.dir = s.dir]
    \* model.add_reactions([reverse copy of reaction r]): the stoichiometry of r negated, bounds (0, ub), no objective
    \* term -- a structural edit (it closes a two-reaction cycle with r when r is internal)
    \* every coefficient of reaction r is doubled: reaction.add_metabolites({<metabolite ID as text>: coefficient ...})
    \* for each of its metabolites (combine=True) -- the keys are identifiers, not objects
    [] s.op = "dblcol" -> [m EXCEPT !.S[s.r] = [j \in 1..Len(m.mets) |-> 2 * m.S[s.r][j]]]
    [] s.op = "addrxn" -> [m EXCEPT !.rxns = Append(@, "R" \o ToString(Len(m.rxns) + 1)),
                                    !.S = Append(@, [j \in 1..Len(m.mets) |-> 0 - m.S[s.r][j]]),
                                    !.lb = Append(@, 0), !.ub = Append(@, s.ub), !.c = Append(@, 0)]
    [] OTHER -> m

AllRxns(m) == [k \in 1..NR(m) |-> k]
Fva(rl, by, num, den, ll, pf) == [op |-> "fva", rl |-> rl, by |-> by, num |-> num, den |-> den, loopless |-> ll, pf |-> pf]

\* the fixed script of a family instance.  The generator stays inside InScope / Decidable:
\* calls the property does not quantify over are not generated (a few protocol-only calls are)
Script(m) ==
  CASE Prop = "C04" ->
         <<[op |-> "optimize", sense |-> "none", re |-> FALSE], [op |-> "access"],
           [op |-> "slim", ev |-> "default"], [op |-> "slim", ev |-> "num"], [op |-> "slim", ev |-> "none"],
           [op |-> "optimize", sense |-> IF m.dir = "max" THEN "minimize" ELSE "maximize", re |-> FALSE],
           [op |-> "access"],
           \* the one-call override inside a `with model:` block: after the block the model's own
           \* direction decides again (ctx: the driver wraps the call in a context)
           [op |-> "optimize", sense |-> IF m.dir = "max" THEN "minimize" ELSE "maximize", re |-> FALSE, ctx |-> TRUE],
           [op |-> "slim", ev |-> "default"], [op |-> "optimize", sense |-> "none", re |-> FALSE]>>
    [] Prop = "C05" ->
         IF ~HasOpt(m) THEN <<Fva(<<>>, "none", 1, 1, FALSE, 0)>>
         ELSE LET o == Opt(m) IN
              <<Fva(<<>>, "none", 1, 1, FALSE, 0), [op |-> "optimize", sense |-> "none", re |-> FALSE]>>
              \o (IF SignOK(m, o) THEN <<Fva(AllRxns(m), "obj", 0, 1, FALSE, 0)>> ELSE <<>>)
              \o (IF SignOK(m, o) /\ o # 0 /\ FracIsBound(m, 1, 2, o) THEN <<Fva(AllRxns(m), "id", 1, 2, FALSE, 0)>> ELSE <<>>)
              \* the same call on the same model object reached through history: cycle reaction cr was taken out of
              \* the model, a loopless FVA ran on the cycle-free network, the reaction object was added back
              \* (the FIRST loopless call on the model object; the re-added reaction is at the end of model.reactions from
              \* then on, so the driver names the reactions explicitly where the script says "all")
              \o (IF AllFinite(m) /\ Cycles(m) # {}
                  THEN <<Fva(AllRxns(m), "obj", 1, 1, TRUE, 0) @@
                         [pre |-> "rebuilt", cr |-> SetMin({r \in RIdx(m) : \E z \in Cycles(m) : z[r] # 0})]>> ELSE <<>>)
              \o (IF AllFinite(m) /\ Cycles(m) # {} THEN <<Fva(<<>>, "none", 1, 1, TRUE, 0)>> ELSE <<>>)
              \o (IF AllFinite(m) THEN <<Fva(<<>>, "none", 1, 1, FALSE, 10)>> ELSE <<>>)
    [] Prop = "C19" ->
         \* (pre = "failed": a call with open_exchanges=True and an identifier that is no reaction of the model was
         \* rejected (KeyError) just before -- a call that raises leaves the model as it found it)
         <<[op |-> "blocked", rl |-> <<>>, by |-> "none", open |-> FALSE, pre |-> "failed"],
           [op |-> "blocked", rl |-> <<>>, by |-> "none", open |-> FALSE],
           [op |-> "blocked", rl |-> AllRxns(m), by |-> "obj", open |-> TRUE],
           [op |-> "fastcc"],
           \* (pre = "other": the same analysis ran on this model object just before while the model was in another
           \* state -- first boundary reaction closed -- and the state was put back; not judged, must not matter)
           [op |-> "fastcc", pre |-> "other"], [op |-> "blocked", rl |-> <<>>, by |-> "none", open |-> TRUE, pre |-> "other"]>>
         \* identifiers instead of objects: a pinned witness per instance of the larger topologies
         \o (IF NR(m) >= 4 THEN <<[op |-> "blocked", rl |-> AllRxns(m), by |-> "id", open |-> FALSE]>> ELSE <<>>)
    [] Prop = "C17" ->
         IF ~HasOpt(m) THEN <<>>
         ELSE <<[op |-> "loopless_solution", start |-> "opt", ar |-> 1, ad |-> "max"],
                [op |-> "loopless_solution", start |-> "none", ar |-> 1, ad |-> "max"],
                [op |-> "loopless_solution", start |-> "none", ar |-> 1, ad |-> "max", pre |-> "other"],
                [op |-> "add_loopless"]>>
              \* the constraints are added while a cycle reaction is knocked out; its bounds come back
              \* before the optimisation (the loop law must hold for the model as it is optimised)
              \o (LET cr == {r \in RIdx(m) : \E z \in Cycles(m) : z[r] # 0} IN
                  IF cr = {} THEN <<>> ELSE <<[op |-> "add_loopless_ko", r |-> SetMin(cr)]>>)
              \* an objective with TWO terms, both reactions of internal cycles (they can trade off against each other
              \* at a constant objective value), then the loopless solution of an optimum and of another optimal vector
              \o (LET zs == {z \in Cycles(m) : Cardinality({r \in RIdx(m) : z[r] # 0}) >= 2} IN
                  IF zs = {} THEN <<>>
                  ELSE LET z == CHOOSE y \in zs : TRUE
                           a == SetMin({r \in RIdx(m) : z[r] # 0}) b == SetMin({r \in RIdx(m) : z[r] # 0} \ {a})
                           \* the objective a + k2 * b does not change along the cycle z
                           k2 == IF z[a] = z[b] THEN -1 ELSE 1 IN
                       <<[op |-> "setobjdict", r |-> a, k |-> 1, r2 |-> b, k2 |-> k2],
                         [op |-> "loopless_solution", start |-> "opt", ar |-> a, ad |-> "max"],
                         [op |-> "loopless_solution", start |-> "aux", ar |-> a, ad |-> "max"],
                         [op |-> "loopless_solution", start |-> "aux", ar |-> b, ad |-> "min"]>>)

\* a pseudo-random step of the property's vocabulary (walk mode)
DrawStep(r, m) ==
  LET d == Draws(r, 10) n == NR(m) rr == (d[2] % n) + 1 bp == Pick(BPairs, d[3])
      \* (TLC takes the first arm whose guard holds: the narrower guards come first)
      edit == CASE Prop = "C04" /\ d[4] % 3 = 0 /\ d[9] % 3 = 0 /\ (\A j \in 1..Len(m.mets) : m.S[rr][j] \in {-1, 0, 1})
                     -> [op |-> "dblcol", r |-> rr]     \* a stoichiometry edit by identifier; a column is doubled at most once
                [] d[4] % 3 = 0 -> [op |-> "setbounds", r |-> rr, lb |-> bp[1], ub |-> bp[2]]
                [] d[4] % 3 = 1 /\ d[9] % 3 = 0 ->
                     \* (k = k2 = 0: the empty dictionary)
                     [op |-> "setobjdict", r |-> rr, k |-> Pick(<<0, 1, 0, -1>>, d[5]), r2 |-> (d[6] % n) + 1,
                      k2 |-> IF (d[6] % n) + 1 = rr THEN 0 ELSE Pick(<<0, 0, 2, 1>>, d[10])]
                [] d[4] % 3 = 1 -> [op |-> "setobj", r |-> rr, k |-> Pick(<<1, 0, 2, -1>>, d[5])]
                \* (C05: analyses called again after the network itself changed; at most 7 reactions)
                [] Prop = "C05" /\ d[4] % 3 = 2 /\ d[9] % 2 = 0 /\ n < 7 -> [op |-> "addrxn", r |-> rr, ub |-> 1 + (d[10] % 2)]
                [] OTHER -> [op |-> "setdir", dir |-> IF m.dir = "max" THEN "min" ELSE "max"]
      sub == LET keep == {k \in 1..n : d[5 + (k % 5)] % 3 # 0} \cup {rr} IN
             \* a subset in a rotated order
             LET s == SelectSeq([k \in 1..n |-> ((k + d[6]) % n) + 1], LAMBDA x : x \in keep) IN s
      by == Pick(<<"obj", "id", "mixed">>, d[7])
  IN
  IF d[1] % 10 < 4 THEN edit
  ELSE CASE Prop = "C04" ->
              Pick(<<[op |-> "optimize", sense |-> "none", re |-> FALSE],
                     [op |-> "optimize", sense |-> "maximize", re |-> FALSE],
                     [op |-> "optimize", sense |-> "minimize", re |-> FALSE],
                     [op |-> "optimize", sense |-> "none", re |-> TRUE],
                     [op |-> "optimize", sense |-> IF m.dir = "max" THEN "minimize" ELSE "maximize", re |-> FALSE, ctx |-> TRUE],
                     [op |-> "access"], [op |-> "access"],
                     [op |-> "slim", ev |-> "default"], [op |-> "slim", ev |-> "num"],
                     [op |-> "slim", ev |-> "zero"], [op |-> "slim", ev |-> "none"]>>, d[8])
         [] Prop = "C05" ->
              LET ho == HasOpt(m) o == IF ho THEN Opt(m) ELSE 0
                  half == ho /\ SignOK(m, o) /\ o # 0 /\ FracIsBound(m, 1, 2, o)
                  zero == ho /\ SignOK(m, o) /\ FracIsBound(m, 0, 1, o)
                  fr == Pick(<<1, 1, 0, 2>>, d[8])
                  ll == AllFinite(m) /\ d[9] % 4 = 0
                  pf == IF AllFinite(m) /\ ~ll /\ d[9] % 4 = 1 THEN Pick(<<10, 15, 1000>>, d[10]) ELSE 0
              IN CASE fr = 2 /\ half -> Fva(sub, by, 1, 2, ll, pf)
                   [] fr = 0 /\ zero -> Fva(sub, by, 0, 1, ll, pf)
                   [] OTHER -> Fva(IF d[10] % 2 = 0 THEN <<>> ELSE sub, IF d[10] % 2 = 0 THEN "none" ELSE by, 1, 1, ll, pf)
         [] Prop = "C19" ->
              Pick(<<[op |-> "blocked", rl |-> <<>>, by |-> "none", open |-> FALSE],
                     [op |-> "blocked", rl |-> sub, by |-> by, open |-> FALSE],
                     [op |-> "blocked", rl |-> sub, by |-> by, open |-> TRUE],
                     [op |-> "blocked", rl |-> <<>>, by |-> "none", open |-> TRUE],
                     [op |-> "fastcc"]>>, d[8])
         [] Prop = "C17" ->
              Pick(<<[op |-> "loopless_solution", start |-> "opt", ar |-> rr, ad |-> "max"],
                     [op |-> "loopless_solution", start |-> "aux", ar |-> rr, ad |-> "max"],
                     [op |-> "loopless_solution", start |-> "aux", ar |-> rr, ad |-> "min"],
                     [op |-> "loopless_solution", start |-> "none", ar |-> rr, ad |-> "max"],
                     [op |-> "add_loopless"], [op |-> "add_loopless_ko", r |-> rr]>>, d[8])

\* ------------------------------------------------------------- the FVA protocol machine
\* state of the worker's LP: objective vector c, direction, whether the fraction row is present
NoFva == [pc |-> "off", k |-> 0, what |-> "min", c |-> <<>>, frac |-> FALSE, res |-> <<>>]
FvaNum == 1    \* the protocol is checked at fraction FvaNum/FvaDen of the optimum, for
FvaDen == 1    \* instances on which that restriction is exact (see ProtoFraction)
\* the restriction the fraction row imposes.  Negative control "fva_min_uses_lb": the variable
\* fva_old_objective gets a LOWER bound also when minimising
FracHolds(m, num, den, opt, v) ==
  IF Bug = "fva_min_uses_lb" THEN den * Dot(m.c, v) >= num * opt ELSE ObjAtLeast(m, num, den, opt, v)
ProtoFrac(m) == LET o == Opt(m) IN
  IF SignOK(m, o) /\ o # 0 /\ FracIsBound(m, 1, 2, o) THEN <<1, 2>> ELSE IF SignOK(m, o) THEN <<0, 1>> ELSE <<1, 1>>
FvaRestricted(m) == LET f == ProtoFrac(m) o == Opt(m) IN {v \in Feasible(m) : FracHolds(m, f[1], f[2], o, v)}
FvaNext ==
  /\ UNCHANGED <<M, M0, hist, rng, walk>>
  /\ CASE fva.pc = "new" ->
            \* safety optimisation: no optimum -> the call raises and nothing else happens;
            \* an unbounded range makes a later step raise: outside the protocol's scope
            fva' = IF HasOpt(M) /\ AllFinite(M) THEN [fva EXCEPT !.pc = "safety"] ELSE [fva EXCEPT !.pc = "raised"]
       [] fva.pc = "safety" -> fva' = [fva EXCEPT !.pc = "fraction", !.frac = TRUE]
       [] fva.pc = "fraction" ->      \* model.objective = Zero
            fva' = [fva EXCEPT !.pc = "zeroed", !.c = ZeroVec(M), !.k = 1, !.what = "min",
                               !.res = [r \in RIdx(M) |-> <<0, 0>>]]
       [] fva.pc = "zeroed" ->        \* set_linear_coefficients({fwd: 1, rev: -1})
            fva' = [fva EXCEPT !.pc = "set", !.c[fva.k] = 1]
       [] fva.pc = "set" ->           \* slim_optimize under the current coefficients and direction
            LET FR == FvaRestricted(M) IN
            IF FR = {} THEN fva' = [fva EXCEPT !.pc = "infeasible_step"]      \* cannot happen after the safety optimisation
            ELSE fva' = [fva EXCEPT !.pc = "solved", !.res[fva.k][IF fva.what = "min" THEN 1 ELSE 2] = OptIn(FR, fva.c, fva.what)]
       [] fva.pc = "solved" ->        \* set_linear_coefficients({fwd: 0, rev: 0})
            LET cleared == IF Bug = "fva_no_clear" THEN fva.c ELSE [fva.c EXCEPT ![fva.k] = 0] IN
            IF fva.k < NR(M) THEN fva' = [fva EXCEPT !.pc = "zeroed", !.c = cleared, !.k = fva.k + 1]
            ELSE IF fva.what = "min" THEN fva' = [fva EXCEPT !.pc = "zeroed", !.c = cleared, !.k = 1, !.what = "max"]
            ELSE fva' = [fva EXCEPT !.pc = "done", !.c = cleared]
       [] OTHER -> FALSE

\* theorem: the protocol computes the declarative ranges; the objective is zero between steps
InvFvaProto ==
  /\ fva.pc = "done" =>
        LET f == ProtoFrac(M) o == Opt(M) IN
        \A r \in RIdx(M) : fva.res[r] = Range(M, r, LAMBDA v : ObjAtLeast(M, f[1], f[2], o, v))
  /\ fva.pc = "zeroed" => fva.c = ZeroVec(M)
  /\ fva.pc # "infeasible_step"

\* ------------------------------------------------------------- behaviour
\* fixed topologies with internal cycles
\*   cyc2:  -> A,  A -> B,  B -> A,  B ->                   (2-cycle between import and export)
\*   cyc3:  A -> B,  B -> C,  C -> A,  -> A,  B ->          (3-cycle; the first reaction lies inside it)
TopoShapes ==
  CASE Topo = "cyc2" -> <<<<0, 1>>, <<1, 2>>, <<2, 1>>, <<2, 0>>>>
    [] Topo = "cyc3" -> <<<<1, 2>>, <<2, 3>>, <<3, 1>>, <<0, 1>>, <<2, 0>>>>
    [] OTHER -> <<>>
FamilyCfgs ==
  LET ncol == IF Topo = "all" THEN Len(Shapes(NMets)) ELSE 1 nbp == Len(BPairs) n == ncol * nbp IN
  {f \in [1..NRxns -> 0..(n - 1)] : Canon => \A k \in 1..(NRxns - 1) : f[k] <= f[k + 1]}
FamilyInstance(f, c, dir) ==
  LET sh == Shapes(NMets) nbp == Len(BPairs) IN
  Build(NMets, [k \in 1..NRxns |-> IF Topo = "all" THEN sh[(f[k] \div nbp) + 1] ELSE TopoShapes[k]],
        [k \in 1..NRxns |-> BPairs[(f[k] % nbp) + 1]], c, dir)

Init ==
  /\ hist = <<>>
  /\ IF Mode \in {"family", "proto"}
     THEN /\ walk = 0 /\ rng = 0
          /\ \E f \in FamilyCfgs, c \in ObjSet(NRxns), dir \in {"max", "min"} : M0 = FamilyInstance(f, c, dir)
     ELSE /\ walk \in 1..NWalks
          /\ rng = LCG((Seed * 7919 + walk * 104729) % 65537)
          /\ M0 = RandInstance(rng)
  /\ M = M0
  /\ fva = IF Mode = "proto" THEN [NoFva EXCEPT !.pc = "new"] ELSE NoFva

Next ==
  CASE Mode = "proto" -> FvaNext
    [] Mode = "walk" ->
         /\ Len(hist) < Depth
         /\ LET s == DrawStep(rng, M) IN
            /\ hist' = Append(hist, s)
            /\ M' = ApplyStep(M, s)
         /\ rng' = LCG(LCG(rng) + Len(hist))
         /\ UNCHANGED <<M0, walk, fva>>
    [] OTHER -> FALSE

Spec == Init /\ [][Next]_vars

\* ------------------------------------------------------------- design theorems
\* evaluated on every instance the machine reaches (initial ones and edited ones)
DualK == 4
ThmDual ==       \* strong duality with integral duals: the lattice optimum IS the LP optimum
  (IsUnitNetwork(M) /\ HasOpt(M)) => DualCertExists(M, DualK)
ThmRange ==
  HasOpt(M) /\ AllFinite(M) =>
    LET F == Feasible(M) o == OptIn(F, M.c, M.dir)
        F1 == {v \in F : Dot(M.c, v) = o}
        F0 == {v \in F : ObjAtLeast(M, 0, 1, o, v)} IN
    \A r \in RIdx(M) :
      LET p == RangeIn(F, r) r1 == RangeIn(F1, r) IN
      /\ p[1] <= p[2] /\ r1[1] <= r1[2]
      /\ p[1] <= r1[1] /\ r1[2] <= p[2]                      \* restricted ranges inside plain ones
      /\ \A v \in F1 : r1[1] <= v[r] /\ v[r] <= r1[2]        \* every optimal vector inside the ranges
      /\ F0 # {} => LET r0 == RangeIn(F0, r) IN p[1] <= r0[1] /\ r0[2] <= p[2]
      /\ (SignOK(M, o) /\ F0 # {}) => LET r0 == RangeIn(F0, r) IN r0[1] <= r1[1] /\ r1[2] <= r0[2]
ThmLoop ==
  HasOpt(M) /\ AllFinite(M) =>
    LET F == Feasible(M) Z == Cycles(M) L == {v \in F : LooplessWrt(Z, v)} IN
    /\ L \subseteq F
    /\ L # {} => \A r \in RIdx(M) : LET p == RangeIn(F, r) q == RangeIn(L, r) IN p[1] <= q[1] /\ q[2] <= p[2]
    \* removing one unit of a conforming cycle keeps the vector balanced, shrinks it and keeps
    \* the boundary fluxes (the lemma behind the irreducibility test of C17)
    \* (negative control "loop_removal_ignores_sign": any cycle, conforming or not)
    /\ \A v \in F : \A z \in Z : (Conforms(z, v) \/ Bug = "loop_removal_ignores_sign") =>
         LET w == [r \in RIdx(M) |-> v[r] - z[r]] IN
         /\ Balanced(M, w) /\ L1(w) < L1(v)
         /\ \A r \in Boundary(M) : w[r] = v[r]
    \* a vector without conforming cycle exists whenever the zero vector is feasible
    /\ (\A r \in RIdx(M) : M.lb[r] <= 0 /\ M.ub[r] >= 0) => L # {}
ThmBlocked ==
  \* (negative control "scale_lemma_out_of_scope": without the premise that every interval contains 0
  \*  the lemma is false -- the reason InScope_C19 exists)
  (InScope_C19(M) \/ Bug = "scale_lemma_out_of_scope") /\ AllFinite(M) /\ BoundsOrdered(M) /\ Feasible(M) # {} =>
    LET B == Blocked(M) F == Feasible(M) IN
    /\ B = {r \in RIdx(M) : RangeIn(F, r) = <<0, 0>>}
    \* scale lemma: with 0 inside every interval only the zero pattern of the bounds matters
    /\ B = Blocked([M EXCEPT !.lb = [r \in RIdx(M) |-> 3 * M.lb[r]], !.ub = [r \in RIdx(M) |-> 2 * M.ub[r]]])
    /\ B = Blocked([M EXCEPT !.lb = [r \in RIdx(M) |-> -Sign(-M.lb[r])], !.ub = [r \in RIdx(M) |-> Sign(M.ub[r])]])
\* negative control "opt_ignores_dir": an oracle that always maximises has no certificate
BuggyM == IF Bug = "opt_ignores_dir" /\ M.dir = "min" THEN [M EXCEPT !.c = [r \in RIdx(M) |-> -M.c[r]]] ELSE M
InvThm ==
  /\ "dual" \in Thm => (IF Bug = "opt_ignores_dir"
                        THEN (IsUnitNetwork(M) /\ HasOpt(M) /\ HasOpt(BuggyM)) =>
                               \E y \in SeqsOver((-DualK)..DualK, NM(M)) :
                                  DualFeasible(M, y, CHOOSE w \in ArgOpt(BuggyM) : TRUE)
                        ELSE ThmDual)
  /\ "range" \in Thm => ThmRange
  /\ "loop" \in Thm => ThmLoop
  /\ "blocked" \in Thm => ThmBlocked

\* ------------------------------------------------------------- emission
Finished == IF Mode = "walk" THEN Len(hist) = Depth ELSE TRUE
Constr ==
  /\ (Emit /\ Finished) =>
       PrintT(ToJson([M0 |-> M0, walk |-> walk,
                      steps |-> IF Mode = "walk" THEN hist ELSE Script(M0)]))
=============================================================================
