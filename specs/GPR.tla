------------------------------- MODULE GPR -------------------------------
(***************************************************************************)
(* State machine / enumerator for gene-reaction rules (property C08).      *)
(*                                                                         *)
(* A reaction is given a rule t0 (phase "rule"); afterwards genes are      *)
(* removed from the model in steps (phase "removed": t is the current      *)
(* rule, `gone` the genes removed so far).                                 *)
(*                                                                         *)
(* Mode = "full":   t0 ranges over ALL of Trees(D, W).  The tree is built  *)
(*                  in two steps (root operator + first child, then the    *)
(*                  other children) so that TLC's workers share the work.  *)
(* Mode = "sample": NSamples pseudo-random trees of depth <= D and width   *)
(*                  <= W, drawn by an LCG from the constant Seed.          *)
(*                                                                         *)
(* Checked: InvTheorems (the design theorems of GPROps on every t0),       *)
(* InvRemoved (every reachable removal state is the old rule with the      *)
(* removed genes absent).  Negative controls: Bug # "none" must make TLC   *)
(* report a violated invariant.                                            *)
(* With Emit = TRUE every rule is printed as one JSON case for the         *)
(* conformance driver: the tree, the token sequences of its spellings,     *)
(* the partner rules for ==, and the (knock-out set, remove_reactions)     *)
(* pairs for remove_genes.                                                 *)
(***************************************************************************)
EXTENDS GPROps, Json

CONSTANTS Mode, D, W, NSamples, Seed,
          NSpell,       \* sample mode: spellings emitted per tree (full mode: all styles)
          Steps,        \* explore gene-removal steps
          Emit

VARIABLES phase, op, first, t0, t, gone, walk
vars == <<phase, op, first, t0, t, gone, walk>>

\* ------------------------------------------------------------- pseudo-random trees
LCG(r) == (r * 75 + 74) % 65537
RECURSIVE GenTree(_, _)
GenTree(r, d) ==
  LET a == LCG(r) b == LCG(a) c == LCG(b) IN
  IF d = 0 \/ a % 5 = 0 THEN G(GeneSeq[(b % NG) + 1])
  ELSE LET n == 2 + (b % (W - 1)) IN
       N(IF c % 2 = 0 THEN "and" ELSE "or",
         [i \in 1..n |-> GenTree((c + i * 7919) % 65537, d - 1)])
\* the root of a sampled tree is an operator (single genes are covered exhaustively)
SampleTree(w) ==
  LET r == LCG((Seed * 7919 + w * 104729) % 65537) b == LCG(r) c == LCG(b)
      n == 2 + (b % (W - 1)) IN
  N(IF c % 2 = 0 THEN "and" ELSE "or", [i \in 1..n |-> GenTree((c + i * 7919) % 65537, D - 1)])

RECURSIVE HFold(_, _)
RECURSIVE TreeHash(_)
HFold(ch, acc) == IF ch = <<>> THEN acc ELSE HFold(Tail(ch), (acc * 31 + TreeHash(Head(ch))) % 65537)
TreeHash(x) == IF IsGene(x) THEN (CHOOSE i \in 1..NG : GeneSeq[i] = x.id)
               ELSE HFold(x.ch, IF IsAnd(x) THEN 3 ELSE 5)

\* ------------------------------------------------------------- behaviour
Sub == Trees(D - 1, W)
Rests == SeqsBetween(Sub, 1, W - 1)

Init ==
  /\ gone = {}
  /\ IF Mode = "full"
     THEN /\ walk = 0
          /\ \/ /\ phase = "open" /\ op \in {"and", "or"} /\ first \in Sub
                /\ t0 = Absent /\ t = Absent
             \/ /\ phase = "rule" /\ op = "none" /\ first = Absent
                /\ t0 \in {G(g) : g \in Genes} /\ t = t0
     ELSE /\ walk \in 1..NSamples
          /\ phase = "rule" /\ op = "none" /\ first = Absent
          /\ t0 = SampleTree(walk) /\ t = t0

\* give the reaction its rule
SetRule ==
  /\ phase = "open"
  /\ \E rest \in Rests :
       /\ t0' = N(op, <<first>> \o rest)
       /\ t' = t0'
  /\ phase' = "rule"
  /\ UNCHANGED <<op, first, gone, walk>>

\* remove_genes(model, K)
Remove(K) ==
  /\ Steps
  /\ phase \in {"rule", "removed"}
  /\ t # Absent
  /\ t' = Rm(t, K)
  /\ gone' = gone \cup K
  /\ phase' = "removed"
  /\ UNCHANGED <<op, first, t0, walk>>

Next == SetRule \/ \E K \in (SUBSET (Genes \ gone)) \ {{}} : Remove(K)
Spec == Init /\ [][Next]_vars

\* ------------------------------------------------------------- properties
InvTheorems == phase = "rule" => AllTheorems(t0)
InvRemoved ==
  phase = "removed" =>
    /\ t = Rm(t0, gone)
    /\ (t = Absent) = ~Eval(t0, gone)
    /\ GenesOf(t) \cap gone = {}
    /\ Eval(t0, gone) => \A K2 \in SUBSET Genes : Eval(t, K2) = Eval(t0, gone \cup K2)

\* ------------------------------------------------------------- emission
KSeq(K) == SelectSeq(GeneSeq, LAMBDA g : g \in K)

RECURSIVE Commute(_)
Commute(x) == IF ~IsOp(x) THEN x
              ELSE [x EXCEPT !.ch = [i \in 1..Len(x.ch) |-> Commute(x.ch[Len(x.ch) + 1 - i])]]
FirstGene(x) == GeneSeq[CHOOSE i \in 1..NG : GeneSeq[i] \in GenesOf(x) /\ \A j \in 1..(i - 1) : GeneSeq[j] \notin GenesOf(x)]
OtherGene(g) == GeneSeq[((CHOOSE i \in 1..NG : GeneSeq[i] = g) % NG) + 1]
Absorb(x) == N("or", <<x, N("and", <<x, G(FirstGene(x))>>)>>)       \* equivalent to x, same genes
Dual(x) == IF IsGene(x) THEN G(OtherGene(x.id))                    \* usually NOT equivalent
           ELSE [x EXCEPT !.k = IF IsAnd(x) THEN "or" ELSE "and"]

Pair(x, st) == [tree |-> x, toks |-> Spell(x, st)]
PairsOf(x, h) ==
  << Pair(Commute(x), StyleSeq[1]),
     Pair(Absorb(x), StyleSeq[3]),
     Pair(Dual(x), StyleSeq[(h % 6) + 1]),
     Pair(GenTree(LCG(h + Seed), 2), StyleSeq[((h \div 7) % NStyles) + 1]),
     Pair(x, StyleSeq[10]) >>

\* remove_genes cases: every knock-out set once; remove_reactions only matters when the reaction
\* cannot be catalysed any more, so it alternates on the others and is FALSE there, plus one case
\* (all genes gone) with remove_reactions = TRUE
RemovalsOf(x, h) ==
  [m \in 1..NMasks |-> LET K == KOfMask(m - 1) IN
                       [K |-> KSeq(K), rr |-> IF Eval(x, K) THEN (m + h) % 2 = 0 ELSE FALSE]]
  \o << [K |-> GeneSeq, rr |-> TRUE] >>

StyleIdx(h) ==
  IF Mode = "full" THEN [j \in 1..Len(StyleSeq) |-> j]
  ELSE [j \in 1..NSpell |-> ((h + 3 * j) % NStyles) + 1]    \* 3 is coprime to 10: distinct styles

Case(x) ==
  LET h == TreeHash(x) IN
  [tree |-> x, walk |-> walk, hash |-> h, depth |-> Depth(x),
   spells |-> [j \in 1..Len(StyleIdx(h)) |-> [style |-> StyleSeq[StyleIdx(h)[j]], toks |-> Spell(x, StyleSeq[StyleIdx(h)[j]])]],
   pairs |-> PairsOf(x, h),
   rms |-> RemovalsOf(x, h)]

Constr == (Emit /\ phase = "rule") => PrintT(ToJson(Case(t0)))
=============================================================================
