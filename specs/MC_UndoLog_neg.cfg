CONSTANTS
  Vars = {"a", "b"}
  Vals = {0, 1}
  MaxDepth = 3
  MaxOps = 7
  Hide = FALSE
INIT Init
NEXT Next
INVARIANT ExitRestores
CHECK_DEADLOCK FALSE
