----------------------------- MODULE TraceGPR -----------------------------
(***************************************************************************)
(* Batch trace validation for gene-reaction rules (C08).                   *)
(*                                                                         *)
(* The batch file (IOEnv.TRACE_FILE) is a JSON array of traces recorded    *)
(* from the REAL cobra.core.gene.GPR / cobra.manipulation.remove_genes by  *)
(* harness/gpr_engine.py.  One trace = one case (tree, spelling):          *)
(*   trace = [tid, tree, toks, events]                                     *)
(*   event = [kind, how, tree2, toks2, K, rr, obs]   (one uniform shape)   *)
(*   obs   = [raises, tt, genes, toks, toks2, eq, eq2, present,            *)
(*            pre, dhow, dtt, dgenes, deq]   (remove: views read before the *)
(*            removal; derived forms of the rule left behind)              *)
(*     tt      results of eval(K) for every knock-out set, in mask order   *)
(*     genes   the reported gene set, as abstract genes ("?id" = unknown)  *)
(*     toks    tokens of to_string() / reaction.gene_reaction_rule         *)
(*     toks2   tokens of str()                                             *)
(*     eq/eq2  "T" | "F" | "na": derived == original, original == derived  *)
(* kinds:                                                                  *)
(*   parse    GPR.from_string(text)                                        *)
(*   derived  a rule obtained from the parsed one (how = roundtrip, copy,  *)
(*            deepcopy, pickle, rpickle, symbolic, setter)                 *)
(*   eqpair   == with another rule (tree2, spelled toks2)                  *)
(*   remove   remove_genes(model, K, remove_reactions = rr) on a model     *)
(*            whose reaction carries the rule                              *)
(* Everything expected is computed HERE from the tree: TTSeq, GenesOf,     *)
(* Rm.  Text returned by the implementation is parsed HERE (ParseTokens).  *)
(* One TLC state per consumed event; mismatches are printed as JSON        *)
(* verdict lines; nothing here can fail the TLC run itself.                *)
(***************************************************************************)
EXTENDS GPROps, Json, IOUtils, TLCExt

Traces == JsonDeserialize(IOEnv.TRACE_FILE)

VARIABLES tid, l
vars == <<tid, l>>

SetOf(s) == {s[i] : i \in 1..Len(s)}

\* the case is one the property quantifies over: a well-formed and/or expression over the gene
\* alphabet, and the token sequence really is a spelling of the tree
InScope(c) ==
  LET p == ParseShape(c.toks) IN
  /\ GenesOf(c.tree) \subseteq Genes
  /\ p.k # "error"
  /\ TTSeq(p) = TTSeq(c.tree)
  /\ GenesOf(p) = GenesOf(c.tree)

\* a returned text denotes the function tt and mentions exactly the genes gs
TextIs(toks, tt, gs) ==
  LET p == ParseShape(toks) IN
  /\ p.k # "error"
  /\ TTSeq(p) = tt
  /\ GenesOf(p) = gs

If(c, name) == IF c THEN {name} ELSE {}

FieldsParse(c, ev) ==
  LET o == ev.obs tt == TTSeq(c.tree) gs == GenesOf(c.tree) IN
  IF o.raises # "none" THEN {"raises"}
  ELSE If(o.tt # tt, "tt") \cup If(SetOf(o.genes) # gs, "genes")
       \cup If(~TextIs(o.toks, tt, gs), "to_string") \cup If(~TextIs(o.toks2, tt, gs), "str")

FieldsDerived(c, ev) ==
  LET o == ev.obs tt == TTSeq(c.tree) gs == GenesOf(c.tree) IN
  IF o.raises # "none" THEN {"raises"}
  ELSE If(o.tt # tt, "tt") \cup If(SetOf(o.genes) # gs, "genes")
       \cup If(~TextIs(o.toks, tt, gs), "to_string")
       \* derived == original in the direction that was called ("na": not called)
       \cup If(o.eq \notin {"T", "na"}, "eq") \cup If(o.eq2 \notin {"T", "na"}, "eq_rev")
       \cup If(o.eq = "na" /\ o.eq2 = "na", "eq_missing")

FieldsEq(c, ev) ==
  LET o == ev.obs differ == TTSeq(c.tree) # TTSeq(ev.tree2) IN
  IF o.raises # "none" THEN {"raises"}
  ELSE If(o.eq = "T" /\ differ, "equal_but_not_equivalent")
       \cup If(o.eq2 = "T" /\ differ, "equal_but_not_equivalent_rev")

KOf(ev) == SetOf(ev.K)
FieldsRemove(c, ev) ==
  LET o == ev.obs K == KOf(ev) catal == Eval(c.tree, K) p == ParseShape(o.toks) IN
  IF o.raises # "none" THEN {"raises"}
  ELSE If(catal /\ ~o.present, "rm_present")
       \cup (IF ~o.present THEN {}
             ELSE If(catal /\ o.tt # TTSeq(Rm(c.tree, K)), "rm_tt")
                  \* the text form of the new rule is faithful to what it evaluates to ...
                  \cup If(p.k = "error" \/ TTSeq(p) # o.tt, "rm_text")
                  \* ... and the rule reports exactly the genes occurring in it
                  \cup If(p.k # "error" /\ SetOf(o.genes) # GenesOf(p), "rm_genes")
                  \* the rule left behind by the edit in place is a rule like any other: its symbolic
                  \* form, copy, text round trip, pickle and the copy inside Model.copy() have its
                  \* truth table and gene set and compare equal to it (whatever views of the rule
                  \* object were read before the removal: o.pre)
                  \cup If(\E i \in 1..Len(o.dtt) : o.dtt[i] # o.tt, "rm_derived_tt")
                  \cup If(p.k # "error" /\ \E i \in 1..Len(o.dgenes) : SetOf(o.dgenes[i]) # GenesOf(p), "rm_derived_genes")
                  \cup If(\E i \in 1..Len(o.deq) : o.deq[i] # "T", "rm_derived_eq"))

Fields(c, ev) ==
  CASE ev.kind = "parse" -> FieldsParse(c, ev)
    [] ev.kind = "derived" -> FieldsDerived(c, ev)
    [] ev.kind = "eqpair" -> FieldsEq(c, ev)
    [] ev.kind = "remove" -> FieldsRemove(c, ev)
    [] OTHER -> {"unknown-kind"}

\* tags: from the arguments only (spelling, tree, K, rr)
UsesBitwise(toks) == \E i \in 1..Len(toks) : toks[i] \in {"&", "|"}
Tags(c, ev) ==
  If(UsesBitwise(c.toks), "bitwise_spelling")
  \cup (IF ev.kind # "remove" THEN {}
        ELSE LET K == KOf(ev) sh == ParseShape(c.toks) IN
             If(Eval(c.tree, K), "catalysable") \cup If(~Eval(c.tree, K), "rule_becomes_empty")
             \cup If(ev.rr, "remove_reactions") \cup If(~ev.rr, "keep_reactions")
             \cup If(Norm(RmQuirk(sh, K)) # Norm(Rm(sh, K)), "bitop_shadows_removed_gene"))

\* root-cause class of a removal mismatch: does the observation coincide with what a named,
\* recorded defect predicts?  (used by the known-findings filter; "other" is never filtered)
Class(c, ev, fields) ==
  IF ev.kind # "remove" \/ fields = {} THEN "other"
  ELSE LET o == ev.obs K == KOf(ev) sh == ParseShape(c.toks) q == RmQuirk(sh, K) IN
       IF /\ Eval(c.tree, K) /\ Norm(q) # Norm(Rm(sh, K))
          /\ fields = {"rm_tt"} /\ o.tt = TTSeq(q) /\ SetOf(o.genes) = GenesOf(q)
       THEN "bitop_node_not_descended"
       ELSE IF /\ ~Eval(c.tree, K) /\ ~ev.rr /\ fields = {"rm_genes"}
               /\ o.toks = <<>> /\ SetOf(o.genes) = GenesOf(c.tree)
       THEN "stale_genes_after_rule_emptied"
       ELSE "other"

\* not a verdict: does to_string() print exactly what PrintToks predicts for the parsed shape?
ShapeAgrees(c, ev) ==
  ev.kind # "parse" \/ ev.obs.raises # "none" \/ ev.obs.toks = PrintToks(ParseTokens(c.toks))

Init ==
  /\ tid \in 1..Len(Traces)
  /\ l = 0

Next ==
  /\ l < Len(Traces[tid].events)
  /\ LET c == Traces[tid]
         ev == c.events[l + 1] IN
     /\ (l = 0 /\ ~InScope(c)) =>
           PrintT(ToJson([verdict |-> "MACHINERY", tid |-> c.tid, l |-> 0, what |-> "case out of scope / not a spelling of its tree"]))
     /\ (ev.kind = "eqpair" /\ ~TextIs(ev.toks2, TTSeq(ev.tree2), GenesOf(ev.tree2))) =>
           PrintT(ToJson([verdict |-> "MACHINERY", tid |-> c.tid, l |-> l + 1, what |-> "partner is not a spelling of its tree"]))
     /\ LET f == Fields(c, ev) IN
        (f # {}) =>
           PrintT(ToJson([verdict |-> "MISMATCH", spec |-> "GPR", tid |-> c.tid, l |-> l + 1,
                          action |-> ev.kind, how |-> ev.how, K |-> ev.K, rr |-> ev.rr,
                          fields |-> f, tags |-> Tags(c, ev), cls |-> Class(c, ev, f),
                          obs |-> ev.obs,
                          exptt |-> IF ev.kind = "remove" THEN TTSeq(Rm(c.tree, KOf(ev))) ELSE TTSeq(c.tree)]))
     /\ ~ShapeAgrees(c, ev) =>
           PrintT(ToJson([verdict |-> "NOTE", tid |-> c.tid, l |-> l + 1, what |-> "print_shape",
                          exp |-> PrintToks(ParseTokens(c.toks)), obs |-> ev.obs.toks]))
  /\ l' = l + 1
  /\ tid' = tid
=============================================================================
