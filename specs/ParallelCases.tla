--------------------------- MODULE ParallelCases ---------------------------
(***************************************************************************)
(* C14: TLC emits the instances and the call grid that the driver replays  *)
(* into the real cobra code.                                               *)
(*                                                                         *)
(* An instance is a small unit-network model (3 metabolites, 4-6           *)
(* reactions, finite integer bounds, single-reaction objective) with gene  *)
(* rules in DNF over g1..g4: the lattice of FluxLatticeOps is its exact LP *)
(* answer.  Pseudo-random choices come from a small LCG seeded by the      *)
(* constant Seed and the instance number, so a run is reproducible from    *)
(* (spec, constants).                                                      *)
(*                                                                         *)
(* For every kind of analysis the call grid varies                         *)
(*   P    the `processes` argument (1..3, one smoke call with 8)           *)
(*   l1   the requested item list, permuted / cut to a sub-list / one item *)
(*   l2   second list of the double deletions                              *)
(*   ds   the delay seed of the observer (completion order of the workers) *)
(* The first call of every grid is the reference (P = 1, model order,      *)
(* no delays).                                                             *)
(***************************************************************************)
EXTENDS ParallelOps, Json

CONSTANTS NInst, Seed, KindSeq,
          NVar,        \* permuted calls per process count
          NPairs       \* single-pair calls of the double deletions
VARIABLE k

LCG(r) == (r * 75 + 74) % 65537
RECURSIVE Draws(_, _)
Draws(r, m) == IF m = 0 THEN <<>> ELSE <<LCG(r)>> \o Draws(LCG(r), m - 1)
Pick(seq, d) == seq[((d \div 16) % Len(seq)) + 1]
RemoveAt(s, i) == SubSeq(s, 1, i - 1) \o SubSeq(s, i + 1, Len(s))
RECURSIVE Shuffle(_, _)
Shuffle(s, r) == IF Len(s) <= 1 THEN s
                 ELSE LET i == (LCG(r) % Len(s)) + 1 IN <<s[i]>> \o Shuffle(RemoveAt(s, i), LCG(r))
Prefix(s, m) == SubSeq(s, 1, MinOf(m, Len(s)))

\* ------------------------------------------------------------- instances
Mets == <<"A", "B", "C">>
Backbone == << <<1, 0, 0>>, <<-1, 1, 0>>, <<0, -1, 1>>, <<0, 0, -1>> >>      \* -> A -> B -> C ->
Shapes == << <<-1, 1, 0>>, <<1, -1, 0>>, <<0, -1, 1>>, <<-1, 0, 1>>, <<0, -1, 0>>, <<0, 1, 0>>,
             <<-1, 0, 0>>, <<0, 0, 1>>, <<1, 0, -1>>, <<0, 1, -1>> >>
BPalMain == << <<0, 3>>, <<0, 2>>, <<0, 3>>, <<-1, 2>>, <<0, 1>>, <<1, 3>>, <<0, 2>>, <<-2, 2>> >>
BPalExtra == << <<0, 2>>, <<-2, 2>>, <<0, 1>>, <<-2, 0>>, <<0, 0>>, <<-1, 2>>, <<1, 2>>, <<0, 3>>, <<-1, 1>> >>
RulePal == << <<>>, << <<"g1">> >>, << <<"g2">> >>, << <<"g3">> >>, << <<"g1", "g2">> >>,
              << <<"g2">>, <<"g3">> >>, << <<"g1", "g2">>, <<"g3">> >>, << <<"g4">> >>,
              << <<"g3", "g4">> >>, << <<"g1">>, <<"g4">> >>, << <<"g2">> >>, << <<"g1">> >> >>
Sizes == <<6, 6, 5, 6, 4, 5, 6, 5>>
RName(i) == <<"R1", "R2", "R3", "R4", "R5", "R6">>[i]

Instance(j) ==
  LET r0 == LCG((Seed * 7919 + j * 104729) % 65537)
      d == Draws(r0, 40)
      nr == Pick(Sizes, d[1])
      rot == d[2] % nr                    \* the backbone does not always come first
      raw == [i \in 1..nr |-> IF i <= 4 THEN Backbone[i] ELSE Pick(Shapes, d[2 + i])]
      rawb == [i \in 1..nr |-> IF i <= 4 THEN Pick(BPalMain, d[10 + i]) ELSE Pick(BPalExtra, d[10 + i])]
      at(i) == ((i + rot - 1) % nr) + 1
      obj == (d[20] % nr) + 1
  IN [M |-> [rxns |-> [i \in 1..nr |-> RName(i)], mets |-> Mets,
             S |-> [i \in 1..nr |-> raw[at(i)]],
             lb |-> [i \in 1..nr |-> rawb[at(i)][1]], ub |-> [i \in 1..nr |-> rawb[at(i)][2]],
             c |-> [i \in 1..nr |-> IF i = obj THEN 1 ELSE 0],
             dir |-> IF d[21] % 6 = 0 THEN "min" ELSE "max"],
      rules |-> [i \in 1..nr |-> Pick(RulePal, d[22 + i])]]

\* pinned witness of the recorded finding F65 (loopless FVA depends on the worker's previous tasks): R1 and R4
\* are parallel reactions A -> B, i.e. an internal cycle; visited by every run, whatever the seed
PinnedInst ==
  [M |-> [rxns |-> [i \in 1..6 |-> RName(i)], mets |-> Mets,
          S |-> << <<-1, 1, 0>>, <<0, 1, 0>>, <<1, 0, 0>>, <<-1, 1, 0>>, <<0, -1, 1>>, <<0, 0, -1>> >>,
          lb |-> <<0, 0, -2, -2, -2, 0>>, ub |-> <<2, 2, 2, 2, 2, 3>>, c |-> <<0, 1, 0, 0, 0, 0>>, dir |-> "max"],
   rules |-> << << <<"g2">> >>, << <<"g2">> >>, << <<"g1">>, <<"g4">> >>, << <<"g1">>, <<"g4">> >>, << <<"g4">> >>,
               << <<"g1", "g2">> >> >>]
InstanceOf(j) == IF j = 1 THEN PinnedInst ELSE Instance(j)

GeneSeq(I) == SelectSeq(<<"g1", "g2", "g3", "g4">>, LAMBDA g : g \in GenesOf(I))

\* ------------------------------------------------------------- call grids
Call(p, l1, l2, ds, dflt) == [P |-> p, l1 |-> l1, l2 |-> l2, ds |-> ds, dflt |-> dflt]

ListCalls(U, r) ==
  LET nU == Len(U) IN
  <<Call(1, U, <<>>, 0, FALSE)>>                                                 \* reference
  \o [p \in 1..2 |-> Call(p + 1, U, <<>>, 0, FALSE)]                             \* process count alone
  \o <<Call(2, <<>>, <<>>, 1, TRUE), Call(8, U, <<>>, 2, FALSE)>>                \* default list; smoke: 8
  \o [q \in 1..(3 * NVar) |-> Call(((q - 1) % 3) + 1, Shuffle(U, r + 31 * q), <<>>, q, FALSE)]
  \o (IF nU >= 3 THEN <<Call(2, Prefix(Shuffle(U, r + 7), nU - 1), <<>>, 5, FALSE),
                        Call(3, Prefix(Shuffle(U, r + 11), 3), <<>>, 6, FALSE)>> ELSE <<>>)
  \o [i \in 1..nU |-> Call(IF i % 2 = 0 THEN 1 ELSE 3, <<U[i]>>, <<>>, i, FALSE)]   \* single items

PairCalls(U, r) ==
  LET nU == Len(U) IN
  <<Call(1, U, U, 0, FALSE)>>
  \o [p \in 1..2 |-> Call(p + 1, U, U, 0, FALSE)]
  \o <<Call(3, <<>>, <<>>, 1, TRUE)>>
  \o [q \in 1..(3 * NVar) |-> Call(((q - 1) % 3) + 1, Shuffle(U, r + 31 * q), Shuffle(U, r + 17 * q), q, FALSE)]
  \o (IF nU >= 3 THEN <<Call(2, Prefix(Shuffle(U, r + 7), 3), Prefix(Shuffle(U, r + 9), 2), 5, FALSE),
                        Call(3, Prefix(Shuffle(U, r + 11), 2), Shuffle(U, r + 13), 6, FALSE)>> ELSE <<>>)
  \o (IF nU >= 1 THEN [i \in 1..NPairs |-> Call(IF i % 2 = 0 THEN 1 ELSE 2, <<Pick(U, r + i)>>, <<Pick(U, r + 3 * i + (i % 2))>>, i, FALSE)]
      ELSE <<>>)

SetCalls == <<Call(1, <<>>, <<>>, 0, TRUE)>>
            \o [q \in 1..(3 * NVar) |-> Call(((q - 1) % 3) + 1, <<>>, <<>>, q, TRUE)]

\* parallel sampling: equal (seed, P, n, thinning) under different delay seeds must reproduce
\* rounds: sample(n) is called that many times on the SAME sampler object (the rows of all calls count)
SCall(p, n, seed, thin, ds) == [P |-> p, n |-> n, seed |-> seed, thin |-> thin, ds |-> ds, l1 |-> <<>>, l2 |-> <<>>, dflt |-> TRUE,
                                rounds |-> 1]
OptgpCalls(r) ==
  LET s == 1 + (r % 499) IN
  <<SCall(1, 6, s, 2, 0), SCall(2, 6, s, 2, 0), SCall(2, 6, s, 2, 3), SCall(3, 7, s, 1, 1), SCall(3, 7, s, 1, 4),
    SCall(2, 5, s + 1, 2, 2), SCall(1, 6, s, 2, 5), SCall(3, 7, s, 1, 6),
    [SCall(2, 5, s + 2, 1, 1) EXCEPT !.rounds = 3], [SCall(2, 5, s + 2, 1, 5) EXCEPT !.rounds = 3],
    [SCall(3, 7, s + 2, 1, 2) EXCEPT !.rounds = 2]>>

CallsOf(I, kind, r) ==
  LET U == IF kind \in GeneKinds THEN GeneSeq(I) ELSE I.M.rxns IN
  CASE kind \in {"fva", "fva0", "lfva", "srd", "sgd", "blocked"} ->
         ListCalls(U, r) \o (IF kind = "lfva" /\ I = PinnedInst
                             THEN <<Call(3, <<"R4", "R1", "R5", "R6", "R3", "R2">>, <<>>, 3, FALSE)>> ELSE <<>>)
    [] kind \in {"drd", "dgd"} -> PairCalls(U, r)
    [] kind = "optgp" -> OptgpCalls(r)
    [] OTHER -> SetCalls

Case(j) ==
  LET I == InstanceOf(j) r == LCG((Seed * 31 + j * 17) % 65537) IN
  [k |-> j, inst |-> I,
   kinds |-> [q \in 1..Len(KindSeq) |-> [kind |-> KindSeq[q], calls |-> CallsOf(I, KindSeq[q], r + 101 * q)]]]

\* (a .cfg cannot hold tuples: KindSeq <- one of these)
KindsAll == <<"fva", "fva0", "lfva", "blocked", "essg", "essr", "srd", "sgd", "drd", "dgd", "optgp">>
KindsCore == <<"fva", "blocked", "essg", "srd", "sgd", "drd", "dgd">>

Init == k \in 1..NInst
Next == UNCHANGED k
Constr == PrintT(ToJson(Case(k)))
=============================================================================
