---------------------------- MODULE ParallelMap ----------------------------
(***************************************************************************)
(* C14, design level: the per-worker protocol of the pooled analyses       *)
(* (flux_variability_analysis, find_blocked_reactions, _multi_deletion     *)
(* and everything built on them).                                          *)
(*                                                                         *)
(*   tasks      the requested items in the order the pool sees them: ANY   *)
(*              permutation of the distinct unordered items (the user's    *)
(*              list order for FVA, the iteration order of a set of        *)
(*              frozensets for deletions)                                  *)
(*   P          the `processes` argument; the code uses min(P, n) workers  *)
(*              and chunks of n div min(P, n) consecutive tasks; with one  *)
(*              worker it maps over the caller's own model (one chunk)     *)
(*   carry[w]   what the mutable model of worker w still carries from      *)
(*              earlier tasks: objective coefficient left set, bounds of a *)
(*              knock-out, an open context.  Abstractly the SET of tasks   *)
(*              whose residue is still there; Clean = {}                   *)
(*   F(t, c)    the value a step computes for task t on a model carrying   *)
(*              c.  F is UNINTERPRETED: F(t, c) is the term <<t, c>>, so   *)
(*              F(t, c) = F(t, Clean) iff c = Clean -- the weakest         *)
(*              assumption, valid for every concrete step function         *)
(*                                                                         *)
(* Actions: Dispatch(w) (a free worker takes the next chunk), Begin(w)     *)
(* (records preClean, the task's own modification goes onto the model),    *)
(* Finish(w) (value F(t, carry at Begin), the task resets its own          *)
(* modification), Deliver(pos) (results of completed chunks reach the      *)
(* parent in ANY order -- imap_unordered -- and are stored by key).        *)
(*                                                                         *)
(* Property (every schedule, every P in 1..MaxP, every permutation of at   *)
(* most MaxN tasks): at quiescence frame = [t \in Items |-> F(t, Clean)],  *)
(* exactly one row per distinct unordered item; every Begin is clean.      *)
(*                                                                         *)
(* Negative controls (constant Bug), each re-introduces a realistic defect *)
(* and must be REJECTED by TLC:                                            *)
(*   "SkipReset"     a step does not reset its modification (e.g.          *)
(*                   _fva_step not clearing its coefficient; a deletion    *)
(*                   worker leaving its context open)                      *)
(*   "Positional"    results stored by arrival position instead of by key  *)
(*   "DropLastChunk" exactly min(P, n) chunks of n div min(P, n) tasks:    *)
(*                   the remainder is never computed                       *)
(***************************************************************************)
EXTENDS ParallelOps

CONSTANTS MaxN,        \* at most this many distinct items
          MaxP,        \* processes \in 1..MaxP
          Req,         \* "list": items are single ids;  "pairs": items = Pairs(l1, l2) over 3 ids
          Perms,       \* "all": every permutation of the items;  "one": one order per item set (the model
                       \* never inspects an item -- F is uninterpreted, items are only compared for equality --
                       \* so the orders are images of each other under renaming; "one" is the symmetry-reduced run)
          Bug

VARIABLES tasks, P, nxt, wk, carry, cur, vals, finished, delivered, frame, rows, preClean, nbegin, nd
vars == <<tasks, P, nxt, wk, carry, cur, vals, finished, delivered, frame, rows, preClean, nbegin, nd>>

Clean == {}
F(t, c) == [t |-> t, c |-> c]
None == [t |-> {}, c |-> {}]

PermSeqs(S) == {s \in [1..Cardinality(S) -> S] : \A i, j \in 1..Cardinality(S) : s[i] = s[j] => i = j}
NonEmptySubsets(S) == SUBSET S \ {{}}
ItemSets ==
  IF Req = "list" THEN {{{i} : i \in 1..k} : k \in 0..MaxN}
  ELSE {I \in {{{a, b} : a \in A, b \in B} : A \in NonEmptySubsets(1..3), B \in NonEmptySubsets(1..3)} :
           Cardinality(I) <= MaxN}

n == Len(tasks)
Items == SeqSet(tasks)
cs == ChunkSize(n, P)
NW == MaxOf(1, PEff(n, P))
nch == IF Bug = "DropLastChunk" /\ Pooled(n, P) THEN PEff(n, P) ELSE NChunks(n, cs)
ChunkOfPos(pos) == ((pos - 1) \div cs) + 1
ChunkComplete(k) == ChunkIdx(k, n, cs) \subseteq finished
Idle == [chunk |-> 0, done |-> 0, busy |-> FALSE]
PosOfWorker(w) == ChunkLo(wk[w].chunk, cs) + wk[w].done

Init ==
  /\ \E I \in ItemSets : tasks \in (IF Perms = "all" THEN PermSeqs(I) ELSE {CHOOSE s \in PermSeqs(I) : TRUE})
  /\ P \in 1..MaxP
  /\ nxt = 1
  /\ wk = [w \in 1..MaxP |-> Idle]
  /\ carry = [w \in 1..MaxP |-> Clean]
  /\ cur = [w \in 1..MaxP |-> Clean]
  /\ vals = [pos \in 1..n |-> None]
  /\ finished = {} /\ delivered = {}
  /\ frame = [t \in Items |-> None]
  /\ rows = [t \in Items |-> 0]
  /\ preClean = [pos \in 1..n |-> TRUE]
  /\ nbegin = [pos \in 1..n |-> 0]
  /\ nd = 0

Dispatch(w) ==
  /\ w <= NW /\ wk[w].chunk = 0 /\ nxt <= nch
  /\ wk' = [wk EXCEPT ![w] = [chunk |-> nxt, done |-> 0, busy |-> FALSE]]
  /\ nxt' = nxt + 1
  /\ UNCHANGED <<tasks, P, carry, cur, vals, finished, delivered, frame, rows, preClean, nbegin, nd>>

Begin(w) ==
  /\ wk[w].chunk # 0 /\ ~wk[w].busy
  /\ LET pos == PosOfWorker(w) IN
     /\ pos <= ChunkHi(wk[w].chunk, n, cs)
     /\ cur' = [cur EXCEPT ![w] = carry[w]]
     /\ carry' = [carry EXCEPT ![w] = carry[w] \cup {tasks[pos]}]
     /\ preClean' = [preClean EXCEPT ![pos] = (carry[w] = Clean)]
     /\ nbegin' = [nbegin EXCEPT ![pos] = @ + 1]
  /\ wk' = [wk EXCEPT ![w].busy = TRUE]
  /\ UNCHANGED <<tasks, P, nxt, vals, finished, delivered, frame, rows, nd>>

Finish(w) ==
  /\ wk[w].busy
  /\ LET pos == PosOfWorker(w) last == (pos = ChunkHi(wk[w].chunk, n, cs)) IN
     /\ vals' = [vals EXCEPT ![pos] = F(tasks[pos], cur[w])]
     /\ finished' = finished \cup {pos}
     /\ carry' = [carry EXCEPT ![w] = IF Bug = "SkipReset" THEN @ ELSE @ \ {tasks[pos]}]
     /\ wk' = [wk EXCEPT ![w] = IF last THEN Idle ELSE [chunk |-> @.chunk, done |-> @.done + 1, busy |-> FALSE]]
  /\ UNCHANGED <<tasks, P, nxt, cur, delivered, frame, rows, preClean, nbegin, nd>>

Deliver(pos) ==
  /\ pos \in finished \ delivered
  /\ ChunkComplete(ChunkOfPos(pos))
  /\ LET key == IF Bug = "Positional" THEN tasks[nd + 1] ELSE tasks[pos] IN
     /\ frame' = [frame EXCEPT ![key] = vals[pos]]
     /\ rows' = [rows EXCEPT ![key] = @ + 1]
  /\ delivered' = delivered \cup {pos}
  /\ nd' = nd + 1
  /\ UNCHANGED <<tasks, P, nxt, wk, carry, cur, vals, finished, preClean, nbegin>>

Next ==
  \/ \E w \in 1..MaxP : Dispatch(w) \/ Begin(w) \/ Finish(w)
  \/ \E pos \in 1..n : Deliver(pos)

Spec == Init /\ [][Next]_vars

\* ------------------------------------------------------------- properties
Quiescent == nxt > nch /\ (\A w \in 1..MaxP : wk[w].chunk = 0) /\ delivered = finished

\* every Begin found a clean worker model
InvBeginClean == \A pos \in 1..n : preClean[pos]
\* no task is ever started twice; at the end every task was started exactly once
InvOnce == /\ \A pos \in 1..n : nbegin[pos] <= 1
           /\ Quiescent => \A pos \in 1..n : nbegin[pos] = 1
\* C14: the frame is the frame of the single-item calls, one row per distinct unordered item
InvFrame == Quiescent => \A t \in Items : frame[t] = F(t, Clean) /\ rows[t] = 1
\* the per-item value never depends on the schedule: whatever has been delivered is already right
InvDelivered == \A t \in Items : rows[t] > 0 => (frame[t] = F(t, Clean) \/ Bug # "none")
\* workers only ever hold their own task's modification
InvCarry == \A w \in 1..MaxP : carry[w] \subseteq (IF wk[w].busy THEN {tasks[PosOfWorker(w)]} ELSE {})
=============================================================================
