--------------------------- MODULE TraceParallel ---------------------------
(***************************************************************************)
(* Batch trace validation for C14 (results do not depend on process count, *)
(* chunking, completion order or item order).                              *)
(*                                                                         *)
(* The batch file (IOEnv.TRACE_FILE) is a JSON array of traces recorded    *)
(* from the REAL cobra code by harness/parallel_engine.py:                 *)
(*   trace = [tid, inst : [M, rules], kind, ev, calls : Seq(call)]         *)
(*   kind  = fva | fva0 | lfva | blocked | essg | essr | srd | sgd | drd | *)
(*           dgd | optgp                                                   *)
(*   ev    = "hooks" | "wrappers" | "none"   where the worker events come  *)
(*           from (cobra.util._verif hooks; harness wrappers around the    *)
(*           step functions; not observed)                                 *)
(*   call  = [P, l1, l2, ds, dflt,          the arguments (TLC-generated)  *)
(*            raises, rows : Seq([item, vals, status]), setres : Seq(item),*)
(*            workers : Seq(Seq(event)),     one sequence per worker       *)
(*                                           PROCESS, in the order of its  *)
(*                                           own sequence numbers          *)
(*            left_clean]                    the serial worker (= caller's *)
(*                                           model) is clean after the call*)
(*   event = [e : "b" | "f", task : item, pass, clean, vals, status]       *)
(* calls[1] is the reference call (P = 1, model order, no delays).         *)
(*                                                                         *)
(* One TLC state per consumed call.  Every call is judged clause by        *)
(* clause; a failing clause set is printed as a JSON verdict line.  The    *)
(* lattice values F(t, Clean) are computed once per trace (variable exp).  *)
(* No cross-process order is used anywhere.                                *)
(***************************************************************************)
EXTENDS ParallelOps, SamplerOps, Json, IOUtils, TLCExt

Traces == JsonDeserialize(IOEnv.TRACE_FILE)

VARIABLES tid, l, exp
vars == <<tid, l, exp>>

T == Traces[tid]
Kind == T.kind
I == T.inst
GeneUniverse == SelectSeq(<<"g1", "g2", "g3", "g4">>, LAMBDA g : g \in GenesOf(I))
Universe == IF Kind \in GeneKinds THEN GeneUniverse ELSE I.M.rxns
IsPairKind == Kind \in {"drd", "dgd"}
AllItems == IF IsPairKind THEN Pairs(Universe, Universe) ELSE Singles(Universe)

ReqL1(c) == IF c.dflt THEN Universe ELSE c.l1
ReqL2(c) == IF c.dflt THEN Universe ELSE c.l2
ReqItems(c) == IF Kind \in SetKinds \ {"blocked"} THEN Singles(Universe)
               ELSE IF IsPairKind THEN Pairs(ReqL1(c), ReqL2(c)) ELSE Singles(ReqL1(c))

\* ---------------------------------------------------------------- the lattice expectation
NoExp == [decides |-> FALSE, inscope |-> FALSE, raises |-> "unknown", rows |-> <<>>, set |-> {}]
LatticeApplies == Kind # "optgp" /\ IsUnitNetwork(I.M) /\ AllFinite(I.M) /\ BoundsOrdered(I.M)
\* the analyses that start with an optimisation of the model refuse an infeasible model; deletions report nan
ExpRaises == IF Kind \in FvaKinds \cup SetKinds /\ Infeasible(I.M) THEN "Infeasible" ELSE "none"
Expectation ==
  IF ~LatticeApplies THEN NoExp
  ELSE IF ~LatticeDecides(I, Kind) THEN [NoExp EXCEPT !.raises = ExpRaises]
  ELSE LET F == Feasible(I.M) opt == IF HasOpt(I.M) THEN Opt(I.M) ELSE 0 IN
       [decides |-> TRUE, inscope |-> FvaInScope(I, Kind), raises |-> ExpRaises,
        rows |-> IF Kind \in SetKinds \/ ~FvaInScope(I, Kind) THEN <<>> ELSE [t \in AllItems |-> ExpRow(I, Kind, t, F, opt)],
        set |-> IF Kind \in {"essg", "essr"} THEN ExpEssential(I, Kind) ELSE {}]

\* ---------------------------------------------------------------- rows
RowItem(r) == SeqSet(r.item)
SameRow(a, b) == SameVals(a.vals, b.vals) /\ a.status = b.status
RowOfItem(c, t) == c.rows[CHOOSE i \in 1..Len(c.rows) : RowItem(c.rows[i]) = t]
HasRow(c, t) == \E i \in 1..Len(c.rows) : RowItem(c.rows[i]) = t
SetRes(c) == {SeqSet(c.setres[i]) : i \in 1..Len(c.setres)}
Ref == T.calls[1]

RowsAreRequested(c) ==
  /\ \A i, j \in 1..Len(c.rows) : RowItem(c.rows[i]) = RowItem(c.rows[j]) => i = j      \* one row per item
  /\ {RowItem(c.rows[i]) : i \in 1..Len(c.rows)} = ReqItems(c)                          \* rows = requested items
EqualsReference(c) ==
  IF Kind \in SetKinds THEN SetRes(c) = SetRes(Ref) \cap ReqItems(c)
  ELSE \A i \in 1..Len(c.rows) : HasRow(Ref, RowItem(c.rows[i])) => SameRow(c.rows[i], RowOfItem(Ref, RowItem(c.rows[i])))
EqualsLattice(c) ==
  IF Kind \in {"essg", "essr"} THEN SetRes(c) = exp.set
  ELSE \A i \in 1..Len(c.rows) : RowItem(c.rows[i]) \in AllItems => SameRow(c.rows[i], exp.rows[RowItem(c.rows[i])])

\* ---------------------------------------------------------------- worker events
W(c) == c.workers
EvIdx(c) == UNION {{<<w, i>> : i \in 1..Len(W(c)[w])} : w \in 1..Len(W(c))}
Ev(c, x) == W(c)[x[1]][x[2]]
Passes == IF Kind \in FvaKinds \cup {"blocked"} THEN {"min", "max"} ELSE {"-"}
Count(c, e, t, pass) ==
  Cardinality({x \in EvIdx(c) : Ev(c, x).e = e /\ SeqSet(Ev(c, x).task) = t /\ Ev(c, x).pass = pass})
EvTasks(c, pass) == {SeqSet(Ev(c, x).task) : x \in {y \in EvIdx(c) : Ev(c, y).pass = pass}}
\* the internal FVA of find_blocked_reactions runs on a pre-filtered list that is not visible from outside
ReqKnown == Kind # "blocked"
TasksOnce(c) ==
  \A pass \in Passes :
    /\ \A t \in EvTasks(c, pass) : Count(c, "b", t, pass) = 1 /\ Count(c, "f", t, pass) = 1
    /\ IF ReqKnown THEN EvTasks(c, pass) = ReqItems(c) ELSE EvTasks(c, pass) \subseteq ReqItems(c)
    /\ EvTasks(c, pass) = EvTasks(c, CHOOSE q \in Passes : TRUE)
Alternate(c) ==
  \A w \in 1..Len(W(c)) :
    LET s == W(c)[w] IN
    /\ Len(s) % 2 = 0
    /\ \A i \in 1..Len(s) : i % 2 = 1 => /\ s[i].e = "b" /\ s[i + 1].e = "f"
                                         /\ s[i].task = s[i + 1].task /\ s[i].pass = s[i + 1].pass
BeginClean(c) == \A x \in EvIdx(c) : Ev(c, x).e = "b" => Ev(c, x).clean
FinishOf(c, t, pass) == Ev(c, CHOOSE x \in EvIdx(c) : Ev(c, x).e = "f" /\ SeqSet(Ev(c, x).task) = t /\ Ev(c, x).pass = pass)
HasFinish(c, t, pass) == \E x \in EvIdx(c) : Ev(c, x).e = "f" /\ SeqSet(Ev(c, x).task) = t /\ Ev(c, x).pass = pass
RowCarriesFinish(c) ==
  \A i \in 1..Len(c.rows) :
    LET r == c.rows[i] t == RowItem(r) IN
    IF Kind \in FvaKinds
    THEN /\ HasFinish(c, t, "min") /\ HasFinish(c, t, "max")
         /\ r.vals = FinishOf(c, t, "min").vals \o FinishOf(c, t, "max").vals
    ELSE /\ HasFinish(c, t, "-")
         /\ r.vals = FinishOf(c, t, "-").vals /\ r.status = FinishOf(c, t, "-").status
\* each worker process executes whole chunks: consecutive slices of the item sequence, cut at
\* multiples of the chunk size the code computes (item order known for the FVA kinds only)
ChunkShapeOK(ps, n, cs) ==
  \A i \in 1..Len(ps) :
    LET p == ps[i] k == ((p - 1) \div cs) + 1 IN
    /\ p = ChunkLo(k, cs) \/ (i > 1 /\ ps[i - 1] = p - 1)
    /\ p = ChunkHi(k, n, cs) \/ (i < Len(ps) /\ ps[i + 1] = p + 1)
ChunkShape(c) ==
  LET order == ReqL1(c) n == Len(order) cs == ChunkSize(n, c.P) IN
  \A w \in 1..Len(W(c)) : \A pass \in Passes :
    LET b == SelectSeq(W(c)[w], LAMBDA e : e.e = "b" /\ e.pass = pass)
        ps == [i \in 1..Len(b) |-> PosOf(order, b[i].task[1])] IN
    ChunkShapeOK(ps, n, cs)
\* at most min(P, n) worker processes per pool (two pools for the FVA kinds when pooled)
WorkerCount(c) ==
  LET n == Cardinality(ReqItems(c)) pe == MaxOf(1, PEff(n, c.P)) IN
  Len(W(c)) <= (IF Kind \in FvaKinds \cup {"blocked"} /\ pe > 1 THEN 2 * pe ELSE pe)

\* ---------------------------------------------------------------- parallel sampling (OptGP)
\* call = [P, n, seed, thin, ds, raises, rows : Seq(Seq(Int)) in 10^-8 fixed point, digest : STRING,
\*         workers : events chain.begin / chain.end with task = <<idx>> and vals = <<seed>>]
SampleRowCount(c) == Len(c.rows) = c.rounds * c.P * ((c.n + c.P - 1) \div c.P)
SampleRowsFeasible(c) == \A i \in 1..Len(c.rows) : SxInFluxPolytope(I.sx, c.rows[i]) # "no"
\* reproducible for a fixed seed and process count: the same digest as every earlier call with these
SampleReproducible(c, upto) ==
  \A j \in 1..upto : LET d == T.calls[j] IN
     (d.P = c.P /\ d.seed = c.seed /\ d.n = c.n /\ d.thin = c.thin /\ d.rounds = c.rounds /\ d.raises = "none") => d.digest = c.digest
ChainsOnce(c) ==
  /\ \A idx \in 0..(c.P - 1) : Count(c, "b", {idx}, "-") = c.rounds /\ Count(c, "f", {idx}, "-") = c.rounds
  /\ EvTasks(c, "-") = {{idx} : idx \in 0..(c.P - 1)}
ChainSeeds(c) ==
  \A x \in EvIdx(c) : Ev(c, x).e = "b" => Ev(c, x).vals = <<c.seed + Ev(c, x).task[1]>>
\* the chains are different walks: no two of the P blocks of rows are identical
ChainsDiffer(c) ==
  LET m == (c.n + c.P - 1) \div c.P blk(a) == SubSeq(c.rows, (a - 1) * m + 1, a * m) IN
  (Len(c.rows) >= c.P * m /\ m > 0) => \A a, b \in 1..c.P : a # b => blk(a) # blk(b)      \* (the first call's rows)

\* ---------------------------------------------------------------- verdict of one call
Observed == T.ev # "none"
Clauses(c, idx) ==
  IF Kind = "optgp" THEN
    IF c.raises # "none" THEN (IF c.raises # T.calls[1].raises THEN {"raises_equal_reference"} ELSE {})
    ELSE (IF ~SampleRowCount(c) THEN {"sample_row_count"} ELSE {})
      \cup (IF ~SampleRowsFeasible(c) THEN {"sample_rows_feasible"} ELSE {})
      \cup (IF ~SampleReproducible(c, idx - 1) THEN {"sample_reproducible"} ELSE {})
      \cup (IF ~ChainsDiffer(c) THEN {"chains_differ"} ELSE {})
      \cup (IF Observed /\ ~ChainsOnce(c) THEN {"tasks_once"} ELSE {})
      \cup (IF Observed /\ ~Alternate(c) THEN {"begin_finish_alternate"} ELSE {})
      \cup (IF Observed /\ ~ChainSeeds(c) THEN {"chain_seed_is_seed_plus_index"} ELSE {})
  ELSE
       (IF c.raises # Ref.raises THEN {"raises_equal_reference"} ELSE {})
  \cup (IF exp.raises # "unknown" /\ c.raises # exp.raises THEN {"raises_equal_lattice"} ELSE {})
  \cup (IF ~c.left_clean THEN {"worker_left_clean"} ELSE {})
  \cup (IF c.raises # "none" THEN {} ELSE
          (IF Kind \notin SetKinds /\ ~RowsAreRequested(c) THEN {"rows_are_requested_items"} ELSE {})
     \cup (IF Kind \in SetKinds /\ ~(SetRes(c) \subseteq ReqItems(c)) THEN {"rows_are_requested_items"} ELSE {})
     \cup (IF Ref.raises = "none" /\ ~EqualsReference(c) THEN {"equals_reference"} ELSE {})
     \cup (IF exp.decides /\ exp.inscope /\ Kind # "blocked" /\ ~EqualsLattice(c) THEN {"equals_lattice"} ELSE {})
     \cup (IF Observed /\ ~TasksOnce(c) THEN {"tasks_once"} ELSE {})
     \cup (IF Observed /\ ~Alternate(c) THEN {"begin_finish_alternate"} ELSE {})
     \cup (IF Observed /\ ~BeginClean(c) THEN {"begin_clean"} ELSE {})
     \cup (IF Observed /\ Kind \notin SetKinds /\ Alternate(c) /\ ~RowCarriesFinish(c) THEN {"row_carries_finish_value"} ELSE {})
     \cup (IF Observed /\ Kind \in FvaKinds /\ TasksOnce(c) /\ ~ChunkShape(c) THEN {"chunk_shape"} ELSE {})
     \cup (IF Observed /\ ~WorkerCount(c) THEN {"worker_count"} ELSE {}))

\* root-cause tags: from the instance and the arguments only
Tags(c) ==
  IF Kind = "optgp" THEN
     \* (sampler finding F66) infeasible rows that break nothing but the mass balances, flux space off the
     \* origin, warm-up = two vertices and their midpoint
     (IF IsUnitNetwork(I.M) /\ AllFinite(I.M) /\ ZeroVec(I.M) \notin Feasible(I.M)
      THEN {"origin_not_in_polytope"} ELSE {})
     \cup (IF SxHomogeneous(I.sx) THEN {"no_fixed_nonzero_flux"} ELSE {})
     \cup (IF c.raises = "none" /\ c.wmid THEN {"third_warmup_point_is_midpoint_of_the_other_two"} ELSE {})
     \cup (IF c.raises = "none" /\
              \A i \in 1..Len(c.rows) : SxInFluxPolytope(I.sx, c.rows[i]) = "no" =>
                  SxAnd(SxFluxLower(I.sx, c.rows[i]) \cup SxFluxUpper(I.sx, c.rows[i])) # "no"
           THEN {"only_mass_balance_violated"} ELSE {})
  ELSE
     (IF Pooled(Cardinality(ReqItems(c)), c.P) THEN {"pooled"} ELSE {"serial"})
  \cup (IF Kind = "lfva" THEN {"loopless"} ELSE {})
  \cup (IF Kind = "lfva" /\ Cycles(I.M) # {} THEN {"model_has_internal_cycle"} ELSE {})
  \cup (IF c.raises = "none" /\ Ref.raises = "none" /\ Kind \notin SetKinds /\
           \A i \in 1..Len(c.rows) :
              (HasRow(Ref, RowItem(c.rows[i])) /\ ~SameRow(c.rows[i], RowOfItem(Ref, RowItem(c.rows[i]))))
                 => (Kind \in FvaKinds /\ OnCycle(I.M, PosOf(I.M.rxns, c.rows[i].item[1])))
        THEN {"differing_rows_only_on_internal_cycles"} ELSE {})

Init ==
  /\ tid \in 1..Len(Traces)
  /\ l = 0
  /\ exp = Expectation

Next ==
  /\ l < Len(T.calls)
  /\ LET c == T.calls[l + 1] cl == Clauses(c, l + 1) IN
     cl # {} => PrintT(ToJson([verdict |-> "MISMATCH", tid |-> T.tid, l |-> l + 1, kind |-> Kind,
                               clauses |-> cl, tags |-> Tags(c), P |-> c.P, ds |-> c.ds, ev |-> T.ev,
                               obsraises |-> c.raises]))
  /\ l' = l + 1
  /\ UNCHANGED <<tid, exp>>
=============================================================================
