---------------------------- MODULE TraceFlux2 ----------------------------
(***************************************************************************)
(* Batch trace validation for the secondary analyses (C09 C06 C18 C20).    *)
(*                                                                         *)
(* The batch file (IOEnv.TRACE_FILE) is a JSON array of traces recorded    *)
(* from the REAL cobrapy by harness/flux2_engine.py:                       *)
(*   trace = [tid, prop, M (instance record of FluxLatticeOps, plus        *)
(*            property-specific fields), events : Seq(event)]              *)
(* Events carry the arguments of one public call and what it returned, as  *)
(* fixed-point integers (value * 10^6, |value| < 2000) -- no floats/nulls. *)
(* One TLC state per consumed event.  TLC computes the expected values on  *)
(* the integer lattice and prints a JSON verdict line per mismatch (naming *)
(* the failing clauses and root-cause tags computed from the arguments),   *)
(* per undecided and per out-of-scope event.  Nothing here can fail the    *)
(* TLC run itself.                                                         *)
(***************************************************************************)
EXTENDS Flux2Ops, Json, IOUtils, TLCExt

Traces == JsonDeserialize(IOEnv.TRACE_FILE)

VARIABLES tid, l
vars == <<tid, l>>

Fails(name, cond) == IF cond THEN {} ELSE {name}
AllOnes(mask) == \A r \in 1..Len(mask) : mask[r] = 1
FxInBoundsOn(M, vx, mask) ==
  \A r \in RIdx(M) : mask[r] = 1 =>
     (FinLB(M, r) => vx[r] >= M.lb[r] * Scale - Tol) /\ (FinUB(M, r) => vx[r] <= M.ub[r] * Scale + Tol)
NTol(M) == Tol + NR(M)           \* a sum of NR rounded terms

Res(scope, decided, fails, tags, exp) ==
  [scope |-> scope, decided |-> decided, fails |-> fails, tags |-> tags, exp |-> exp]

\* ------------------------------------------------------------------ C09
\* event = [k, ko, ref, refgiven, refobj, num, den, delta, eps, useobj, objc, sub,
\*          outcome ("ok" | "exc:<class>" | "crash:<signal>"), status, objk ("num" | "nan"), obj, v]
RanOK(ev) == ev.outcome = "ok" /\ ev.status = "optimal" /\ ev.objk = "num"

JudgePfba(M, ev) ==
  LET KO == KnockOut(M, MaskSet(ev.ko))
      Me == IF ev.useobj THEN WithObjective(KO, ev.objc, M.dir) ELSE KO
      full == AllOnes(ev.sub)
  IN
  IF ~(IsUnitNetwork(Me) /\ HasOpt(Me) /\ InScope_pfba(Me, ev.num, ev.den)) THEN Res("out", FALSE, {}, {}, <<>>)
  ELSE LET dec == Decidable_pfba(Me, ev.num, ev.den)
           opt == Opt(Me)
           ml1 == MinL1(Me, ev.num, ev.den) IN
       Res("in", dec,
           IF ~RanOK(ev) THEN {"outcome"}
           ELSE Fails("bounds", FxInBoundsOn(Me, ev.v, ev.sub))
                \cup Fails("balance", full => FxBalanced(Me, ev.v))
                \cup Fails("fraction_kept", full => FxObjAtLeast(Me, ev.num, ev.den, opt, ev.v))
                \cup Fails("objective_is_total_flux", full => Near(FxL1(ev.v), ev.obj, NTol(M)))
                \cup Fails("minimal", dec => Near(ev.obj, ml1 * Scale, Tol)),
           (IF M.dir = "min" THEN {"dir_min"} ELSE {}) \cup (IF ev.useobj THEN {"objective_arg"} ELSE {})
             \cup (IF ~full THEN {"reactions_arg"} ELSE {}) \cup (IF ev.num # ev.den THEN {"fraction_lt_1"} ELSE {}),
           <<ml1>>)

\* tags shared by MOMA / ROOM
AdjTags(M, ev, F) ==
  (IF M.dir = "min" THEN {"dir_min"} ELSE {})
  \cup (IF MaskSet(ev.ko) # {} THEN {"knocked_out"} ELSE {})
  \cup (IF ~ev.refgiven THEN {"default_reference"} ELSE {})
  \cup (IF ev.k \in {"room", "linroom", "roomdef"} /\
           RoomCapBinding(F, M.c, IF ev.refgiven THEN ev.refobj ELSE MinL1In(FracSetIn(F, M, 1, 1)))
        THEN {"room_cap_binding"} ELSE {})

JudgeAdjust(M, ev) ==
  LET KO == KnockOut(M, MaskSet(ev.ko))
      F == Feasible(KO)
      n == NR(M)
  IN
  IF ~(IsUnitNetwork(M) /\ HasOpt(M) /\ F # {} /\ (ev.refgiven => ev.ref \in ArgOpt(M)))
  THEN Res("out", FALSE, {}, {}, <<>>)
  ELSE
  LET dec == Decidable_adjust(M)
      feasible == Fails("bounds", FxInBoundsOn(KO, ev.v, ev.sub)) \cup Fails("balance", FxBalanced(KO, ev.v))
      tags == AdjTags(M, ev, F)
  IN
  IF ~RanOK(ev) THEN Res("in", dec, {"outcome"}, tags, <<>>)
  ELSE IF ~ev.refgiven
  THEN \* the reference is pFBA of this very model state: it is feasible, nothing has to move
       Res("in", dec, feasible \cup Fails("minimal", dec => Near(ev.obj, 0, Tol)), tags, <<0>>)
  ELSE CASE ev.k = "moma" ->
         LET md == MinDistIn(F, ev.ref) IN
         Res("in", dec, feasible \cup Fails("objective_is_distance", Near(FxDist(ev.v, ev.ref), ev.obj, NTol(M)))
                        \cup Fails("minimal", dec => Near(ev.obj, md * Scale, Tol)), tags, <<md>>)
       [] ev.k = "room" ->
         LET ro == RoomOptIn(F, ev.ref, ev.delta, ev.eps) IN
         Res("in", dec, feasible \cup Fails("minimal", dec => Near(ev.obj, ro * Scale, Tol))
                        \cup Fails("vector_attains", dec => Cardinality(FxOutside(ev.v, ev.ref, ev.delta * Scale, ev.eps * Scale)) <= ro),
             tags, <<ro>>)
       [] ev.k = "roomdef" ->      \* delta = 0.03, epsilon = 0.001: bracketed by the integer bands
         LET hi == RoomOptIn(F, ev.ref, 0, 0) lo == RoomOptIn(F, ev.ref, 1, 1)
             ks == {k \in 0..n : Near(ev.obj, k * Scale, Tol)} IN
         Res("in", dec, feasible \cup Fails("bracket", dec => (ev.obj >= lo * Scale - Tol /\ ev.obj <= hi * Scale + Tol))
                        \cup Fails("integral_count", ks # {})
                        \cup Fails("vector_attains", \A k \in ks : Cardinality(FxOutside(ev.v, ev.ref, 30000, 1000)) <= k),
             tags, <<lo, hi>>)
       [] ev.k = "linroom" ->
         LET lr == LinRoomOptIn(KO, F, ev.ref) D == lr[2] IN
         Res("in", dec, feasible \cup Fails("minimal", dec => Near(ev.obj * D, lr[1] * Scale, Tol * D))
                        \cup Fails("vector_attains", FxLinRoomNum(KO, ev.ref, D, ev.v) <= ev.obj * D + D * NTol(M)),
             tags, lr)
       [] OTHER -> Res("out", FALSE, {}, {}, <<>>)

JudgeC09(M, ev) == IF ev.k = "pfba" THEN JudgePfba(M, ev) ELSE JudgeAdjust(M, ev)

Judge(t, ev) == CASE t.prop = "C09" -> JudgeC09(t.M, ev)
                  [] OTHER -> Res("out", FALSE, {}, {}, <<>>)

\* ------------------------------------------------------------------ behaviour
Init == tid \in 1..Len(Traces) /\ l = 0

Next ==
  /\ l < Len(Traces[tid].events)
  /\ LET t == Traces[tid] ev == t.events[l + 1] j == Judge(t, ev) IN
     /\ (j.scope = "out") => PrintT(ToJson([verdict |-> "OUTSCOPE", tid |-> t.tid, l |-> l + 1, action |-> ev.k]))
     /\ (j.scope = "in" /\ ~j.decided) => PrintT(ToJson([verdict |-> "UNDECIDED", tid |-> t.tid, l |-> l + 1, action |-> ev.k]))
     /\ (j.fails # {}) =>
          PrintT(ToJson([verdict |-> "MISMATCH", tid |-> t.tid, l |-> l + 1, action |-> ev.k, clauses |-> j.fails,
                         tags |-> j.tags, exp |-> j.exp, outcome |-> ev.outcome, status |-> ev.status, obs |-> ev.obj]))
  /\ l' = l + 1
  /\ tid' = tid
=============================================================================
