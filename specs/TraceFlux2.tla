---------------------------- MODULE TraceFlux2 ----------------------------
(***************************************************************************)
(* Batch trace validation for the secondary analyses (C09 C06 C18 C20).    *)
(*                                                                         *)
(* The batch file (IOEnv.TRACE_FILE) is a JSON array of traces recorded    *)
(* from the REAL cobrapy by harness/flux2_engine.py:                       *)
(*   trace = [tid, prop, M (instance record of FluxLatticeOps, plus        *)
(*            property-specific fields), events : Seq(event)]              *)
(* Events carry the arguments of one public call and what it returned, as  *)
(* fixed-point integers (value * 10^6, |value| < 2000) -- no floats/nulls. *)
(* One TLC state per consumed event.  TLC computes the expected values on  *)
(* the integer lattice and prints a JSON verdict line per mismatch (naming *)
(* the failing clauses and root-cause tags computed from the arguments),   *)
(* per undecided and per out-of-scope event.  Nothing here can fail the    *)
(* TLC run itself.                                                         *)
(***************************************************************************)
EXTENDS Flux2Ops, Json, IOUtils, TLCExt

Traces == JsonDeserialize(IOEnv.TRACE_FILE)

VARIABLES tid, l, cache, base
vars == <<tid, l, cache, base>>

Fails(name, cond) == IF cond THEN {} ELSE {name}
AllOnes(mask) == \A r \in 1..Len(mask) : mask[r] = 1
FxInBoundsOn(M, vx, mask) ==
  \A r \in RIdx(M) : mask[r] = 1 =>
     (FinLB(M, r) => vx[r] >= M.lb[r] * Scale - Tol) /\ (FinUB(M, r) => vx[r] <= M.ub[r] * Scale + Tol)
NTol(M) == Tol + NR(M)           \* a sum of NR rounded terms

Res(scope, decided, fails, tags, exp) ==
  [scope |-> scope, decided |-> decided, fails |-> fails, tags |-> tags, exp |-> exp]

\* ------------------------------------------------------------------ C09
\* event = [k, ko, ref, refgiven, refobj, num, den, delta, eps, useobj, objc, sub, hist,
\*          outcome ("ok" | "exc:<class>" | "crash:<signal>"), status, objk ("num" | "nan"), obj, v]
RanOK(ev) == ev.outcome = "ok" /\ ev.status = "optimal" /\ ev.objk = "num"

\* F = Feasible(KnockOut(M, ev.ko)), carried in the state variable `cache` (computed once per
\* knock-out state of a trace)
JudgePfba(M, ev, F) ==
  LET KO == KnockOut(M, MaskSet(ev.ko))
      Me == IF ev.useobj THEN WithObjective(KO, ev.objc, M.dir) ELSE KO
      full == AllOnes(ev.sub)
  IN
  IF ~(IsUnitNetwork(Me) /\ InScope_pfbaF(F, Me, ev.num, ev.den)) THEN Res("out", FALSE, {}, {}, <<>>)
  ELSE LET dec == Decidable_pfbaF(F, Me, ev.num, ev.den)
           opt == OptF(F, Me)
           ml1 == MinL1In(FracSetIn(F, Me, ev.num, ev.den)) IN
       Res("in", dec,
           IF ~RanOK(ev) THEN {"outcome"}
           ELSE Fails("bounds", FxInBoundsOn(Me, ev.v, ev.sub))
                \cup Fails("balance", full => FxBalanced(Me, ev.v))
                \cup Fails("fraction_kept", full => FxObjAtLeast(Me, ev.num, ev.den, opt, ev.v))
                \cup Fails("objective_is_total_flux", full => Near(FxL1(ev.v), ev.obj, NTol(M)))
                \cup Fails("minimal", dec => Near(ev.obj, ml1 * Scale, Tol)),
           (IF M.dir = "min" THEN {"dir_min"} ELSE {}) \cup (IF ev.useobj THEN {"objective_arg"} ELSE {})
             \cup (IF ev.hist # "none" THEN {"stale_fixed_objective"} ELSE {})
             \cup (IF ~full THEN {"reactions_arg"} ELSE {}) \cup (IF ev.num # ev.den THEN {"fraction_lt_1"} ELSE {}),
           <<ml1>>)

\* tags shared by MOMA / ROOM
AdjTags(M, ev, F) ==
  (IF M.dir = "min" THEN {"dir_min"} ELSE {})
  \cup (IF MaskSet(ev.ko) # {} THEN {"knocked_out"} ELSE {})
  \cup (IF ~ev.refgiven THEN {"default_reference"} ELSE {})
  \cup (IF ev.k \in {"room", "linroom", "roomdef"} /\
           RoomCapBinding(F, M.c, IF ev.refgiven THEN ev.refobj ELSE MinL1In(FracSetIn(F, M, 1, 1)))
        THEN {"room_cap_binding"} ELSE {})

JudgeAdjust(M, ev, F, wt) ==
  LET KO == KnockOut(M, MaskSet(ev.ko))
      n == NR(M)
  IN
  IF ~(IsUnitNetwork(M) /\ wt.hasopt /\ F # {} /\ (ev.refgiven => ev.ref \in wt.argopt))
  THEN Res("out", FALSE, {}, {}, <<>>)
  \* a reaction with an infinite bound leaves ROOM without a valid big-M for its switch: the documented refusal
  ELSE IF "refuse" \in DOMAIN ev /\ ev.refuse
  THEN Res("in", TRUE, Fails("refuses_infinite_bounds", ev.outcome = "exc:ValueError"), {"infinite_bound"}, <<>>)
  ELSE
  LET dec == Decidable_adjust(M)
      feasible == Fails("bounds", FxInBoundsOn(KO, ev.v, ev.sub)) \cup Fails("balance", FxBalanced(KO, ev.v))
      tags == AdjTags(M, ev, F)
  IN
  IF ~RanOK(ev) THEN Res("in", dec, {"outcome"}, tags, <<>>)
  ELSE IF ~ev.refgiven
  THEN \* the reference is pFBA of this very model state: it is feasible, nothing has to move
       Res("in", dec, feasible \cup Fails("minimal", dec => Near(ev.obj, 0, Tol)), tags, <<0>>)
  ELSE CASE ev.k = "moma" ->
         LET md == MinDistIn(F, ev.ref) IN
         Res("in", dec, feasible \cup Fails("objective_is_distance", Near(FxDist(ev.v, ev.ref), ev.obj, NTol(M)))
                        \cup Fails("minimal", dec => Near(ev.obj, md * Scale, Tol)), tags, <<md>>)
       [] ev.k = "room" ->
         LET ro == RoomOptIn(F, ev.ref, ev.delta, ev.eps) IN
         Res("in", dec, feasible \cup Fails("minimal", dec => Near(ev.obj, ro * Scale, Tol))
                        \cup Fails("vector_attains", dec => Cardinality(FxOutside(ev.v, ev.ref, ev.delta * Scale, ev.eps * Scale)) <= ro),
             tags, <<ro>>)
       [] ev.k = "roomdef" ->      \* delta = 0.03, epsilon = 0.001: bracketed by the integer bands
         LET hi == RoomOptIn(F, ev.ref, 0, 0) lo == RoomOptIn(F, ev.ref, 1, 1)
             ks == {k \in 0..n : Near(ev.obj, k * Scale, Tol)} IN
         Res("in", dec, feasible \cup Fails("bracket", dec => (ev.obj >= lo * Scale - Tol /\ ev.obj <= hi * Scale + Tol))
                        \cup Fails("integral_count", ks # {})
                        \cup Fails("vector_attains", \A k \in ks : Cardinality(FxOutside(ev.v, ev.ref, 30000, 1000)) <= k),
             tags, <<lo, hi>>)
       [] ev.k = "linroom" ->
         LET lr == LinRoomOptIn(KO, F, ev.ref) D == lr[2] IN
         Res("in", dec, feasible \cup Fails("minimal", dec => Near(ev.obj * D, lr[1] * Scale, Tol * D))
                        \cup Fails("vector_attains", FxLinRoomNum(KO, ev.ref, D, ev.v) <= ev.obj * D + D * NTol(M)),
             tags, lr)
       [] OTHER -> Res("out", FALSE, {}, {}, <<>>)

JudgeC09(M, ev, F, wt) == IF ev.k = "pfba" THEN JudgePfba(M, ev, F) ELSE JudgeAdjust(M, ev, F, wt)

\* ------------------------------------------------------------------ C06
\* event = [k ("srd" "sgd" "drd" "dgd" "ess_r" "ess_g"), method ("fba" | "lmoma"), l1, l1given, l2, l2given
\*          (positions in M.rxns / M.genes), byobj, ref, refgiven, refobj, tdefault, tnum, tden,
\*          prior (gene positions already non-functional when the call is made), pmode ("none" | "ko" =
\*          gene.knock_out() | "flag" = functional = False only), pctx (inside an enclosing `with model:`),
\*          outcome, rows : Seq([ids : Seq(position), gk ("num" | "nan"), growth, status]),
\*          accessor (BOOLEAN: the `knockout` accessor returns each row for its own id set),
\*          ess : Seq(position)]
EntityOf(k) == IF k \in {"srd", "drd", "ess_r"} THEN "reaction" ELSE "gene"
JudgeDel(M, ev, wt) ==
  LET ent == EntityOf(ev.k)
      U == Universe(M, ent)
      all == [i \in 1..Cardinality(U) |-> i]
      La == IF ev.l1given THEN ev.l1 ELSE all
      Lb == IF ev.l2given THEN ev.l2 ELSE La
      combos == IF ev.k \in {"drd", "dgd"} THEN Combinations(La, Lb) ELSE Singles(La)
      rowsets == {SeqSet(ev.rows[i].ids) : i \in 1..Len(ev.rows)}
      moma == ev.method = "lmoma"
      \* the reference of the MOMA deletions: given, or pFBA of the model when that is a single point
      pf == IF moma /\ ~ev.refgiven /\ wt.hasopt THEN PfbaPoints(wt.F, M) ELSE {}
      ref == IF ev.refgiven THEN ev.ref ELSE IF Cardinality(pf) = 1 THEN CHOOSE v \in pf : TRUE ELSE <<>>
      P == {M.genes[ev.prior[i]] : i \in 1..Len(ev.prior)}
      inscope == IsUnitNetwork(M) /\ (moma => (wt.hasopt /\ ev.pmode = "none" /\ (ev.refgiven => ev.ref \in wt.argopt)))
                 /\ InScope_prior(M, P, ev.pmode)
      dec == ~moma \/ (AllFinite(M) /\ ref # <<>>)
      rowfails(row) ==
        LET e == RowExpectP(M, ent, SeqSet(row.ids), P, ev.pmode) IN
        IF ~moma
        THEN Fails("status_optimal_iff_optimum", (row.status = "optimal") = e.hasopt)
             \cup Fails("growth", IF e.hasopt THEN row.gk = "num" /\ Near(row.growth, e.opt * Scale, Tol)
                                  ELSE row.gk = "nan")
        ELSE Fails("status_optimal_iff_feasible", (row.status = "optimal") = (e.F # {}))
             \cup (IF e.F = {} \/ ~dec THEN {}
                   ELSE LET gi == GrowthIntervalIn(e.F, ref, M.c) IN
                        Fails("growth_in_argmin_face", row.gk = "num" /\ row.growth >= gi[1] * Scale - FxObjTol(M)
                                                       /\ row.growth <= gi[2] * Scale + FxObjTol(M)))
      tags == (IF M.dir = "min" THEN {"dir_min"} ELSE {}) \cup (IF moma THEN {"method_lmoma"} ELSE {})
              \cup (IF ~wt.hasopt THEN {"model_without_optimum"} ELSE {})
              \cup (IF moma /\ ~ev.refgiven THEN {"default_reference"} ELSE {})
              \cup (IF ~AllFinite(M) THEN {"infinite_bounds"} ELSE {})
              \cup (IF ev.pmode # "none" THEN {"prior_" \o ev.pmode} ELSE {})
              \cup (IF ev.pmode # "none" /\ ev.pctx THEN {"prior_in_context"} ELSE {})
  IN
  IF ~inscope THEN Res("out", FALSE, {}, {}, <<>>)
  ELSE IF ev.outcome # "ok" THEN Res("in", dec, {"outcome"}, tags, <<>>)
  ELSE Res("in", dec,
           Fails("rows_are_the_combinations", rowsets = combos)
           \cup Fails("one_row_each", Len(ev.rows) = Cardinality(combos))
           \cup Fails("knockout_accessor", ev.accessor)
           \cup UNION {rowfails(ev.rows[i]) : i \in {i \in 1..Len(ev.rows) : SeqSet(ev.rows[i].ids) \in combos}},
           tags, <<Cardinality(combos)>>)

JudgeEss(M, ev, wt) ==
  LET ent == EntityOf(ev.k)
      P == {M.genes[ev.prior[i]] : i \in 1..Len(ev.prior)}
      \* the model state the analysis sees (prior knock-outs applied): its optimum gives the default threshold
      MP == KnockOut(M, PriorZero(M, P, ev.pmode))
      FP == IF ev.pmode = "none" THEN wt.F ELSE Feasible(MP)
      hP == IsUnitNetwork(M) /\ HasOptF(FP, MP)
      tn == IF ev.tdefault THEN (IF hP THEN OptF(FP, MP) ELSE 0) ELSE ev.tnum
      td == IF ev.tdefault THEN 100 ELSE ev.tden
      \* a threshold that coincides with an attainable growth value would be decided by rounding noise
      tie == \E x \in Universe(M, ent) : LET e == RowExpectP(M, ent, {x}, P, ev.pmode) IN e.hasopt /\ e.opt * td = tn
  IN
  IF ~(hP /\ InScope_prior(M, P, ev.pmode)) THEN Res("out", FALSE, {}, {}, <<>>)
  ELSE IF ev.outcome # "ok" THEN Res("in", TRUE, {"outcome"}, {}, <<>>)
  ELSE LET exp == EssentialP(M, ent, tn, td, P, ev.pmode) IN
       Res("in", ~tie, Fails("essential_set", tie \/ SeqSet(ev.ess) = exp),
           (IF M.dir = "min" THEN {"dir_min"} ELSE {}) \cup (IF ev.tdefault THEN {"default_threshold"} ELSE {})
           \cup (IF ~AllFinite(M) THEN {"infinite_bounds"} ELSE {})
           \cup (IF ev.pmode # "none" THEN {"prior_" \o ev.pmode} ELSE {}), <<exp>>)

JudgeC06(M, ev, wt) == IF ev.k \in {"ess_r", "ess_g"} THEN JudgeEss(M, ev, wt) ELSE JudgeDel(M, ev, wt)

\* ------------------------------------------------------------------ C18
\* event = [k ("getmed" "setmed" "setcur" "minmed"), d, g, exports, mc, open, opentrue,
\*          outcome, lb, ub (bounds after the call; Inf / NegInf tokens), med (medium read back after the
\*          call: value, Inf, or Absent per reaction),
\*          none (BOOLEAN), cols : Seq(Seq(fixed point)) (returned media, oriented as import, 0 = not listed),
\*          suff : Seq([sk ("num" | "unb" | "inf"), sv])  (maximal objective with that medium applied)]
\* cur = [lb, ub]: the bounds before the call (the medium calls of a trace act on one model object)
JudgeMed(M, ev, cur) ==
  LET Mc == [M EXCEPT !.lb = cur.lb, !.ub = cur.ub]
      Obs == [M EXCEPT !.lb = ev.lb, !.ub = ev.ub]
      d == IF ev.k = "setcur" THEN GetMedium(Mc) ELSE ev.d
      Ex == Exchanges(M)
      tags == (IF \E r \in Ex : ExportWritten(M, r) THEN {"has_export_written"} ELSE {})
              \cup (IF \E r \in Ex : ~ExportWritten(M, r) THEN {"has_import_written"} ELSE {})
  IN
  IF ev.k = "getmed"
  THEN Res("in", TRUE, IF ev.outcome # "ok" THEN {"outcome"}
                       ELSE Fails("readback", ev.med = GetMedium(Mc))
                            \cup Fails("bounds_unchanged", ev.lb = cur.lb /\ ev.ub = cur.ub), tags, <<GetMedium(Mc)>>)
  ELSE IF ~InScope_setmedium(Mc, d) THEN Res("out", FALSE, {}, {}, <<>>)
  ELSE IF ev.outcome # "ok" THEN Res("in", TRUE, {"outcome"}, tags, <<>>)
  ELSE Res("in", TRUE,
           Fails("import_bound_set", \A r \in Ex : d[r] # Absent => ImportBound(Obs, r) = d[r])
           \cup Fails("others_closed", \A r \in Ex : d[r] = Absent => ImportBound(Obs, r) = MinOf(0, ImportBound(Mc, r)))
           \cup Fails("export_bounds_untouched", \A r \in Ex : IF ExportWritten(M, r) THEN ev.ub[r] = cur.ub[r]
                                                                ELSE ev.lb[r] = cur.lb[r])
           \cup Fails("other_reactions_untouched", \A r \in RIdx(M) \ Ex : ev.lb[r] = cur.lb[r] /\ ev.ub[r] = cur.ub[r])
           \cup Fails("readback", ev.med = PositivePart(M, d)),
           tags, <<SetMedium(Mc, d).lb, SetMedium(Mc, d).ub>>)

PosEntries(col) == {r \in 1..Len(col) : col[r] > Tol}
JudgeMinMed(M, ev, F0) ==
  LET Mo == Opened(M, ev.open)
      F == IF ev.open = 0 THEN F0 ELSE Feasible(Mo)
      Ex == Exchanges(M)
      can == CanReach(F, Mo, ev.g)
      Rch == Reaching(F, Mo, ev.g)
      decT == Decidable_minmedium(F, Mo, ev.g)
      decC == Decidable_mincomponents(Mo)
      inf == \E r \in Ex : ~FinLB(Mo, r) \/ ~FinUB(Mo, r)
      tags == (IF inf THEN {"infinite_exchange_bound"} ELSE {}) \cup (IF ev.mc >= 1 THEN {"minimize_components"} ELSE {})
              \cup (IF ev.open > 0 \/ ev.opentrue THEN {"open_exchanges"} ELSE {}) \cup (IF ev.exports THEN {"exports"} ELSE {})
      colfails(i) ==
        LET col == ev.cols[i] sf == ev.suff[i] IN
        Fails("only_exchanges_listed", \A r \in RIdx(M) \ Ex : col[r] = 0)
        \cup Fails("imports_only", ev.exports \/ \A r \in RIdx(M) : col[r] >= 0)
        \cup Fails("sufficient", sf.sk = "unb" \/ (sf.sk = "num" /\ sf.sv >= ev.g * Scale - Tol))
        \cup (IF ev.opentrue THEN {}
              ELSE Fails("within_import_bounds", \A r \in Ex : ImportBound(Mo, r) >= Inf \/ col[r] <= MaxOf(ImportBound(Mo, r), 0) * Scale + Tol)
                   \cup (IF ev.mc = 0
                         THEN Fails("minimal_total_import",
                                    (decT /\ Rch # {}) => Near(SumSeq([r \in RIdx(M) |-> MaxOf(col[r], 0)]),
                                                               MinMediumIn(Rch, Mo) * Scale, NTol(M)))
                         ELSE Fails("minimal_components",
                                    (decC /\ Rch # {}) => Cardinality(PosEntries(col)) = MinComponentsIn(Rch, Mo))))
  IN
  IF ~(IsUnitNetwork(M) /\ Ex # {}) THEN Res("out", FALSE, {}, {}, <<>>)
  \* the component count uses the largest exchange bound as big-M: an infinite one is refused (ValueError);
  \* before the repair GLPK aborted the interpreter (finding F33)
  ELSE IF inf /\ ev.mc >= 1 /\ ~ev.opentrue
  THEN Res("in", TRUE, Fails("refuses_infinite_exchange_bound", ev.outcome = "exc:ValueError"), tags, <<>>)
  ELSE IF ev.outcome # "ok" THEN Res("in", TRUE, {"outcome"}, tags, <<>>)
  ELSE IF ev.opentrue
  THEN Res("in", FALSE, IF ev.none THEN {} ELSE UNION {colfails(i) : i \in 1..Len(ev.cols)}, tags, <<>>)
  ELSE Res("in", (ev.mc = 0 /\ decT) \/ (ev.mc >= 1 /\ decC) \/ ~can,
           Fails("none_iff_no_medium_suffices", ev.none = ~can)
           \cup (IF ev.none \/ ~can THEN {}
                 ELSE Fails("number_of_media", Len(ev.cols) >= 1 /\ Len(ev.cols) <= MaxOf(1, ev.mc))
                      \cup UNION {colfails(i) : i \in 1..Len(ev.cols)}),
           tags, IF can /\ Rch # {} THEN <<MinMediumIn(Rch, Mo), MinComponentsIn(Rch, Mo)>> ELSE <<>>)

\* ------------------------------------------------------------------ C20
\* event = [k ("model" "met" "rxn"), idx, solgiven, sol, fvak ("none" "frame" "float"), fnum, fden, frame,
\*          scaled, passpfba, stale, c2 (current objective coefficients when the summary is made), outcome, plus, minus : Seq([rxn, met, flux, lo, hi, pk ("num" "nan" "none"), pct]),
\*          objk, obj, fluxk, flux, lo, hi  (reaction summary / to_frame), rendered, rexc]
RowsOf(side) == {side[i] : i \in 1..Len(side)}
JudgeSum(t, ev, wt) ==
  LET M == IF ev.scaled THEN t.MS ELSE t.M
      F == wt.F
      pf == IF ~ev.solgiven /\ wt.hasopt THEN PfbaPoints(F, M) ELSE {}
      known == ev.solgiven \/ Cardinality(pf) = 1
      sol == IF ev.solgiven THEN ev.sol ELSE IF known THEN CHOOSE v \in pf : TRUE ELSE <<>>
      fl == ev.fvak = "float"
      decR == ~fl \/ (~ev.scaled /\ wt.hasopt /\ Decidable_pfbaF(F, M, ev.fnum, ev.fden))
      X == FracSetIn(F, M, ev.fnum, ev.fden)
      rng == IF ev.fvak = "none" THEN <<>> ELSE IF ev.fvak = "frame" THEN ev.frame
             ELSE IF decR THEN [r \in RIdx(M) |-> RangeIn(X, r)] ELSE <<>>
      hasr == ev.fvak # "none"
      \* a frame given for a subset of the reactions: the range of a reaction without a row is not specified
      covered(r) == ev.fsub = <<>> \/ ev.fsub[r] = 1
      obs == RowsOf(ev.plus) \cup RowsOf(ev.minus)
      want == IF ev.k = "model" THEN Boundary(M) ELSE {r \in RIdx(M) : M.S[r][ev.idx] # 0}
      exprow(r) == SummaryRow(M, sol, rng, r, IF ev.k = "model" THEN MetOf(M, r) ELSE ev.idx)
      tot(side) == SumSeq([i \in 1..Len(side) |-> Abs(side[i].flux)])
      pctsum(side) == SumSeq([i \in 1..Len(side) |-> side[i].pct])
      n == NR(M)
      scope == IsUnitNetwork(t.M) /\ wt.hasopt /\ (fl => (~ev.scaled /\ InScope_pfbaF(F, M, ev.fnum, ev.fden)))
      tags == (IF ~ev.solgiven THEN {"default_solution"} ELSE {}) \cup (IF hasr THEN {"fva_" \o ev.fvak} ELSE {})
              \cup (IF ev.scaled THEN {"non_unit_coefficients"} ELSE {})
              \cup (IF ev.passpfba THEN {"explicit_pfba_solution"} ELSE {})
              \cup (IF ev.stale THEN {"objective_changed_after_solution"} ELSE {})
  IN
  IF ~scope THEN Res("out", FALSE, {}, {}, <<>>)
  ELSE IF ev.k = "rxn"
  THEN LET below == ev.fluxk = "num" /\ Abs(ev.flux) < Tol /\ (~hasr \/ (Abs(ev.lo) < Tol /\ Abs(ev.hi) < Tol)) IN
       Res("in", known /\ decR,
           IF ev.outcome # "ok" THEN {"outcome"}
           ELSE Fails("flux", known => (ev.fluxk = "num" /\ Near(ev.flux, sol[ev.idx] * Scale, Tol)))
                \cup Fails("range", (hasr /\ rng # <<>> /\ covered(ev.idx)) => (Near(ev.lo, rng[ev.idx][1] * Scale, Tol) /\ Near(ev.hi, rng[ev.idx][2] * Scale, Tol)))
                \cup Fails("renders", ev.rendered),
           tags \cup (IF below THEN {"reaction_flux_below_threshold"} ELSE {}), <<>>)
  ELSE
  Res("in", known /\ decR,
      IF ev.outcome # "ok" THEN {"outcome"}
      ELSE Fails("each_listed_exactly_once", {x.rxn : x \in obs} = want /\ Len(ev.plus) + Len(ev.minus) = Cardinality(want))
           \cup Fails("renders", ev.rendered)
           \cup (IF ev.k = "model"
                 THEN Fails("objective_value", ev.objk = "num" /\
                              \* the CURRENT objective (ev.c2 after an objective change) at the summarised fluxes;
                              \* pFBA solutions (default or passed explicitly) sit at the optimum
                              Near(ev.obj, (IF known THEN Dot(ev.c2, sol) ELSE wt.opt) * Scale,
                                   Tol + SumSeq([r \in RIdx(M) |-> Abs(ev.c2[r])])))
                      \cup Fails("metabolite", \A x \in obs : x.rxn \in want => x.met = MetOf(M, x.rxn))
                 ELSE Fails("totals_balance", Near(tot(ev.plus), tot(ev.minus), Tol + 2 * n))
                      \cup Fails("percentages_sum_to_one",
                                 \A side \in {ev.plus, ev.minus} : tot(side) > Tol + n => Near(pctsum(side), Scale, n + 1))
                      \cup Fails("percentage_is_share",
                                 \A side \in {ev.plus, ev.minus} : LET T == tot(side) IN
                                    (known /\ T > Scale \div 2) => \A x \in RowsOf(side) :
                                       x.pk = "num" /\ Near(x.pct * (T \div Scale), Abs(x.flux), (T \div Scale) + n + 1)))
           \cup (IF ~known THEN {}
                 ELSE Fails("side", \A x \in RowsOf(ev.plus) : x.rxn \in want => OnPlusSide(exprow(x.rxn)))
                      \cup Fails("side", \A x \in RowsOf(ev.minus) : x.rxn \in want => ~OnPlusSide(exprow(x.rxn)))
                      \cup Fails("flux_times_coefficient", \A x \in obs : x.rxn \in want => Near(x.flux, exprow(x.rxn).flux * Scale, Tol)))
           \cup (IF ~(known /\ hasr /\ rng # <<>>) THEN {}
                 ELSE Fails("range_scaled", \A x \in obs : (x.rxn \in want /\ covered(x.rxn)) =>
                               (Near(x.lo, exprow(x.rxn).lo * Scale, Tol) /\ Near(x.hi, exprow(x.rxn).hi * Scale, Tol)))),
      tags, <<>>)

Judge(t, ev, F, wt) == CASE t.prop = "C09" -> JudgeC09(t.M, ev, F, wt)
                         [] t.prop = "C06" -> JudgeC06(t.M, ev, wt)
                         [] t.prop = "C20" -> JudgeSum(t, ev, wt)
                         [] OTHER -> Res("out", FALSE, {}, {}, <<>>)

\* ------------------------------------------------------------------ behaviour
\* cache = [ko, F] : the feasible lattice of the current knock-out state;  base = facts about the model
\* before knock-out, computed once per trace: [hasopt, argopt]
WTFacts(M) == LET F == Feasible(M) h == IsUnitNetwork(M) /\ HasOptF(F, M) IN
              [hasopt |-> h, argopt |-> IF h THEN ArgOptF(F, M) ELSE {}, opt |-> IF h THEN OptF(F, M) ELSE 0, F |-> F]
NoKO(M) == [r \in RIdx(M) |-> 0]

Init ==
  /\ tid \in 1..Len(Traces)
  /\ l = 0
  /\ base = WTFacts(Traces[tid].M)
  /\ cache = IF Traces[tid].prop = "C18" THEN [lb |-> Traces[tid].M.lb, ub |-> Traces[tid].M.ub]
             ELSE [ko |-> NoKO(Traces[tid].M), F |-> base.F]

Next ==
  /\ l < Len(Traces[tid].events)
  /\ LET t == Traces[tid] ev == t.events[l + 1]
         c2 == IF t.prop = "C18" THEN (IF ev.k = "minmed" \/ ev.outcome # "ok" THEN cache ELSE [lb |-> ev.lb, ub |-> ev.ub])
               ELSE IF t.prop # "C09" \/ ev.ko = cache.ko THEN cache
               ELSE [ko |-> ev.ko, F |-> Feasible(KnockOut(t.M, MaskSet(ev.ko)))]
         j == IF t.prop = "C18" THEN (IF ev.k = "minmed" THEN JudgeMinMed(t.M, ev, base.F) ELSE JudgeMed(t.M, ev, cache))
              ELSE Judge(t, ev, c2.F, base) IN
     /\ cache' = c2
     /\ (j.scope = "out") => PrintT(ToJson([verdict |-> "OUTSCOPE", tid |-> t.tid, l |-> l + 1, action |-> ev.k]))
     /\ (j.scope = "in" /\ ~j.decided) => PrintT(ToJson([verdict |-> "UNDECIDED", tid |-> t.tid, l |-> l + 1, action |-> ev.k]))
     /\ (j.fails # {}) =>
          PrintT(ToJson([verdict |-> "MISMATCH", tid |-> t.tid, l |-> l + 1, action |-> ev.k, clauses |-> j.fails,
                         tags |-> j.tags, exp |-> j.exp, outcome |-> ev.outcome]))
  /\ l' = l + 1
  /\ tid' = tid
  /\ base' = base
=============================================================================
