---------------------------- MODULE TraceSampler ----------------------------
(***************************************************************************)
(* Batch validation of recorded sampling runs (C16).                       *)
(*                                                                         *)
(* The batch file (IOEnv.TRACE_FILE) is a JSON array of traces recorded    *)
(* from the REAL ACHRSampler / OptGPSampler / cobra.sampling.sample by     *)
(* harness/sampler_engine.py:                                              *)
(*   trace = [tid, inst : X (see SamplerOps), probes : Seq([flux, vars]),  *)
(*            runs : Seq(run)]                                             *)
(*   run   = [cfg : [method, n, thin, seed, nproj, P, fluxes, via],        *)
(*            outcome, outcome2     "ok" or the exception class of the     *)
(*                                  first / the repeated run               *)
(*            cols : Seq(STRING)    column tokens v<k> / f<k> / r<k> / z   *)
(*                                  (? for a column that is none of them)  *)
(*            rows : Seq(Seq(Int))  every returned row, 10^-8 fixed point  *)
(*            codes                 validate() of the returned rows        *)
(*            digest, digest2       digests of the exact floats of the     *)
(*                                  first / the repeated run (a fresh      *)
(*                                  sampler, same arguments, same seed)    *)
(*            model_pre, model_post digests of the caller's model          *)
(*            hist                  <<"pristine" | "solved", "solved">>:   *)
(*                                  had the caller's model been optimised  *)
(*                                  before the first / the repeated run    *)
(*            nwarm, wmid           number of warm-up points of the        *)
(*                                  sampler; the third is the midpoint of  *)
(*                                  the other two                          *)
(*            msg                   for a ValueError: which documented     *)
(*                                  refusal (single_point / two_directions)*)
(*            pf, pv]               validate() codes of the probe points   *)
(*                                  in flux / variable space               *)
(* A code is a sequence of one-character strings (<<"-">> = not asked).    *)
(*                                                                         *)
(* One TLC state per consumed run.  EVERY returned row is judged by        *)
(* SxInPolytope against the instance TLC generated -- nothing is read from *)
(* the cobra model for that.  One JSON verdict line is printed per failing *)
(* clause of a run (with its own root-cause tags); the TLC run itself      *)
(* never fails.                                                            *)
(***************************************************************************)
EXTENDS SamplerOps, Json, IOUtils, TLCExt

Traces == JsonDeserialize(IOEnv.TRACE_FILE)

VARIABLES tid, l, dim, orig
vars == <<tid, l, dim, orig>>

T == Traces[tid]
X == T.inst

ColTokens(fluxes) ==
  LET c == SxColumns(X, fluxes) IN
  [k \in 1..Len(c) |-> IF c[k][1] = "z" THEN "z" ELSE c[k][1] \o ToString(c[k][2])]

Asked(code) == code # <<"-">>
\* SxRefusalExpected with the lattice facts carried in the state
RefusalExpected ==
  IF dim = 2 THEN "no" ELSE IF ~SxIntegral(X) THEN "edge" ELSE IF dim = 0 THEN "yes" ELSE IF orig THEN "no" ELSE "yes" 
\* ---- probes
FluxProbeBad(r) ==
  {i \in 1..Len(T.probes) : Asked(r.pf[i]) /\ ~SxValidateAgrees(r.pf[i], SxInFluxPolytope(X, T.probes[i].flux))}
\* letters, flux space.  A bound / balance violation MUST show its letter; a letter MAY only appear when a
\* violation of its kind is possible -- where "its kind" includes the user rows (lower side -> 'l', upper
\* side -> 'u', equality -> 'e'), so that the clause holds for a validate() that looks at them and for
\* one that does not (recorded finding: it does not).
UserLowerFlux(p) == {SxJudge(SxDot(X.U[i].coef, p), ULoFlux(X, X.U[i]) * SxScale, SxBig, SxAbsSum(X.U[i].coef)) : i \in 1..Len(X.U)}
UserUpperFlux(p) == {SxJudge(SxDot(X.U[i].coef, p), -SxBig, UHiFlux(X, X.U[i]) * SxScale, SxAbsSum(X.U[i].coef)) : i \in 1..Len(X.U)}
MustMay(code, ch, must, may) == (must = "yes" => HasLetter(code, ch)) /\ (HasLetter(code, ch) => may # "no")
FluxProbeLetters(r) ==
  \A i \in 1..Len(T.probes) : Asked(r.pf[i]) =>
     LET p == T.probes[i].flux IN
     /\ SxCodeWellFormed(r.pf[i])
     /\ MustMay(r.pf[i], "l", SxLetterL(X, p), SxSome(SxFluxLower(X, p) \cup UserLowerFlux(p) \cup UserUpperFlux(p)))
     /\ MustMay(r.pf[i], "u", SxLetterU(X, p), SxSome(SxFluxUpper(X, p) \cup UserLowerFlux(p) \cup UserUpperFlux(p)))
     /\ MustMay(r.pf[i], "e", SxLetterE(X, p), SxSome(SxFluxBalance(X, p) \cup SxFluxUser(X, p)))
VarProbeBad(r) ==
  {i \in 1..Len(T.probes) : Asked(r.pv[i]) /\ T.probes[i].vars # <<>> /\
     ~(SxCodeWellFormed(r.pv[i]) /\ SxValidateAgrees(r.pv[i], SxInVarPolytope(X, T.probes[i].vars)))}
VarProbeOK(r) == VarProbeBad(r) = {}

Clauses(r) ==
  IF r.outcome = "ValueError" THEN
       (IF RefusalExpected = "no" THEN {"refusal_only_when_degenerate"} ELSE {})
  \cup (IF r.outcome2 # r.outcome THEN {"same_seed_same_samples"} ELSE {})
  \cup (IF r.model_pre # r.model_post THEN {"model_unchanged"} ELSE {})
  ELSE IF r.outcome # "ok" THEN {"unexpected_exception"} \cup (IF r.model_pre # r.model_post THEN {"model_unchanged"} ELSE {})
  ELSE
       \* every sample() call on the sampler object returns its (rounded-up) number of rows
       (IF Len(r.rows) # SxRowCount(r.cfg.method, r.cfg.n, r.cfg.P)
                         + (r.cfg.rounds - 1) * SxRowCount(r.cfg.method, r.cfg.n2, r.cfg.P) THEN {"row_count"} ELSE {})
  \cup (IF r.cols # ColTokens(r.cfg.fluxes) THEN {"columns"} ELSE {})
  \cup (IF \E i \in 1..Len(r.rows) : SxInPolytope(X, r.rows[i], r.cfg.fluxes) = "no" THEN {"rows_feasible"} ELSE {})
  \cup (IF r.digest # r.digest2 \/ r.outcome2 # "ok" THEN {"same_seed_same_samples"} ELSE {})
  \cup (IF Len(r.codes) # Len(r.rows) \/
           \E i \in 1..MinOf(Len(r.codes), Len(r.rows)) : Asked(r.codes[i]) /\
               (~SxCodeWellFormed(r.codes[i]) \/ ~SxValidateAgrees(r.codes[i], SxInPolytope(X, r.rows[i], r.cfg.fluxes)))
        THEN {"validate_agrees_on_samples"} ELSE {})
  \cup (IF FluxProbeBad(r) # {} THEN {"validate_agrees_on_flux_probes"} ELSE {})
  \cup (IF ~FluxProbeLetters(r) THEN {"validate_letters_on_flux_probes"} ELSE {})
  \cup (IF ~VarProbeOK(r) THEN {"validate_agrees_on_variable_probes"} ELSE {})
  \cup (IF r.model_pre # r.model_post THEN {"model_unchanged"} ELSE {})

\* root-cause tags: from the instance, the configuration and the probe geometry only
VarBatch(r) == {T.probes[i].vars : i \in {k \in 1..Len(T.probes) : Asked(r.pv[k]) /\ T.probes[k].vars # <<>>}}
CodeSet(code) == {code[i] : i \in 1..Len(code)}
CommonTags(r) ==
     {r.cfg.method}
  \cup (IF r.cfg.rounds > 1 THEN {"several_calls_on_one_sampler"} ELSE {})
  \cup (IF Len(X.U) > 0 THEN {"has_user_rows"} ELSE {})
  \cup (IF \E i \in 1..Len(X.U) : IsIneq(X.U[i]) THEN {"has_user_inequality_row"} ELSE {})
  \cup (IF X.hasz THEN {"has_user_variable"} ELSE {})
  \cup (IF SxHomogeneous(X) THEN {"no_fixed_nonzero_flux"} ELSE {"fixed_nonzero_flux"})
  \cup (IF SxIntegral(X) THEN {"integral_polytope"} ELSE {})
  \cup (IF orig THEN {"origin_in_polytope"} ELSE {"origin_not_in_polytope"})
  \cup {IF dim = 0 THEN "dim0" ELSE IF dim = 1 THEN "dim1" ELSE "dim2plus"}
Tags(r, clause) ==
  CommonTags(r)
  \* the two runs with equal arguments saw the caller's model in different solver states
  \cup (IF clause = "same_seed_same_samples" /\ r.hist[1] # r.hist[2]
        THEN {"caller_model_solved_between_the_two_runs"} ELSE {})
  \* infeasible rows that break nothing but the mass balances, from a sampler whose three warm-up points are
  \* two vertices and their midpoint (= the initial centre: near-zero search directions)
  \cup (IF clause = "rows_feasible" /\
           \A i \in 1..Len(r.rows) : SxInPolytope(X, r.rows[i], r.cfg.fluxes) = "no" =>
               (IF r.cfg.fluxes THEN SxAnd(SxFluxLower(X, r.rows[i]) \cup SxFluxUpper(X, r.rows[i]) \cup SxFluxUser(X, r.rows[i]))
                ELSE SxAnd(SxVarBounds(X, r.rows[i]) \cup SxVarUser(X, r.rows[i]))) # "no"
        THEN {"only_mass_balance_violated"} ELSE {})
  \cup (IF clause \in {"rows_feasible", "validate_agrees_on_samples"} /\ r.nwarm = 3 /\ r.wmid
        THEN {"third_warmup_point_is_midpoint_of_the_other_two"} ELSE {})
  \cup (IF clause = "validate_agrees_on_flux_probes" /\
           \A i \in FluxProbeBad(r) : SxOnlyUserRowsViolated(X, T.probes[i].flux) /\ r.pf[i] = <<"v">>
        THEN {"validate_says_v_where_only_user_rows_are_violated"} ELSE {})
  \cup (IF clause = "validate_agrees_on_variable_probes" /\
           \A i \in 1..Len(T.probes) : (Asked(r.pv[i]) /\ T.probes[i].vars # <<>>) =>
                CodeSet(r.pv[i]) = SxBatchMinLetters(X, T.probes[i].vars, VarBatch(r))
        THEN {"codes_are_batch_minimum_of_inequality_rows"} ELSE {})

Init ==
  /\ tid \in 1..Len(Traces)
  /\ l = 0
  /\ LET L == SxLattice(X) IN dim = SxDim(L) /\ orig = SxOriginFeasible(X, L)

Next ==
  /\ l < Len(T.runs)
  /\ LET r == T.runs[l + 1] IN
     \A clause \in Clauses(r) :
        PrintT(ToJson([verdict |-> "MISMATCH", tid |-> T.tid, l |-> l + 1, action |-> r.cfg.method,
                       clause |-> clause, tags |-> Tags(r, clause), obsoutcome |-> r.outcome,
                       fluxes |-> r.cfg.fluxes, P |-> r.cfg.P, via |-> r.cfg.via, refusal |-> r.msg]))
  /\ l' = l + 1
  /\ UNCHANGED <<tid, dim, orig>>
=============================================================================
