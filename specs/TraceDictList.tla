--------------------------- MODULE TraceDictList ---------------------------
(***************************************************************************)
(* Batch trace validation for DictList (C15).                              *)
(*                                                                         *)
(* The batch file (IOEnv.TRACE_FILE) is a JSON array of traces recorded    *)
(* from the REAL cobra.core.DictList by harness/dictlist_engine.py:        *)
(*   trace  = [tid, start : Seq(Obj), events : Seq(event)]                 *)
(*   event  = [op, raises, post, ret]                                      *)
(*   post   = [items : Seq(Obj),                                           *)
(*             lk : [id -> [has, cin, pos, get]]]   for EVERY id of Ids    *)
(*            has = has_id(id), cin = (id in l) /\ (obj-with-id in l),     *)
(*            pos = index(id) or Missing, get = version of get_by_id(id)   *)
(*   ret    = same shape + n  (returned list / object / nothing)           *)
(* One TLC state per consumed event.  Every step is compared with          *)
(* Apply(op, pre); Coherent is evaluated on the IMPLEMENTATION state.      *)
(* Mismatches are printed as JSON verdict lines; nothing here can fail     *)
(* the TLC run itself -- the harness turns verdicts into VIOLATION lines.  *)
(***************************************************************************)
EXTENDS DictListOps, Json, IOUtils, TLCExt

CONSTANT IdSeq
IdSeq3 == <<"a", "b", "c">>
IdSeq4 == <<"a", "b", "c", "d">>
IdRank(x) == CHOOSE k \in 1..Len(IdSeq) : IdSeq[k] = x
IdLess(x, y) == IdRank(x) < IdRank(y)

Traces == JsonDeserialize(IOEnv.TRACE_FILE)

VARIABLES tid, l, st, ok,
          der      \* the derived list (see DictList.tla) as the specification expects it
vars == <<tid, l, st, ok, der>>
NoDer == [present |-> FALSE, items |-> <<>>, idx |-> AllMissing]

\* ---- the implementation state, as observed through the public surface
ObsIdx(p) == [x \in Ids |-> p.lk[x].pos]
ObsState(p) == [items |-> p.items, idx |-> ObsIdx(p)]
\* every element is found by its identifier at its actual position, membership and
\* index() agree with the contents, identifiers are unique
ObsCoherent(p) ==
  /\ NoDup(p.items)
  /\ \A x \in Ids :
       LET pos == PosOf(p.items, x) IN
       /\ p.lk[x].has = (pos # Missing)
       /\ p.lk[x].cin = (pos # Missing)
       /\ p.lk[x].pos = pos
       /\ p.lk[x].get = (IF pos = Missing THEN Missing ELSE p.items[pos + 1].v)

SwapDiffers(ev, pre, d) ==
  IF ~d.present THEN (IF ev.raises = "skip" THEN {} ELSE {"raises"})
  ELSE (IF ev.raises # "none" THEN {"raises"} ELSE {})
       \cup (IF ev.post.items # d.items THEN {"items"} ELSE {})
       \cup (IF ObsIdx(ev.post) # d.idx THEN {"index"} ELSE {})
\* the derived list after this event, as expected from the pre-state
NextDer(ev, pre, d) ==
  LET r == Apply(ev.op, pre, IdLess) IN
  IF ev.op.op = "swap" THEN (IF d.present THEN [present |-> TRUE, items |-> pre.items, idx |-> pre.idx] ELSE d)
  ELSE IF ev.op.op = "rename" /\ r.raises = "none" THEN NoDer
  ELSE IF ReturnsList(ev.op) /\ r.raises = "none" THEN [present |-> TRUE, items |-> r.ret.items, idx |-> r.ret.idx]
  ELSE d
\* no operation on one list changes what the other one answers
DerFails(ev, e) ==
  IF ~e.present THEN {}
  ELSE (IF ~ev.der.present \/ ev.der.items # e.items \/ ObsIdx(ev.der) # e.idx THEN {"DerivedUnchanged"} ELSE {})
       \cup (IF ev.der.present /\ ~ObsCoherent(ev.der) THEN {"DerivedCoherent"} ELSE {})
Differs(ev, pre) ==
  LET exp == Apply(ev.op, pre, IdLess)
      alt == IF ev.op.op = "setslice" THEN SetSliceAlt(pre, ev.op.a, ev.op.b, ev.op.xs) ELSE exp
      matches(e) == /\ e.raises = ev.raises
                    /\ e.items = ev.post.items
                    /\ e.idx = ObsIdx(ev.post)
                    /\ e.ret.items = ev.ret.items /\ e.ret.n = ev.ret.n
  IN
  IF matches(exp) \/ matches(alt) THEN {}
  ELSE (IF exp.raises # ev.raises THEN {"raises"} ELSE {})
       \cup (IF exp.items # ev.post.items THEN {"items"} ELSE {})
       \cup (IF exp.idx # ObsIdx(ev.post) THEN {"index"} ELSE {})
       \cup (IF exp.ret.items # ev.ret.items \/ exp.ret.n # ev.ret.n THEN {"ret"} ELSE {})

InvFails(ev, pre) ==
  (IF ~ObsCoherent(ev.post) THEN {"Coherent"} ELSE {})
  \cup (IF ev.raises \notin {"none", "skip"} /\ (ev.post.items # pre.items \/ ObsIdx(ev.post) # pre.idx)
        THEN {"UnchangedOnRaise"} ELSE {})
  \cup (IF ReturnsList(ev.op) /\ ev.raises = "none" /\ ~ObsCoherent(ev.ret) THEN {"RetCoherent"} ELSE {})
  \cup (IF ~Mutating(ev.op) /\ (ev.post.items # pre.items \/ ObsIdx(ev.post) # pre.idx) THEN {"NonMutating"} ELSE {})

Init ==
  /\ tid \in 1..Len(Traces)
  /\ l = 0
  /\ ok = TRUE
  /\ st = [items |-> Traces[tid].start, idx |-> IndexOf(Traces[tid].start)]
  /\ der = IF Traces[tid].der0 = "none" THEN NoDer
           ELSE [present |-> TRUE, items |-> Traces[tid].start, idx |-> IndexOf(Traces[tid].start)]

Next ==
  /\ ok
  /\ l < Len(Traces[tid].events)
  /\ LET ev == Traces[tid].events[l + 1]
         d == IF ev.op.op = "swap" THEN SwapDiffers(ev, st, der) ELSE Differs(ev, st)
         nd == NextDer(ev, st, der)
         iv == (IF ev.op.op = "swap" THEN (IF ~ObsCoherent(ev.post) THEN {"Coherent"} ELSE {}) ELSE InvFails(ev, st))
               \cup DerFails(ev, nd) IN
     /\ (d \cup iv # {}) =>
           PrintT(ToJson([verdict |-> "MISMATCH", tid |-> Traces[tid].tid, l |-> l + 1, op |-> ev.op,
                          fields |-> d, invs |-> iv, tags |-> Tags(ev.op, st),
                          expraises |-> (IF ev.op.op = "swap" THEN "none" ELSE Apply(ev.op, st, IdLess).raises),
                          obsraises |-> ev.raises]))
     \* continue from the logged state as long as it is one the specification can talk about
     /\ ok' = ObsCoherent(ev.post)
     /\ st' = ObsState(ev.post)
     \* continue from the derived list the implementation really has (if it is one the specification can talk about)
     /\ der' = IF nd.present /\ ev.der.present /\ ObsCoherent(ev.der)
               THEN [present |-> TRUE, items |-> ev.der.items, idx |-> ObsIdx(ev.der)] ELSE NoDer
  /\ l' = l + 1
  /\ tid' = tid
=============================================================================
