----------------------------- MODULE GPROps -----------------------------
(***************************************************************************)
(* Variable-free operator module for gene-reaction rules (property C08):   *)
(* cobra.core.gene.GPR  and  cobra.manipulation.delete._GeneRemover.       *)
(*                                                                         *)
(* A rule is an and/or expression TREE over gene identifiers               *)
(*      [k |-> "gene", id |-> g,  ch |-> <<>>]                             *)
(*      [k |-> "and" | "or" | "band" | "bor", id |-> "", ch |-> Seq(Tree)] *)
(*      Absent = [k |-> "none", ...]            the empty rule             *)
(* (one uniform record shape, so that TLC never compares unlike values).   *)
(* "band"/"bor" are and/or nodes that the Python parser produced from the  *)
(* bitwise spellings & and | (ast.BinOp, rewritten by GPRCleaner): they    *)
(* mean the same, but they are a different kind of node in the             *)
(* implementation, which is what `RmQuirk` below is about.                 *)
(*                                                                         *)
(* Text is a sequence of TOKENS: "(", ")", the operator spellings          *)
(* and/AND/&, or/OR/|, and gene identifiers.  Turning tokens into          *)
(* characters (identifier palette, white space) is the driver's job.       *)
(*                                                                         *)
(*   Eval, GenesOf, TT/TTSeq   the Boolean function named by the property  *)
(*   PrintToks                 the token sequence GPR._ast2str produces    *)
(*   Spell, Styles, Spellings  the textual spellings the property allows   *)
(*   ParseTokens               Python's precedence: | & bind tighter than  *)
(*                             and, which binds tighter than or            *)
(*   Rm                        transcription of _GeneRemover               *)
(*   Th...                     the design theorems (checked by GPR.tla)    *)
(* Bug # "none" re-introduces one realistic defect (negative controls).    *)
(***************************************************************************)
EXTENDS Integers, Sequences, FiniteSets, TLC

CONSTANT GeneSeq,       \* the abstract genes as a sequence (fixes the order of truth tables)
         Bug            \* "none" | "rm_hoist_first" | "rm_and_keeps_survivors"
                        \*        | "print_no_inner_parens" | "spell_mix_unparenthesised"

GeneSeq3 == <<"g1", "g2", "g3">>
GeneSeq4 == <<"g1", "g2", "g3", "g4">>

NG == Len(GeneSeq)
Genes == {GeneSeq[i] : i \in 1..NG}

G(g) == [k |-> "gene", id |-> g, ch |-> <<>>]
N(op, ch) == [k |-> op, id |-> "", ch |-> ch]
Absent == [k |-> "none", id |-> "", ch |-> <<>>]
ParseError == [k |-> "error", id |-> "", ch |-> <<>>]

IsGene(t) == t.k = "gene"
IsAnd(t) == t.k \in {"and", "band"}
IsOr(t) == t.k \in {"or", "bor"}
IsOp(t) == IsAnd(t) \/ IsOr(t)

\* ---------------------------------------------------------------- enumeration
RECURSIVE SeqsOfLen(_, _)
SeqsOfLen(S, n) == IF n = 0 THEN {<<>>} ELSE {Append(s, x) : s \in SeqsOfLen(S, n - 1), x \in S}
SeqsBetween(S, lo, hi) == UNION {SeqsOfLen(S, n) : n \in lo..hi}

\* all trees of depth <= d whose nodes have between 2 and w children
RECURSIVE Trees(_, _)
Trees(d, w) ==
  IF d = 0 THEN {G(g) : g \in Genes}
  ELSE LET sub == Trees(d - 1, w) IN
       sub \cup {N(op, ch) : op \in {"and", "or"}, ch \in SeqsBetween(sub, 2, w)}

\* ---------------------------------------------------------------- the Boolean function
RECURSIVE Eval(_, _)
Eval(t, K) ==       \* K: the set of absent genes
  CASE IsGene(t) -> t.id \notin K
    [] IsAnd(t)  -> \A i \in 1..Len(t.ch) : Eval(t.ch[i], K)
    [] IsOr(t)   -> \E i \in 1..Len(t.ch) : Eval(t.ch[i], K)
    [] OTHER     -> TRUE            \* the empty rule: nothing is required

RECURSIVE GenesOf(_)
GenesOf(t) == IF IsGene(t) THEN {t.id} ELSE UNION {GenesOf(t.ch[i]) : i \in 1..Len(t.ch)}

RECURSIVE Pow2(_)
Pow2(n) == IF n = 0 THEN 1 ELSE 2 * Pow2(n - 1)
\* knock-out sets are numbered by bit masks: gene i of GeneSeq is absent iff bit i-1 is set
KOfMask(m) == {GeneSeq[i] : i \in {j \in 1..NG : (m \div Pow2(j - 1)) % 2 = 1}}
MaskOf(K) == CHOOSE m \in 0..(Pow2(NG) - 1) : KOfMask(m) = K
NMasks == Pow2(NG)
TT(t) == [K \in SUBSET Genes |-> Eval(t, K)]
TTSeq(t) == [m \in 1..NMasks |-> Eval(t, KOfMask(m - 1))]

RECURSIVE Depth(_)
Depth(t) == IF ~IsOp(t) THEN 0
            ELSE 1 + (CHOOSE d \in {Depth(t.ch[i]) : i \in 1..Len(t.ch)} :
                         \A e \in {Depth(t.ch[i]) : i \in 1..Len(t.ch)} : e <= d)

\* band -> and, bor -> or (the meaning does not depend on how the operator was spelled)
RECURSIVE Norm(_)
Norm(t) == IF ~IsOp(t) THEN t
           ELSE N(IF IsAnd(t) THEN "and" ELSE "or", [i \in 1..Len(t.ch) |-> Norm(t.ch[i])])

\* ---------------------------------------------------------------- printing
RECURSIVE Concat(_)
Concat(ss) == IF ss = <<>> THEN <<>> ELSE Head(ss) \o Concat(Tail(ss))

\* parts[1] ops[1] parts[2] ops[2] ... parts[n]
RECURSIVE Interleave(_, _)
Interleave(parts, ops) ==
  IF Len(parts) = 1 THEN parts[1]
  ELSE parts[1] \o <<ops[1]>> \o Interleave(Tail(parts), Tail(ops))

\* GPR._ast2str: children joined by " and " / " or "; every operator node below the top level
\* is parenthesised; the empty rule prints as the empty string
RECURSIVE Pr(_, _)
Pr(t, level) ==
  CASE IsGene(t) -> <<t.id>>
    [] IsOp(t) ->
       LET w == IF IsAnd(t) THEN "and" ELSE "or"
           inner == Interleave([i \in 1..Len(t.ch) |-> Pr(t.ch[i], level + 1)],
                               [i \in 1..(Len(t.ch) - 1) |-> w])
       IN IF level > 0 /\ Bug # "print_no_inner_parens" THEN <<"(">> \o inner \o <<")">> ELSE inner
    [] OTHER -> <<>>
PrintToks(t) == Pr(t, 0)

\* ---------------------------------------------------------------- spellings
\* A style = how operators are written x how parentheses are placed.
\*   ops  lower: and/or   upper: AND/OR   bit: & |
\*        mixcase: lower and upper alternate
\*        mixa, mixb: lower, upper and bitwise alternate by depth and position (mixa starts
\*        with a bitwise root over word children, mixb with a word root over bitwise children)
\*   par  canon: as PrintToks (operator nodes below the top in parentheses)
\*        min:   parentheses only where precedence needs them (an `or` under an `and`); a child
\*               with the parent's operator is written without parentheses (the chain is
\*               flattened by the parser -- same function); NOT allowed with mixa/mixb, because
\*               the bitwise operators bind tighter than the words
\*        full:  every gene, every operator node and the whole text once more in parentheses
AndTok(v) == CASE v = 0 -> "and" [] v = 1 -> "AND" [] OTHER -> "&"
OrTok(v) == CASE v = 0 -> "or" [] v = 1 -> "OR" [] OTHER -> "|"
Variant(ops, depth, j) ==
  CASE ops = "lower" -> 0 [] ops = "upper" -> 1 [] ops = "bit" -> 2
    [] ops = "mixcase" -> (depth + j) % 2
    [] ops = "mixa" -> (depth + j + 1) % 3
    [] OTHER -> (depth + j) % 3

RECURSIVE Sp(_, _, _, _, _)
Sp(t, ops, par, depth, underAnd) ==
  IF IsGene(t) THEN (IF par = "full" THEN <<"(", t.id, ")">> ELSE <<t.id>>)
  ELSE LET n == Len(t.ch)
           parts == [i \in 1..n |-> Sp(t.ch[i], ops, par, depth + 1, IsAnd(t))]
           toks == [j \in 1..(n - 1) |-> IF IsAnd(t) THEN AndTok(Variant(ops, depth, j))
                                                     ELSE OrTok(Variant(ops, depth, j))]
           body == Interleave(parts, toks)
           wrap == CASE par = "canon" -> depth > 0
                     [] par = "min"   -> depth > 0 /\ underAnd /\ IsOr(t)
                     [] OTHER         -> TRUE
       IN IF wrap THEN <<"(">> \o body \o <<")">> ELSE body

Spell(t, st) ==
  IF ~IsOp(t) /\ ~IsGene(t) THEN <<>>
  ELSE LET s == Sp(t, st.ops, st.par, 0, FALSE) IN
       IF st.par = "full" THEN <<"(">> \o s \o <<")">> ELSE s

Style(o, p) == [ops |-> o, par |-> p]
StyleSeq ==
  << Style("lower", "canon"), Style("upper", "canon"), Style("bit", "canon"),
     Style("lower", "min"), Style("bit", "min"), Style("mixcase", "min"),
     Style("mixa", "canon"), Style("mixb", "canon"), Style("upper", "full"), Style("mixa", "full") >>
  \o (IF Bug = "spell_mix_unparenthesised" THEN <<Style("mixa", "min")>> ELSE <<>>)
NStyles == 10
Styles == {StyleSeq[i] : i \in 1..Len(StyleSeq)}
Spellings(t) == {Spell(t, st) : st \in Styles}

\* ---------------------------------------------------------------- parsing
\* Recursive descent with Python's precedence  or < and < | < &.  AND/OR are and/or (from_string
\* rewrites them after the first SyntaxError).  and/or chains become ONE n-ary node (ast.BoolOp),
\* the bitwise operators are binary and left associative (ast.BinOp -> "band"/"bor" nodes).
\* Every parser returns [t, i, ok]: the tree, the next position, success.
Tok(s, i) == IF i <= Len(s) THEN s[i] ELSE "<eof>"
OrToks == {"or", "OR"}
AndToks == {"and", "AND"}
Special == {"(", ")", "&", "|", "<eof>"} \cup OrToks \cup AndToks
PR(t, i, ok) == [t |-> t, i |-> i, ok |-> ok]
PFail(i) == PR(ParseError, i, FALSE)

RECURSIVE POr(_, _), POrRest(_, _, _), PAnd(_, _), PAndRest(_, _, _),
          PBor(_, _), PBorRest(_, _, _), PBand(_, _), PBandRest(_, _, _), PAtom(_, _)

POr(s, i) == LET a == PAnd(s, i) IN
             IF a.ok /\ Tok(s, a.i) \in OrToks THEN POrRest(s, a.i, <<a.t>>) ELSE a
POrRest(s, i, acc) ==                   \* s[i] is an or-token
  LET b == PAnd(s, i + 1) IN
  IF ~b.ok THEN b
  ELSE IF Tok(s, b.i) \in OrToks THEN POrRest(s, b.i, Append(acc, b.t))
  ELSE PR(N("or", Append(acc, b.t)), b.i, TRUE)

PAnd(s, i) == LET a == PBor(s, i) IN
              IF a.ok /\ Tok(s, a.i) \in AndToks THEN PAndRest(s, a.i, <<a.t>>) ELSE a
PAndRest(s, i, acc) ==
  LET b == PBor(s, i + 1) IN
  IF ~b.ok THEN b
  ELSE IF Tok(s, b.i) \in AndToks THEN PAndRest(s, b.i, Append(acc, b.t))
  ELSE PR(N("and", Append(acc, b.t)), b.i, TRUE)

PBor(s, i) == LET a == PBand(s, i) IN
              IF a.ok /\ Tok(s, a.i) = "|" THEN PBorRest(s, a.i, a.t) ELSE a
PBorRest(s, i, left) ==
  LET b == PBand(s, i + 1) IN
  IF ~b.ok THEN b
  ELSE LET node == N("bor", <<left, b.t>>) IN
       IF Tok(s, b.i) = "|" THEN PBorRest(s, b.i, node) ELSE PR(node, b.i, TRUE)

PBand(s, i) == LET a == PAtom(s, i) IN
               IF a.ok /\ Tok(s, a.i) = "&" THEN PBandRest(s, a.i, a.t) ELSE a
PBandRest(s, i, left) ==
  LET b == PAtom(s, i + 1) IN
  IF ~b.ok THEN b
  ELSE LET node == N("band", <<left, b.t>>) IN
       IF Tok(s, b.i) = "&" THEN PBandRest(s, b.i, node) ELSE PR(node, b.i, TRUE)

PAtom(s, i) ==
  IF Tok(s, i) = "("
  THEN LET e == POr(s, i + 1) IN
       IF e.ok /\ Tok(s, e.i) = ")" THEN PR(e.t, e.i + 1, TRUE) ELSE PFail(i)
  ELSE IF Tok(s, i) \in Special THEN PFail(i)
  ELSE PR(G(Tok(s, i)), i + 1, TRUE)

\* the tree as the implementation holds it (with band/bor nodes)
ParseShape(s) ==
  IF s = <<>> THEN Absent
  ELSE LET r == POr(s, 1) IN IF r.ok /\ r.i = Len(s) + 1 THEN r.t ELSE ParseError
ParseTokens(s) == Norm(ParseShape(s))
WellFormed(s) == ParseShape(s).k # "error"

\* ---------------------------------------------------------------- gene removal
\* _GeneRemover: a removed gene disappears; an `and` that lost a child disappears; an `or`
\* keeps its surviving children; a node left with a single child is replaced by that child.
\* quirk = TRUE: the remover does not descend into band/bor nodes (see known finding
\* gpr-bitop-tuple: their `values` is a tuple, which ast.NodeTransformer.generic_visit skips).
RECURSIVE RmGen(_, _, _)
RmGen(t, K, quirk) ==
  CASE IsGene(t) -> IF t.id \in K THEN Absent ELSE t
    [] ~IsOp(t) -> t
    [] quirk /\ t.k \in {"band", "bor"} -> t
    [] OTHER ->
       LET all == [i \in 1..Len(t.ch) |-> RmGen(t.ch[i], K, quirk)]
           kept == SelectSeq(all, LAMBDA x : x.k # "none")
       IN IF Len(kept) = 0 THEN Absent
          ELSE IF Len(kept) < Len(t.ch) /\ IsAnd(t) /\ Bug # "rm_and_keeps_survivors" THEN Absent
          ELSE IF Len(kept) = 1 THEN (IF Bug = "rm_hoist_first" THEN t.ch[1] ELSE kept[1])
          ELSE [t EXCEPT !.ch = kept]
Rm(t, K) == RmGen(t, K, FALSE)
RmQuirk(t, K) == RmGen(t, K, TRUE)

\* ---------------------------------------------------------------- design theorems
\* and/or only: losing one more gene never enables a rule (hence, by induction, losing more
\* genes never does); only the genes that occur matter
ThMonotone(t) == \A K \in SUBSET Genes : \A g \in Genes \ K : Eval(t, K \cup {g}) => Eval(t, K)
ThGenes(t) == LET gs == GenesOf(t) IN \A K \in SUBSET Genes : Eval(t, K) = Eval(t, K \cap gs)

\* removal: the rule disappears exactly when the reaction cannot be catalysed any more;
\* otherwise the new rule is the old rule with the genes of K absent, and mentions none of them
ThRemove(t) ==
  LET gs == GenesOf(t) IN
  \A K \in SUBSET Genes :
    LET r == Rm(t, K) IN
    /\ (r = Absent) = ~Eval(t, K)
    /\ GenesOf(r) \subseteq gs \ K
    /\ Eval(t, K) => \A K2 \in SUBSET Genes : Eval(r, K2) = Eval(t, K \cup K2)
\* removing one more gene after K is removing K and that gene at once (hence, by induction,
\* removing in any number of steps is removing the union; GPR!InvRemoved checks the general
\* statement on every reachable removal state)
ThRemoveCompose(t) ==
  \A K \in SUBSET Genes : \A g \in Genes \ K : Rm(Rm(t, K), {g}) = Rm(t, K \cup {g})

\* text: printing and parsing again gives the very same tree; every allowed spelling parses to
\* a tree with the same truth table and gene set, whose printed form is a fixed point
ThPrintParse(t) == ParseTokens(PrintToks(t)) = t
ThSpell(t) ==
  LET tt == TTSeq(t) gs == GenesOf(t) IN
  \A st \in Styles :
    LET p == ParseShape(Spell(t, st)) IN
    /\ p.k # "error"
    /\ TTSeq(p) = tt
    /\ GenesOf(p) = gs
    /\ ParseTokens(PrintToks(p)) = Norm(p)
\* the quirk changes nothing for rules written with words only
ThQuirkOnlyBitwise(t) == \A K \in SUBSET Genes : RmQuirk(t, K) = Rm(t, K)

AllTheorems(t) ==
  /\ ThMonotone(t) /\ ThGenes(t) /\ ThRemove(t) /\ ThRemoveCompose(t)
  /\ ThPrintParse(t) /\ ThSpell(t) /\ ThQuirkOnlyBitwise(t)
=============================================================================
