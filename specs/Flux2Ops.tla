----------------------------- MODULE Flux2Ops -----------------------------
(***************************************************************************)
(* Variable-free operator module for the SECONDARY analyses of cobrapy on  *)
(* the exact integer-lattice oracle of FluxLatticeOps (instance record M:  *)
(* see the header there).  Properties C09 (pFBA / linear MOMA / ROOM),     *)
(* C06 (deletions), C18 (medium), C20 (summaries).                         *)
(*                                                                         *)
(* WHY THE LATTICE ANSWERS ARE THE REAL ANSWERS (in addition to the header *)
(* of FluxLatticeOps: unit-network S is totally unimodular, the polyhedron *)
(* P = {S v = 0, lb <= v <= ub} with integer bounds is integral and stays  *)
(* integral under bound-type restrictions and on faces):                   *)
(*  (a) a separable convex piecewise-linear objective sum_r f_r(v_r) whose *)
(*      breakpoints are integers has an integral minimiser over P: cut P   *)
(*      by v_r <= b / v_r >= b at the breakpoints (bound-type, cells stay  *)
(*      integral), the objective is linear on each cell.  This covers      *)
(*      sum |v_r| (pFBA, breakpoint 0), sum |v_r - ref_r| (linear MOMA,    *)
(*      integer ref) and the relaxed ROOM cost (breakpoint ref_r).         *)
(*      The argmin set is a union of faces of cells, so the range of a     *)
(*      linear function (growth) over it is attained at integer points.    *)
(*  (b) ROOM with the binaries y FIXED is P plus bound-type restrictions   *)
(*      (integer band ends for integer delta, epsilon, ref): non-empty iff *)
(*      it holds an integer point.  So min |Y| over the lattice is exact.  *)
(*  (c) the same for component-minimal media (support of imports fixed).   *)
(* All of this needs FINITE bounds when extra breakpoints are introduced   *)
(* (the clipping box of FluxLatticeOps only covers the vertices of P), see *)
(* the Decidable_* predicates.                                             *)
(***************************************************************************)
EXTENDS FluxLatticeOps

CONSTANT Bug      \* "none", or the name of a negative control (a realistic defect re-introduced
                  \* in the FORMULATION operators below; TLC must then reject a design theorem)

RECURSIVE Gcd(_, _)
Gcd(a, b) == IF b = 0 THEN a ELSE Gcd(b, a % b)
Lcm(a, b) == (a * b) \div Gcd(a, b)
RECURSIVE LcmUpTo(_, _)
LcmUpTo(a, k) == IF k = 0 THEN 1 ELSE Lcm(a[k], LcmUpTo(a, k - 1))
LcmSeq(a) == LcmUpTo(a, Len(a))
Mask(M, R) == [r \in RIdx(M) |-> IF r \in R THEN 1 ELSE 0]
MaskSet(mask) == {r \in 1..Len(mask) : mask[r] = 1}

\* =========================================================================
\* variants of the FluxLatticeOps operators that take the feasible lattice F = Feasible(M) as an
\* argument (F does not depend on the objective; the callers compute it once per model state)
\* =========================================================================
InfeasibleF(F, M) == ~BoundsOrdered(M) \/ F = {}
UnboundedF(F, M) == ~InfeasibleF(F, M) /\ ~AllFinite(M) /\ \E z \in Rays(M) : Improves(M.c, M.dir, z)
HasOptF(F, M) == ~InfeasibleF(F, M) /\ ~UnboundedF(F, M)
OptF(F, M) == OptIn(F, M.c, M.dir)
ArgOptF(F, M) == LET o == OptF(F, M) IN {v \in F : Dot(M.c, v) = o}
OtherDir(M) == IF M.dir = "max" THEN "min" ELSE "max"
\* FracIsBound of FluxLatticeOps (same three cases)
FracIsBoundF(F, M, num, den, opt) ==
  \/ num = den
  \/ /\ Cardinality(ObjSupport(M)) = 1
     /\ LET r == CHOOSE k \in ObjSupport(M) : TRUE IN (num * opt) % (den * Abs(M.c[r])) = 0
     /\ AllFinite(M)
  \/ LET W == WithObjective(M, M.c, OtherDir(M)) worst == OptF(F, W) IN
     /\ ~UnboundedF(F, W)
     /\ (IF M.dir = "max" THEN den * worst >= num * opt ELSE den * worst <= num * opt)

\* =========================================================================
\* C09  pFBA
\* =========================================================================
\* the vectors that keep the objective at or beyond num/den of its optimum
FracSetIn(F, M, num, den) == LET o == OptIn(F, M.c, M.dir) IN {v \in F : ObjAtLeast(M, num, den, o, v)}
FracSet(M, num, den) == FracSetIn(Feasible(M), M, num, den)
MinL1(M, num, den) == MinL1In(FracSet(M, num, den))

\* FORMULATION (what add_pfba builds): every reaction is a pair of non-negative columns
\* (forward, reverse), flux = forward - reverse, column bounds from update_variable_bounds
\* (DESIGN appendix F); objective = sum of all columns.  Design theorem: its optimum is MinL1.
FwdLo(lb, ub) == IF lb > 0 THEN lb ELSE 0
FwdHi(lb, ub) == IF ub < 0 THEN 0 ELSE ub
RevLo(lb, ub) == IF ub < 0 THEN -ub ELSE 0
RevHi(lb, ub) == IF lb > 0 THEN 0 ELSE -lb
\* all (forward, reverse) pairs of reaction r that represent the net flux x
SplitCosts(M, r, x) ==
  {IF Bug = "pfba_forward_only" THEN f ELSE f + (f - x) :
      f \in {g \in FwdLo(M.lb[r], M.ub[r])..FwdHi(M.lb[r], M.ub[r]) :
                g - x >= RevLo(M.lb[r], M.ub[r]) /\ g - x <= RevHi(M.lb[r], M.ub[r])}}
SplitCost(M, v) == SumSeq([r \in RIdx(M) |-> SetMin(SplitCosts(M, r, v[r]))])
SplitMinL1(M, num, den) == SetMin({SplitCost(M, v) : v \in FracSet(M, num, den)})

\* pFBA is in scope for a model with an optimum; fractions below 1 only when the optimum has
\* the sign of the direction ("fraction_of_optimum in [0,1] (optimum >= 0)")
InScope_pfba(M, num, den) == InScope_C05(M, num, den)
Decidable_pfba(M, num, den) == Decidable(M, [kind |-> "range", num |-> num, den |-> den])
\* the same with the lattice handed in
InScope_pfbaF(F, M, num, den) ==
  /\ HasOptF(F, M)
  /\ num >= 0 /\ num <= den /\ den > 0
  /\ (num = den \/ SignOK(M, OptF(F, M)))
Decidable_pfbaF(F, M, num, den) == IsUnitNetwork(M) /\ HasOptF(F, M) /\ FracIsBoundF(F, M, num, den, OptF(F, M))

\* =========================================================================
\* C09  linear MOMA
\* =========================================================================
Dist(v, ref) == SumSeq([r \in 1..Len(v) |-> Abs(v[r] - ref[r])])
MinDistIn(F, ref) == SetMin({Dist(v, ref) : v \in F})
ArgMinDistIn(F, ref) == LET d == MinDistIn(F, ref) IN {v \in F : Dist(v, ref) = d}
\* growth (value of the original objective) over the argmin face: <<lo, hi>>
GrowthIntervalIn(F, ref, c) == LET vals == {Dot(c, v) : v \in ArgMinDistIn(F, ref)} IN <<SetMin(vals), SetMax(vals)>>

\* FORMULATION (add_moma + add_absolute_expression): a column d_r >= 0 per reaction with
\*    flux_r - d_r <= ref_r   and   flux_r + d_r >= ref_r ;   objective = sum d_r
AbsVarMin(x, ref) ==
  LET diff == IF Bug = "moma_difference_sign" THEN -ref ELSE ref
      ok(d) == x - d <= diff /\ x + d >= diff IN
  SetMin({d \in 0..(Abs(x) + Abs(ref)) : ok(d)})
AbsFormMinDistIn(F, ref) == SetMin({SumSeq([r \in 1..Len(v) |-> AbsVarMin(v[r], ref[r])]) : v \in F})

\* =========================================================================
\* C09  ROOM
\* =========================================================================
BandLo(x, delta, eps) == x - delta * Abs(x) - eps
BandHi(x, delta, eps) == x + delta * Abs(x) + eps
Outside(v, ref, delta, eps) ==
  {r \in 1..Len(v) : v[r] < BandLo(ref[r], delta, eps) \/ v[r] > BandHi(ref[r], delta, eps)}
RoomOptIn(F, ref, delta, eps) == SetMin({Cardinality(Outside(v, ref, delta, eps)) : v \in F})

\* FORMULATION (add_room, MILP): binary y_r with
\*    flux_r - y_r (ub_r - w_u) <= w_u     flux_r - y_r (lb_r - w_l) >= w_l
RoomWu(x, delta, eps) == IF Bug = "room_no_abs" THEN x + delta * x + eps ELSE BandHi(x, delta, eps)
RoomWl(x, delta, eps) == IF Bug = "room_no_abs" THEN x - delta * x - eps ELSE BandLo(x, delta, eps)
RoomYMin(M, r, x, ref, delta, eps) ==
  LET wu == RoomWu(ref, delta, eps) wl == RoomWl(ref, delta, eps)
      ok(y) == x - y * (M.ub[r] - wu) <= wu /\ x - y * (M.lb[r] - wl) >= wl
      Y == {y \in 0..1 : ok(y)} IN
  IF Y = {} THEN 99 ELSE SetMin(Y)         \* 99: this flux vector is not feasible in the formulation
BigMRoomOptIn(M, F, ref, delta, eps) ==
  SetMin({SumSeq([r \in RIdx(M) |-> RoomYMin(M, r, v[r], ref[r], delta, eps)]) : v \in F})

\* linear ROOM: y_r \in [0,1], delta = epsilon = 0; with flux inside the bounds the two rows say
\*    y_r >= (v - ref)/(ub - ref) when v > ref,   y_r >= (ref - v)/(ref - lb) when v < ref
\* (ub, lb are the bounds in the state add_room sees, e.g. (0,0) for a knocked-out reaction).
\* The value is the rational <<num, den>> with the common denominator LinRoomDen.
LinDenUp(M, r, ref) == IF M.ub[r] > ref[r] THEN M.ub[r] - ref[r] ELSE 1
LinDenDn(M, r, ref) == IF ref[r] > M.lb[r] THEN ref[r] - M.lb[r] ELSE 1
LinRoomDen(M, ref) == Lcm(LcmSeq([r \in RIdx(M) |-> LinDenUp(M, r, ref)]), LcmSeq([r \in RIdx(M) |-> LinDenDn(M, r, ref)]))
\* D * cost of reaction r at (possibly scaled) flux x, reference point p = ref * scale
LinCostTimes(D, M, r, ref, x, p) ==
  IF x > p THEN (D \div LinDenUp(M, r, ref)) * (x - p)
  ELSE IF x < p THEN (D \div LinDenDn(M, r, ref)) * (p - x) ELSE 0
LinRoomNumOf(M, ref, D, v) == SumSeq([r \in RIdx(M) |-> LinCostTimes(D, M, r, ref, v[r], ref[r])])
LinRoomOptIn(M, F, ref) == LET D == LinRoomDen(M, ref) IN <<SetMin({LinRoomNumOf(M, ref, D, v) : v \in F}), D>>

\* add_room additionally caps the OLD objective at the reference solution's objective_value
\* (`room_old_objective`, ub = solution.objective_value); not part of the documented problem.
\* The cap is inactive when no feasible vector exceeds it.
RoomCapBinding(F, c, cap) == \E v \in F : Dot(c, v) > cap
Decidable_adjust(M) == IsUnitNetwork(M) /\ AllFinite(M)      \* MOMA / ROOM (extra breakpoints)

\* C09 quantifier: feasible model, reference optimal for the model before the knock-out
InScope_adjust(WT, KO, ref) == HasOpt(WT) /\ ref \in ArgOpt(WT) /\ ~Infeasible(KO)

\* =========================================================================
\* fixed-point membership checks for returned vectors (scale 10^6, see FluxLatticeOps)
\* =========================================================================
FxL1(vx) == SumSeq([r \in 1..Len(vx) |-> Abs(vx[r])])
FxDist(vx, ref) == SumSeq([r \in 1..Len(vx) |-> Abs(vx[r] - ref[r] * Scale)])
\* den * c.vx >= num * opt (resp. <=), in fixed point
FxObjAtLeast(M, num, den, opt, vx) ==
  LET t == den * FxObjTol(M) IN
  IF M.dir = "max" THEN den * Dot(M.c, vx) >= num * opt * Scale - t ELSE den * Dot(M.c, vx) <= num * opt * Scale + t
\* reactions DEFINITELY outside the band (beyond it by more than the tolerance); delta, eps in
\* parts per million of one flux unit (fixed point), so that the defaults 0.03 / 0.001 are exact
FxOutside(vx, ref, deltaPpm, epsFx) ==
  {r \in 1..Len(vx) : \/ vx[r] < ref[r] * Scale - deltaPpm * Abs(ref[r]) - epsFx - Tol
                      \/ vx[r] > ref[r] * Scale + deltaPpm * Abs(ref[r]) + epsFx + Tol}
FxLinRoomNum(M, ref, D, vx) == SumSeq([r \in RIdx(M) |-> LinCostTimes(D, M, r, ref, vx[r], ref[r] * Scale)])
=============================================================================
