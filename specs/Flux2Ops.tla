----------------------------- MODULE Flux2Ops -----------------------------
(***************************************************************************)
(* Variable-free operator module for the SECONDARY analyses of cobrapy on  *)
(* the exact integer-lattice oracle of FluxLatticeOps (instance record M:  *)
(* see the header there).  Properties C09 (pFBA / linear MOMA / ROOM),     *)
(* C06 (deletions), C18 (medium), C20 (summaries).                         *)
(*                                                                         *)
(* WHY THE LATTICE ANSWERS ARE THE REAL ANSWERS (in addition to the header *)
(* of FluxLatticeOps: unit-network S is totally unimodular, the polyhedron *)
(* P = {S v = 0, lb <= v <= ub} with integer bounds is integral and stays  *)
(* integral under bound-type restrictions and on faces):                   *)
(*  (a) a separable convex piecewise-linear objective sum_r f_r(v_r) whose *)
(*      breakpoints are integers has an integral minimiser over P: cut P   *)
(*      by v_r <= b / v_r >= b at the breakpoints (bound-type, cells stay  *)
(*      integral), the objective is linear on each cell.  This covers      *)
(*      sum |v_r| (pFBA, breakpoint 0), sum |v_r - ref_r| (linear MOMA,    *)
(*      integer ref) and the relaxed ROOM cost (breakpoint ref_r).         *)
(*      The argmin set is a union of faces of cells, so the range of a     *)
(*      linear function (growth) over it is attained at integer points.    *)
(*  (b) ROOM with the binaries y FIXED is P plus bound-type restrictions   *)
(*      (integer band ends for integer delta, epsilon, ref): non-empty iff *)
(*      it holds an integer point.  So min |Y| over the lattice is exact.  *)
(*  (c) the same for component-minimal media (support of imports fixed).   *)
(* All of this needs FINITE bounds when extra breakpoints are introduced   *)
(* (the clipping box of FluxLatticeOps only covers the vertices of P), see *)
(* the Decidable_* predicates.                                             *)
(***************************************************************************)
EXTENDS FluxLatticeOps

CONSTANT Bug      \* "none", or the name of a negative control (a realistic defect re-introduced
                  \* in the FORMULATION operators below; TLC must then reject a design theorem)

RECURSIVE Gcd(_, _)
Gcd(a, b) == IF b = 0 THEN a ELSE Gcd(b, a % b)
Lcm(a, b) == (a * b) \div Gcd(a, b)
RECURSIVE LcmUpTo(_, _)
LcmUpTo(a, k) == IF k = 0 THEN 1 ELSE Lcm(a[k], LcmUpTo(a, k - 1))
LcmSeq(a) == LcmUpTo(a, Len(a))
Mask(M, R) == [r \in RIdx(M) |-> IF r \in R THEN 1 ELSE 0]
MaskSet(mask) == {r \in 1..Len(mask) : mask[r] = 1}

\* =========================================================================
\* variants of the FluxLatticeOps operators that take the feasible lattice F = Feasible(M) as an
\* argument (F does not depend on the objective; the callers compute it once per model state)
\* =========================================================================
InfeasibleF(F, M) == ~BoundsOrdered(M) \/ F = {}
UnboundedF(F, M) == ~InfeasibleF(F, M) /\ ~AllFinite(M) /\ \E z \in Rays(M) : Improves(M.c, M.dir, z)
HasOptF(F, M) == ~InfeasibleF(F, M) /\ ~UnboundedF(F, M)
OptF(F, M) == OptIn(F, M.c, M.dir)
ArgOptF(F, M) == LET o == OptF(F, M) IN {v \in F : Dot(M.c, v) = o}
OtherDir(M) == IF M.dir = "max" THEN "min" ELSE "max"
\* FracIsBound of FluxLatticeOps (same three cases)
FracIsBoundF(F, M, num, den, opt) ==
  \/ num = den
  \/ /\ Cardinality(ObjSupport(M)) = 1
     /\ LET r == CHOOSE k \in ObjSupport(M) : TRUE IN (num * opt) % (den * Abs(M.c[r])) = 0
     /\ AllFinite(M)
  \/ LET W == WithObjective(M, M.c, OtherDir(M)) worst == OptF(F, W) IN
     /\ ~UnboundedF(F, W)
     /\ (IF M.dir = "max" THEN den * worst >= num * opt ELSE den * worst <= num * opt)

\* =========================================================================
\* C09  pFBA
\* =========================================================================
\* the vectors that keep the objective at or beyond num/den of its optimum
FracSetIn(F, M, num, den) == LET o == OptIn(F, M.c, M.dir) IN {v \in F : ObjAtLeast(M, num, den, o, v)}
FracSet(M, num, den) == FracSetIn(Feasible(M), M, num, den)
MinL1(M, num, den) == MinL1In(FracSet(M, num, den))

\* FORMULATION (what add_pfba builds): every reaction is a pair of non-negative columns
\* (forward, reverse), flux = forward - reverse, column bounds from update_variable_bounds
\* (DESIGN appendix F); objective = sum of all columns.  Design theorem: its optimum is MinL1.
FwdLo(lb, ub) == IF lb > 0 THEN lb ELSE 0
FwdHi(lb, ub) == IF ub < 0 THEN 0 ELSE ub
RevLo(lb, ub) == IF ub < 0 THEN -ub ELSE 0
RevHi(lb, ub) == IF lb > 0 THEN 0 ELSE -lb
\* all (forward, reverse) pairs of reaction r that represent the net flux x
SplitCosts(M, r, x) ==
  {IF Bug = "pfba_forward_only" THEN f ELSE f + (f - x) :
      f \in {g \in FwdLo(M.lb[r], M.ub[r])..FwdHi(M.lb[r], M.ub[r]) :
                g - x >= RevLo(M.lb[r], M.ub[r]) /\ g - x <= RevHi(M.lb[r], M.ub[r])}}
SplitCost(M, v) == SumSeq([r \in RIdx(M) |-> SetMin(SplitCosts(M, r, v[r]))])
SplitMinL1(M, num, den) == SetMin({SplitCost(M, v) : v \in FracSet(M, num, den)})

\* pFBA is in scope for a model with an optimum; fractions below 1 only when the optimum has
\* the sign of the direction ("fraction_of_optimum in [0,1] (optimum >= 0)")
InScope_pfba(M, num, den) == InScope_C05(M, num, den)
Decidable_pfba(M, num, den) == Decidable(M, [kind |-> "range", num |-> num, den |-> den])
\* the same with the lattice handed in
InScope_pfbaF(F, M, num, den) ==
  /\ HasOptF(F, M)
  /\ num >= 0 /\ num <= den /\ den > 0
  /\ (num = den \/ SignOK(M, OptF(F, M)))
Decidable_pfbaF(F, M, num, den) == IsUnitNetwork(M) /\ HasOptF(F, M) /\ FracIsBoundF(F, M, num, den, OptF(F, M))

\* =========================================================================
\* C09  linear MOMA
\* =========================================================================
Dist(v, ref) == SumSeq([r \in 1..Len(v) |-> Abs(v[r] - ref[r])])
MinDistIn(F, ref) == SetMin({Dist(v, ref) : v \in F})
ArgMinDistIn(F, ref) == LET d == MinDistIn(F, ref) IN {v \in F : Dist(v, ref) = d}
\* growth (value of the original objective) over the argmin face: <<lo, hi>>
GrowthIntervalIn(F, ref, c) == LET vals == {Dot(c, v) : v \in ArgMinDistIn(F, ref)} IN <<SetMin(vals), SetMax(vals)>>

\* FORMULATION (add_moma + add_absolute_expression): a column d_r >= 0 per reaction with
\*    flux_r - d_r <= ref_r   and   flux_r + d_r >= ref_r ;   objective = sum d_r
AbsVarMin(x, ref) ==
  LET diff == IF Bug = "moma_difference_sign" THEN -ref ELSE ref
      ok(d) == x - d <= diff /\ x + d >= diff IN
  SetMin({d \in 0..(Abs(x) + Abs(ref)) : ok(d)})
AbsFormMinDistIn(F, ref) == SetMin({SumSeq([r \in 1..Len(v) |-> AbsVarMin(v[r], ref[r])]) : v \in F})

\* =========================================================================
\* C09  ROOM
\* =========================================================================
BandLo(x, delta, eps) == x - delta * Abs(x) - eps
BandHi(x, delta, eps) == x + delta * Abs(x) + eps
Outside(v, ref, delta, eps) ==
  {r \in 1..Len(v) : v[r] < BandLo(ref[r], delta, eps) \/ v[r] > BandHi(ref[r], delta, eps)}
RoomOptIn(F, ref, delta, eps) == SetMin({Cardinality(Outside(v, ref, delta, eps)) : v \in F})

\* FORMULATION (add_room, MILP): binary y_r with
\*    flux_r - y_r (ub_r - w_u) <= w_u     flux_r - y_r (lb_r - w_l) >= w_l
RoomWu(x, delta, eps) == IF Bug = "room_no_abs" THEN x + delta * x + eps ELSE BandHi(x, delta, eps)
RoomWl(x, delta, eps) == IF Bug = "room_no_abs" THEN x - delta * x - eps ELSE BandLo(x, delta, eps)
RoomYMin(M, r, x, ref, delta, eps) ==
  LET wu == RoomWu(ref, delta, eps) wl == RoomWl(ref, delta, eps)
      ok(y) == x - y * (M.ub[r] - wu) <= wu /\ x - y * (M.lb[r] - wl) >= wl
      Y == {y \in 0..1 : ok(y)} IN
  IF Y = {} THEN 99 ELSE SetMin(Y)         \* 99: this flux vector is not feasible in the formulation
BigMRoomOptIn(M, F, ref, delta, eps) ==
  SetMin({SumSeq([r \in RIdx(M) |-> RoomYMin(M, r, v[r], ref[r], delta, eps)]) : v \in F})

\* linear ROOM: y_r \in [0,1], delta = epsilon = 0; with flux inside the bounds the two rows say
\*    y_r >= (v - ref)/(ub - ref) when v > ref,   y_r >= (ref - v)/(ref - lb) when v < ref
\* (ub, lb are the bounds in the state add_room sees, e.g. (0,0) for a knocked-out reaction).
\* The value is the rational <<num, den>> with the common denominator LinRoomDen.
LinDenUp(M, r, ref) == IF M.ub[r] > ref[r] THEN M.ub[r] - ref[r] ELSE 1
LinDenDn(M, r, ref) == IF ref[r] > M.lb[r] THEN ref[r] - M.lb[r] ELSE 1
LinRoomDen(M, ref) == Lcm(LcmSeq([r \in RIdx(M) |-> LinDenUp(M, r, ref)]), LcmSeq([r \in RIdx(M) |-> LinDenDn(M, r, ref)]))
\* D * cost of reaction r at (possibly scaled) flux x, reference point p = ref * scale
LinCostTimes(D, M, r, ref, x, p) ==
  IF x > p THEN (D \div LinDenUp(M, r, ref)) * (x - p)
  ELSE IF x < p THEN (D \div LinDenDn(M, r, ref)) * (p - x) ELSE 0
LinRoomNumOf(M, ref, D, v) == SumSeq([r \in RIdx(M) |-> LinCostTimes(D, M, r, ref, v[r], ref[r])])
LinRoomOptIn(M, F, ref) == LET D == LinRoomDen(M, ref) IN <<SetMin({LinRoomNumOf(M, ref, D, v) : v \in F}), D>>

\* add_room additionally caps the OLD objective at the reference solution's objective_value
\* (`room_old_objective`, ub = solution.objective_value); not part of the documented problem.
\* The cap is inactive when no feasible vector exceeds it.
RoomCapBinding(F, c, cap) == \E v \in F : Dot(c, v) > cap
Decidable_adjust(M) == IsUnitNetwork(M) /\ AllFinite(M)      \* MOMA / ROOM (extra breakpoints)

\* C09 quantifier: feasible model, reference optimal for the model before the knock-out
InScope_adjust(WT, KO, ref) == HasOpt(WT) /\ ref \in ArgOpt(WT) /\ ~Infeasible(KO)

\* =========================================================================
\* C06  deletions
\* =========================================================================
\* the instance record carries  M.genes : Seq(STRING)  and  M.rules : Seq(rule), one per reaction;
\* a rule is a tree  <<"none">> | <<"g", gene>> | <<"and", t1, t2>> | <<"or", t1, t2>>
\* K = the set of knocked-out (non-functional) gene ids
RECURSIVE EvalRule(_, _)
EvalRule(t, K) ==
  CASE t[1] = "none" -> TRUE
    [] t[1] = "g" -> t[2] \notin K
    [] t[1] = "and" -> IF Bug = "rule_and_as_any" THEN EvalRule(t[2], K) \/ EvalRule(t[3], K)
                       ELSE EvalRule(t[2], K) /\ EvalRule(t[3], K)
    [] t[1] = "or" -> EvalRule(t[2], K) \/ EvalRule(t[3], K)
RECURSIVE RuleGenes(_)
RuleGenes(t) == CASE t[1] = "none" -> {} [] t[1] = "g" -> {t[2]} [] OTHER -> RuleGenes(t[2]) \cup RuleGenes(t[3])
RECURSIVE RuleText(_)
RuleText(t) == CASE t[1] = "none" -> ""
                 [] t[1] = "g" -> t[2]
                 [] OTHER -> "(" \o RuleText(t[2]) \o " " \o t[1] \o " " \o RuleText(t[3]) \o ")"
\* declarative: the reactions whose rule becomes false
GeneKO(M, K) == {r \in RIdx(M) : ~EvalRule(M.rules[r], K)}
\* protocol (Gene.knock_out one gene after the other): the gene becomes non-functional, then every
\* associated reaction that is no longer functional is set to (0, 0)
RECURSIVE SeqGeneKO(_, _, _, _)
SeqGeneKO(M, gs, done, zeroed) ==
  IF gs = <<>> THEN zeroed
  ELSE LET g == Head(gs) nf == done \cup {g}
           assoc == {r \in RIdx(M) : g \in RuleGenes(M.rules[r])}
           newz == IF Bug = "gene_ko_zeroes_all_associated" THEN assoc
                   ELSE {r \in assoc : ~EvalRule(M.rules[r], nf)} IN
       SeqGeneKO(M, Tail(gs), nf, zeroed \cup newz)

\* requested combinations: unordered, repeats collapse (the diagonal of a double deletion is the single)
SeqSet(s) == {s[k] : k \in 1..Len(s)}
Singles(l1) == {{l1[i]} : i \in 1..Len(l1)}
Combinations(l1, l2) ==
  {{l1[i], l2[j]} : <<i, j>> \in {p \in (1..Len(l1)) \X (1..Len(l2)) :
                                    Bug = "combinations_drop_diagonal" => l1[p[1]] # l2[p[2]]}}
\* elements are POSITIONS in M.rxns (entity "reaction") or M.genes (entity "gene")
\* PRIOR KNOCK-OUT STATE of the model when the analysis is called: P = set of gene ids that are already
\* non-functional, pmode = "none" | "ko" (gene.knock_out(): their reactions are already at (0,0)) |
\* "flag" (only gene.functional = False).  A rule is evaluated against EVERY non-functional gene.
\* (pmode = "rewritten": no prior knock-outs; the rules were rewritten in place after an earlier deletion run)
PriorZero(M, P, pmode) == IF pmode = "ko" THEN GeneKO(M, P) ELSE {}
Assoc(M, K) == {r \in RIdx(M) : RuleGenes(M.rules[r]) \cap K # {}}
\* declarative: the reactions whose rule is false once K joins the non-functional genes, plus what is
\* already at (0,0)
GeneDeletionZero(M, K, P, pmode) ==
  PriorZero(M, P, pmode) \cup {r \in Assoc(M, K) : ~EvalRule(M.rules[r], K \cup P)}
\* protocol of _gene_deletion: Gene.knock_out one requested gene after the other, from the prior state
\* (negative control: the rules are evaluated against the REQUESTED genes only)
GeneDeletionProtocol(M, kseq, P, pmode) ==
  IF Bug = "gene_deletion_ignores_prior"
  THEN PriorZero(M, P, pmode) \cup {r \in Assoc(M, SeqSet(kseq)) : ~EvalRule(M.rules[r], SeqSet(kseq))}
  ELSE SeqGeneKO(M, kseq, P, PriorZero(M, P, pmode))
\* with "flag" the state is only meaningful for the property when no rule is already false (otherwise a
\* reaction with a false rule is still active and "the reactions whose rule becomes false" is ambiguous)
InScope_prior(M, P, pmode) == pmode = "flag" => GeneKO(M, P) = {}
KOReactionsP(M, entity, comb, P, pmode) ==
  IF entity = "reaction" THEN comb \cup PriorZero(M, P, pmode)
  ELSE GeneDeletionZero(M, {M.genes[g] : g \in comb}, P, pmode)
RowExpectP(M, entity, comb, P, pmode) ==
  LET KO == KnockOut(M, KOReactionsP(M, entity, comb, P, pmode)) F == Feasible(KO) h == HasOptF(F, KO) IN
  [hasopt |-> h, opt |-> IF h THEN OptF(F, KO) ELSE 0, F |-> F]
KOReactions(M, entity, comb) == KOReactionsP(M, entity, comb, {}, "none")
RowExpect(M, entity, comb) == RowExpectP(M, entity, comb, {}, "none")
Universe(M, entity) == IF entity = "reaction" THEN RIdx(M) ELSE 1..Len(M.genes)
\* growth is not-a-number or below tnum/tden
EssentialP(M, entity, tnum, tden, P, pmode) ==
  {x \in Universe(M, entity) : LET e == RowExpectP(M, entity, {x}, P, pmode) IN ~e.hasopt \/ e.opt * tden < tnum}
Essential(M, entity, tnum, tden) == EssentialP(M, entity, tnum, tden, {}, "none")
\* the pFBA optimum is a single point (then the default reference of the MOMA deletions is determined)
PfbaPoints(F, M) == LET X == FracSetIn(F, M, 1, 1) m == MinL1In(X) IN {v \in X : L1(v) = m}

\* =========================================================================
\* C18  medium
\* =========================================================================
\* the instance record carries  M.comp : Seq("e" | "c"), the compartment of every metabolite.
\* Exchanges: boundary reactions of an external metabolite (find_boundary_types with plain ids).
MetOf(M, r) == CHOOSE m \in MIdx(M) : M.S[r][m] # 0
Exchanges(M) == {r \in Boundary(M) : M.comp[MetOf(M, r)] = "e"}
\* written as export (`X_e -->`, the metabolite is a reactant) or as import (`--> X_e`)
ExportWritten(M, r) == M.S[r][MetOf(M, r)] < 0
Absent == -1                       \* "not in the medium dictionary"
\* import bound in the direction of metabolite creation, import flux of a flux value x
ImportBound(M, r) == IF ExportWritten(M, r) THEN (IF FinLB(M, r) THEN -M.lb[r] ELSE Inf)
                     ELSE (IF FinUB(M, r) THEN M.ub[r] ELSE Inf)
ImportOf(M, r, x) == IF ExportWritten(M, r) THEN MaxOf(-x, 0) ELSE MaxOf(x, 0)
\* media are sequences over the reactions: the value, or Absent
GetMedium(M) == [r \in RIdx(M) |-> IF r \in Exchanges(M) /\ ImportBound(M, r) > 0 THEN ImportBound(M, r) ELSE Absent]
SetImport(M, r, b) ==       \* the bounds <<lb, ub>> of exchange r with its import bound set to b
  IF (IF Bug = "medium_is_export_inverted" THEN ~ExportWritten(M, r) ELSE ExportWritten(M, r))
  THEN <<-b, M.ub[r]>> ELSE <<M.lb[r], b>>
SetMedium(M, d) ==
  LET nb(r) == IF r \notin Exchanges(M) THEN <<M.lb[r], M.ub[r]>>
               ELSE IF d[r] # Absent THEN SetImport(M, r, d[r])
               ELSE SetImport(M, r, MinOf(0, ImportBound(M, r))) IN
  [M EXCEPT !.lb = [r \in RIdx(M) |-> nb(r)[1]], !.ub = [r \in RIdx(M) |-> nb(r)[2]]]
\* C18 quantifier: a sub-dictionary of the exchanges with non-negative values; the export side of
\* every exchange interval contains 0 (otherwise the documented assignment contradicts lb <= ub)
ExportSideOK(M) == \A r \in Exchanges(M) : IF ExportWritten(M, r) THEN M.ub[r] >= 0 ELSE M.lb[r] <= 0
InScope_setmedium(M, d) ==
  /\ ExportSideOK(M)
  /\ \A r \in RIdx(M) : d[r] # Absent => (r \in Exchanges(M) /\ d[r] >= 0)
PositivePart(M, d) == [r \in RIdx(M) |-> IF d[r] # Absent /\ d[r] > 0 THEN d[r] ELSE Absent]

\* minimal media.  open = 0: the model as it is; open = k > 0: every exchange gets (-k, k)
Opened(M, k) == IF k = 0 THEN M
                ELSE [M EXCEPT !.lb = [r \in RIdx(M) |-> IF r \in Exchanges(M) THEN -k ELSE M.lb[r]],
                               !.ub = [r \in RIdx(M) |-> IF r \in Exchanges(M) THEN k ELSE M.ub[r]]]
TotalImport(M, v) == SumSeq([r \in RIdx(M) |-> IF r \in Exchanges(M) THEN ImportOf(M, r, v[r]) ELSE 0])
Components(M, v) == {r \in Exchanges(M) : ImportOf(M, r, v[r]) > 0}
\* the vectors that reach the requested objective value (objective >= g whatever the direction)
Reaching(F, M, g) == {v \in F : Dot(M.c, v) >= g}
\* some medium suffices: exact for every integer objective (the LP maximum is attained at a lattice point)
CanReach(F, M, g) == F # {} /\ (Reaching(F, M, g) # {} \/ UnboundedF(F, WithObjective(M, M.c, "max")))
MinMediumIn(G, M) == SetMin({TotalImport(M, v) : v \in G})
MinComponentsIn(G, M) ==
  SetMin({IF Bug = "components_counts_exports" THEN Cardinality({r \in Exchanges(M) : v[r] # 0})
          ELSE Cardinality(Components(M, v)) : v \in G})
\* "objective >= g" is a bound (so that the total-import optimum is integral): single-reaction objective
\* whose coefficient divides g, or a restriction that no feasible vector violates, or the optimal face
ReachIsBound(F, M, g) ==
  \/ /\ Cardinality(ObjSupport(M)) = 1
     /\ LET r == CHOOSE k \in ObjSupport(M) : TRUE IN g % Abs(M.c[r]) = 0
  \/ \A v \in F : Dot(M.c, v) >= g
  \/ g = OptIn(F, M.c, "max")
Decidable_minmedium(F, M, g) == IsUnitNetwork(M) /\ AllFinite(M) /\ ReachIsBound(F, M, g)
Decidable_mincomponents(M) == IsUnitNetwork(M) /\ AllFinite(M)

\* =========================================================================
\* C20  summaries (pure functions of the model, an integer solution and integer ranges)
\* =========================================================================
\* rows are records [rxn, met, factor, flux, lo, hi]; rng = Seq(<<min, max>>) per reaction or <<>>
ScaledRange(rng, r, factor) ==
  IF rng = <<>> THEN <<0, 0>>
  ELSE LET a == rng[r][1] * factor b == rng[r][2] * factor IN
       IF (IF Bug = "summary_no_minmax_swap" THEN FALSE ELSE factor < 0) THEN <<b, a>> ELSE <<a, b>>
SummaryRow(M, sol, rng, r, m) ==
  LET f == M.S[r][m] sr == ScaledRange(rng, r, f) IN
  [rxn |-> r, met |-> m, factor |-> f, flux |-> sol[r] * f, lo |-> sr[1], hi |-> sr[2]]
\* producing / uptake side: positive scaled flux, or zero flux with a positive coefficient
OnPlusSide(row) == row.flux > 0 \/ (row.flux = 0 /\ row.factor > 0)
ModelRows(M, sol, rng) == {SummaryRow(M, sol, rng, r, MetOf(M, r)) : r \in Boundary(M)}
MetRows(M, sol, rng, m) == {SummaryRow(M, sol, rng, r, m) : r \in {k \in RIdx(M) : M.S[k][m] # 0}}
\* objective value shown by a model summary: current coefficients c at the solution's fluxes; `carried` is
\* the objective_value attribute of the Solution object (negative control: it is trusted)
ShownObjective(c, sol, carried) == IF Bug = "summary_trusts_objective_value" THEN carried ELSE Dot(c, sol)
SumFlux(rows) == LET RECURSIVE go(_) go(R) == IF R = {} THEN 0 ELSE LET x == CHOOSE y \in R : TRUE IN Abs(x.flux) + go(R \ {x}) IN go(rows)

\* =========================================================================
\* fixed-point membership checks for returned vectors (scale 10^6, see FluxLatticeOps)
\* =========================================================================
FxL1(vx) == SumSeq([r \in 1..Len(vx) |-> Abs(vx[r])])
FxDist(vx, ref) == SumSeq([r \in 1..Len(vx) |-> Abs(vx[r] - ref[r] * Scale)])
\* den * c.vx >= num * opt (resp. <=), in fixed point
FxObjAtLeast(M, num, den, opt, vx) ==
  LET t == den * FxObjTol(M) IN
  IF M.dir = "max" THEN den * Dot(M.c, vx) >= num * opt * Scale - t ELSE den * Dot(M.c, vx) <= num * opt * Scale + t
\* reactions DEFINITELY outside the band (beyond it by more than the tolerance); delta, eps in
\* parts per million of one flux unit (fixed point), so that the defaults 0.03 / 0.001 are exact
FxOutside(vx, ref, deltaPpm, epsFx) ==
  {r \in 1..Len(vx) : \/ vx[r] < ref[r] * Scale - deltaPpm * Abs(ref[r]) - epsFx - Tol
                      \/ vx[r] > ref[r] * Scale + deltaPpm * Abs(ref[r]) + epsFx + Tol}
FxLinRoomNum(M, ref, D, vx) == SumSeq([r \in RIdx(M) |-> LinCostTimes(D, M, r, ref, vx[r], ref[r] * Scale)])
=============================================================================
