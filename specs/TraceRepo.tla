----------------------------- MODULE TraceRepo -----------------------------
(***************************************************************************)
(* Trace validation of what the repository's OWN test suite does to cobra  *)
(* models (recorded by harness/repo_trace_plugin.py, a pytest plugin kept  *)
(* outside the repository).  The tests exercise argument shapes and        *)
(* histories on textbook-sized models that the generated behaviours of     *)
(* CobraModel.tla do not; their own assertions look at one or two          *)
(* attributes.  Here the invariants of the specification are evaluated on  *)
(* EVERY implementation state the suite reaches:                           *)
(*   LPMirrors    (C01) the raw GLPK problem is the flux-balance problem   *)
(*                of the model as it stands                                *)
(*   CrossRefOK   (C02) forward / back references, ownership, lookups      *)
(*   ExitRestores (C03) the digest of content + raw problem after          *)
(*                Model.__exit__ is the one taken at the matching          *)
(*                __enter__, and the exit does not raise                   *)
(*   Stutter      (C13) analyses and read-only calls leave digest and      *)
(*                context depth as they were                               *)
(* The model universe is generic here: identifiers are whatever the model  *)
(* holds; numbers are tokens [s : sign, m : magnitude text] that can be    *)
(* compared and negated (textbook coefficients are not integers).          *)
(* One trace per test; one TLC state per consumed event.                   *)
(***************************************************************************)
EXTENDS Integers, Sequences, FiniteSets, TLC, Json, IOUtils, TLCExt

Traces == JsonDeserialize(IOEnv.TRACE_FILE)

VARIABLES tid, l,
          ctxs,     \* open contexts, oldest first: records [mid, dig] (digest observed at Model.__enter__)
          badm      \* pairs <<mid, invariant>> that failed at the previous event of that model (edge trigger)
vars == <<tid, l, ctxs, badm>>

SeqSet(s) == {s[i] : i \in 1..Len(s)}
NoDup(s) == \A i, j \in 1..Len(s) : s[i] = s[j] => i = j

\* ------------------------------------------------------------ number tokens
Zero == [s |-> 0, m |-> "0"]
IsZero(x) == x.s = 0 /\ x.m = "0"
Neg(x) == [s |-> 0 - x.s, m |-> x.m]
Undefined == [s |-> 9, m |-> "both-directions-bounded-away-from-zero"]
\* update_variable_bounds splits (lb, ub) over the forward / reverse column so that one of every pair
\* (forward lower, reverse upper) and (forward upper, reverse lower) is zero: the net range is then
NetLo(c) == IF IsZero(c.ru) THEN c.fl ELSE IF IsZero(c.fl) THEN Neg(c.ru) ELSE Undefined
NetHi(c) == IF IsZero(c.rl) THEN c.fu ELSE IF IsZero(c.fu) THEN Neg(c.rl) ELSE Undefined

Coef(f, k) == IF k \in DOMAIN f THEN f[k] ELSE Zero

\* ------------------------------------------------------------ invariants on one projected model
LPMirrors(o) ==
  LET rx == SeqSet(o.rx) mets == SeqSet(o.mets) IN
  /\ \A r \in rx :
        LET c == o.lp.cols[r] IN
        /\ c.f = 1 /\ c.r = 1
        /\ NetLo(c) = o.lb[r] /\ NetHi(c) = o.ub[r]
  /\ \A m \in mets :
        /\ m \in DOMAIN o.lp.rows
        /\ LET row == o.lp.rows[m] IN
           \* (a user-added variable may take part in a mass balance: add_lp_feasibility is documented to add
           \* slack variables to every one; without user-added variables nothing else may be in the row)
           /\ row.n = 1 /\ IsZero(row.lb) /\ IsZero(row.ub) /\ (row.other = 0 \/ o.lp.nx > 0)
           /\ \A r \in rx : /\ Coef(row.cf, r) = Coef(o.S[r], m)
                            /\ Coef(row.cr, r) = Neg(Coef(o.S[r], m))
           /\ DOMAIN row.cf \subseteq rx /\ DOMAIN row.cr \subseteq rx
  /\ o.lp.dir = o.dir

CrossRefOK(o) ==
  LET rx == SeqSet(o.rx) mets == SeqSet(o.mets) genes == SeqSet(o.genes) IN
  /\ NoDup(o.rx) /\ NoDup(o.mets) /\ NoDup(o.genes)
  /\ Len(o.bad) = 0
  /\ \A r \in rx :
        /\ DOMAIN o.S[r] \subseteq mets
        /\ SeqSet(o.rgenes[r]) = SeqSet(o.gprgenes[r])
        /\ SeqSet(o.rgenes[r]) \subseteq genes
  /\ \A m \in mets : SeqSet(o.metRxns[m]) = {r \in rx : m \in DOMAIN o.S[r]}
  /\ \A g \in genes : SeqSet(o.geneRxns[g]) = {r \in rx : g \in SeqSet(o.rgenes[r])}

\* ------------------------------------------------------------ contexts
LastOf(mid) == IF \E k \in 1..Len(ctxs) : ctxs[k].mid = mid
               THEN CHOOSE k \in 1..Len(ctxs) : ctxs[k].mid = mid /\ \A j \in (k + 1)..Len(ctxs) : ctxs[j].mid # mid
               ELSE 0
RemoveAt(s, k) == SubSeq(s, 1, k - 1) \o SubSeq(s, k + 1, Len(s))

Fails(ev) ==
  CASE ev.k = "mut" ->
         (IF ~LPMirrors(ev.o) THEN {"LPMirrors"} ELSE {})
         \cup (IF ~CrossRefOK(ev.o) THEN {"CrossRefOK"} ELSE {})
    [] ev.k = "exit" ->
         LET k == LastOf(ev.mid) IN
         (IF ev.raised # "none" THEN {"ExitRaises"} ELSE {})
         \cup (IF k # 0 /\ ~ev.tainted /\ ev.raised = "none" /\ ev.dig # ctxs[k].dig THEN {"ExitRestores"} ELSE {})
    [] ev.k = "stutter" ->
         (IF ev.pre # ev.post THEN {"Stutter"} ELSE {})
         \cup (IF ev.ctx0 # ev.ctx1 THEN {"StutterContextDepth"} ELSE {})
    [] OTHER -> {}

Init ==
  /\ tid \in 1..Len(Traces)
  /\ l = 0
  /\ ctxs = <<>>
  /\ badm = {}

Next ==
  /\ l < Len(Traces[tid].events)
  /\ LET ev == Traces[tid].events[l + 1]
         now == Fails(ev)
         mid == IF "mid" \in DOMAIN ev THEN ev.mid ELSE 0
         \* invariants on a model are reported when they START to fail (one corruption, one verdict)
         sticky == {"LPMirrors", "CrossRefOK"}
         fresh == {i \in now : i \notin sticky \/ <<mid, i>> \notin badm} IN
     /\ (fresh # {}) =>
           PrintT(ToJson([verdict |-> "MISMATCH", tid |-> Traces[tid].tid, test |-> Traces[tid].test, l |-> l + 1,
                          action |-> ev.a, kind |-> ev.k, invs |-> fresh,
                          raised |-> (IF "raised" \in DOMAIN ev THEN ev.raised ELSE "none"),
                          bad |-> (IF ev.k = "mut" THEN ev.o.bad ELSE <<>>)]))
     /\ badm' = IF ev.k = "mut" THEN {p \in badm : p[1] # mid} \cup {<<mid, i>> : i \in now \cap sticky} ELSE badm
     /\ ctxs' = IF ev.k = "enter" THEN Append(ctxs, [mid |-> ev.mid, dig |-> ev.dig])
                ELSE IF ev.k = "exit" /\ LastOf(ev.mid) # 0 THEN RemoveAt(ctxs, LastOf(ev.mid))
                ELSE ctxs
  /\ l' = l + 1
  /\ tid' = tid
=============================================================================
