------------------------------ MODULE UndoLog ------------------------------
(***************************************************************************)
(* Design model of cobra's context mechanism (property C03, mechanism      *)
(* layer): Model._contexts is a stack of HistoryManagers, each a LIFO list *)
(* of undo closures; `with model:` pushes one, leaving pops it and replays *)
(* the closures in reverse order.  The closures CALL CONTEXT-AWARE SETTERS *)
(* (e.g. `reaction *= 1/k`, `update_genes_from_gpr`), which themselves     *)
(* look for a current context and record into it.                          *)
(*                                                                         *)
(*   Hide = TRUE   the code as repaired: while a context is being reset    *)
(*                 the enclosing contexts are hidden, nothing is recorded  *)
(*   Hide = FALSE  the pinned tree (negative control): an undo closure     *)
(*                 records a new closure into the ENCLOSING context, so    *)
(*                 leaving the outer context re-applies the inner change   *)
(*                                                                         *)
(* Two kinds of setter, as in the code: `resettable` attributes register   *)
(* the RAW setter with the old value (never re-records), and "method"      *)
(* operations register a call of a context-aware method (re-records when   *)
(* a context is visible).                                                  *)
(***************************************************************************)
EXTENDS Integers, Sequences, FiniteSets, TLC

CONSTANTS Vars, Vals, MaxDepth, MaxOps, Hide

VARIABLES x,        \* the model state: Vars -> Vals
          stack,    \* Seq of contexts; a context is a Seq of undo records [v, old, aware]
          snaps,    \* history: the state at each open Enter (what Exit must restore)
          nops,     \* bound on the history length
          lastExitOK  \* history: did the last Exit restore its snapshot?
vars == <<x, stack, snaps, nops, lastExitOK>>

Init ==
  /\ x \in [Vars -> Vals]
  /\ stack = <<>> /\ snaps = <<>> /\ nops = 0 /\ lastExitOK = TRUE

Push(stk, rec) == [stk EXCEPT ![Len(stk)] = Append(@, rec)]

\* a context-aware set: applies the change and, when a context is visible, records its inverse
\* (aware = TRUE: the inverse is again a context-aware call; FALSE: the raw setter)
Set(v, val, aware) ==
  /\ nops < MaxOps
  /\ x[v] # val                    \* "don't clutter the context with unchanged variables"
  /\ x' = [x EXCEPT ![v] = val]
  /\ stack' = IF Len(stack) > 0 THEN Push(stack, [v |-> v, old |-> x[v], aware |-> aware]) ELSE stack
  /\ nops' = nops + 1
  /\ UNCHANGED <<snaps, lastExitOK>>

Enter ==
  /\ nops < MaxOps /\ Len(stack) < MaxDepth
  /\ stack' = Append(stack, <<>>)
  /\ snaps' = Append(snaps, x)
  /\ nops' = nops + 1
  /\ UNCHANGED <<x, lastExitOK>>

\* replaying one context: records are undone last-in first-out; an aware record calls Set again, which
\* records into the context that is visible at that moment -- the enclosing one unless it is hidden
RECURSIVE Replay(_, _, _)
Replay(recs, xs, outer) ==      \* returns [x, outer]
  IF recs = <<>> THEN [x |-> xs, outer |-> outer]
  ELSE LET r == recs[Len(recs)]
           rest == SubSeq(recs, 1, Len(recs) - 1)
           xs2 == [xs EXCEPT ![r.v] = r.old]
           rerecord == r.aware /\ ~Hide /\ Len(outer) > 0 /\ xs[r.v] # r.old
           outer2 == IF rerecord THEN Push(outer, [v |-> r.v, old |-> xs[r.v], aware |-> TRUE]) ELSE outer
       IN Replay(rest, xs2, outer2)

Exit ==
  /\ nops < MaxOps /\ Len(stack) > 0
  /\ LET n == Len(stack)
         res == Replay(stack[n], x, SubSeq(stack, 1, n - 1)) IN
     /\ x' = res.x
     /\ stack' = res.outer
     /\ lastExitOK' = (res.x = snaps[n])
  /\ snaps' = SubSeq(snaps, 1, Len(snaps) - 1)
  /\ nops' = nops + 1

Next == \/ \E v \in Vars, val \in Vals, aware \in BOOLEAN : Set(v, val, aware)
        \/ Enter
        \/ Exit

Spec == Init /\ [][Next]_vars

\* C03: leaving a context restores the state of the matching entry -- for every history, nesting included
ExitRestores == lastExitOK
\* mechanism invariant: every open context's records, replayed, give back its snapshot
RECURSIVE Undo(_, _)
Undo(recs, xs) == IF recs = <<>> THEN xs ELSE Undo(SubSeq(recs, 1, Len(recs) - 1), [xs EXCEPT ![recs[Len(recs)].v] = recs[Len(recs)].old])
UndoRefinesSnapshot == Len(stack) > 0 => Undo(stack[Len(stack)], x) = snaps[Len(snaps)]
=============================================================================
