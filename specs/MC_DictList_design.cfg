\* exhaustive design check: all operations from all reachable states, 3 ids
CONSTANTS
  Ids = {"a", "b", "c"}
  IdSeq <- IdSeq3
  Mode = "full"
  Bug = "none"
  Depth = 1000
  MaxLen = 3
  MaxArg = 2
  IdxSpan = 4
  SliceSpan = 4
  NWalks = 1
  Seed = 0
  Emit = FALSE
  DerStarts = {"none"}
INIT Init
NEXT Next
VIEW View
INVARIANT InvCoherent
PROPERTY StepProp
CONSTRAINT Constr
CHECK_DEADLOCK FALSE
