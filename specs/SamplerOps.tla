---------------------------- MODULE SamplerOps ----------------------------
(***************************************************************************)
(* Variable-free operators for C16 (every flux sample is a feasible flux   *)
(* distribution) and the sampling clause of C14.                           *)
(*                                                                         *)
(* SAMPLER INSTANCE  X                                                     *)
(*   X.M    lattice record of FluxLatticeOps (finite integer bounds,       *)
(*          |bound| <= 5)                                                  *)
(*   X.U    extra user constraints, a sequence of                          *)
(*            [coef : Seq(Int) over the reactions, zc : Int, lo, hi]       *)
(*          meaning  lo <= SUM coef[r] * v[r] + zc * z <= hi               *)
(*          (lo = hi: an equality).  At most one constraint has zc # 0.    *)
(*   X.hasz, X.zb = <<zl, zu>>    one extra user variable z (or none)      *)
(*                                                                         *)
(* ROWS are fixed point integers, value * 10^8 (the harness clamps         *)
(* |value| > 20 to +-20).  A flux-space row has one entry per reaction in  *)
(* model order; a variable-space row is <<f1, r1, ..., fn, rn [, z]>>      *)
(* (forward / reverse variable of each reaction in model order, then z).   *)
(*                                                                         *)
(* TOLERANCE.  The sampler documents feasibility_tol = bounds_tol =        *)
(* model.tolerance (1e-7 = 10 units).  Every recorded number carries a     *)
(* rounding error of at most 1/2 unit, so a judgement is three-valued:     *)
(*   "yes"  every constraint is met with tolerance - slack                 *)
(*   "no"   some constraint is violated by more than tolerance + slack     *)
(*   "edge" otherwise (not judged)                                         *)
(* slack = number of rounded terms in the expression.                      *)
(*                                                                         *)
(* 32-bit arithmetic: a sum of k terms c * x with |x| <= 2*10^9 is formed  *)
(* on quotient and remainder by 10^4 separately (SxDot), clipped to        *)
(* +-SxBig, so no intermediate exceeds 2^31.                               *)
(***************************************************************************)
EXTENDS FluxLatticeOps

SxScale == 100000000
SxTol == 10
SxBig == 2000000000
SxM == 10000

\* ---------------------------------------------------------------- safe weighted sums
RECURSIVE SxQ(_, _, _), SxR(_, _, _)
SxQ(c, x, k) == IF k = 0 THEN 0 ELSE c[k] * (x[k] \div SxM) + SxQ(c, x, k - 1)
SxR(c, x, k) == IF k = 0 THEN 0 ELSE c[k] * (x[k] % SxM) + SxR(c, x, k - 1)
SxDot(c, x) ==
  LET q == SxQ(c, x, Len(c)) r == SxR(c, x, Len(c)) IN
  IF q > 150000 THEN SxBig ELSE IF q < -150000 THEN -SxBig ELSE q * SxM + r
SxAbsSum(c) == SumSeq([i \in 1..Len(c) |-> Abs(c[i])])

\* ---------------------------------------------------------------- three-valued logic
\* violation amount of lo <= x <= hi (positive = outside), judged with tolerance and slack
\* (comparisons only: lo - x could overflow; |lo|, |hi| <= SxBig, the offsets are tiny)
SxJudge(x, lo, hi, slack) ==
  IF x < lo - (SxTol + slack) \/ x > hi + (SxTol + slack) THEN "no"
  ELSE IF x >= lo - (SxTol - slack) /\ x <= hi + (SxTol - slack) THEN "yes" ELSE "edge"
SxAnd(S) == IF "no" \in S THEN "no" ELSE IF "edge" \in S THEN "edge" ELSE "yes"
\* "some element is surely violated" / "surely none" / unknown
SxSome(S) == IF "no" \in S THEN "yes" ELSE IF "edge" \in S THEN "edge" ELSE "no"

\* ---------------------------------------------------------------- the model's variable split
\* update_variable_bounds: lb > 0: f in [lb, ub], r = 0;  ub < 0: f = 0, r in [-ub, -lb];
\* otherwise f in [0, ub], r in [0, -lb]
FwdLo(M, r) == IF M.lb[r] > 0 THEN M.lb[r] ELSE 0
FwdHi(M, r) == IF M.ub[r] < 0 THEN 0 ELSE M.ub[r]
RevLo(M, r) == IF M.ub[r] < 0 THEN -M.ub[r] ELSE 0
RevHi(M, r) == IF M.lb[r] > 0 THEN 0 ELSE -M.lb[r]

NVars(X) == 2 * NR(X.M) + (IF X.hasz THEN 1 ELSE 0)
FluxOfVars(X, w) == [r \in RIdx(X.M) |-> w[2 * r - 1] - w[2 * r]]
ZOf(X, w) == IF X.hasz THEN w[2 * NR(X.M) + 1] ELSE 0
\* coefficient vector of a user constraint / a metabolite row over the variable-space columns
VarCoef(X, coef, zc) == [j \in 1..NVars(X) |-> IF j > 2 * NR(X.M) THEN zc
                                                ELSE IF j % 2 = 1 THEN coef[(j + 1) \div 2] ELSE -coef[j \div 2]]

\* ---------------------------------------------------------------- independent feasibility check
\* flux space.  A constraint that involves z is judged through its projection:
\* EXISTS z in [zl, zu]:  lo <= coef.v + zc*z <= hi
ULoFlux(X, u) == IF u.zc = 0 THEN u.lo ELSE IF u.zc > 0 THEN u.lo - u.zc * X.zb[2] ELSE u.lo - u.zc * X.zb[1]
UHiFlux(X, u) == IF u.zc = 0 THEN u.hi ELSE IF u.zc > 0 THEN u.hi - u.zc * X.zb[1] ELSE u.hi - u.zc * X.zb[2]
SxFluxLower(X, v) == {SxJudge(v[r], X.M.lb[r] * SxScale, SxBig, 1) : r \in RIdx(X.M)}
SxFluxUpper(X, v) == {SxJudge(v[r], -SxBig, X.M.ub[r] * SxScale, 1) : r \in RIdx(X.M)}
SxFluxBalance(X, v) == {SxJudge(SxDot(RowOf(X.M, m), v), 0, 0, SxAbsSum(RowOf(X.M, m))) : m \in MIdx(X.M)}
SxFluxUser(X, v) == {SxJudge(SxDot(X.U[i].coef, v), ULoFlux(X, X.U[i]) * SxScale, UHiFlux(X, X.U[i]) * SxScale,
                             SxAbsSum(X.U[i].coef)) : i \in 1..Len(X.U)}
SxRowShapeFlux(X, v) == Len(v) = NR(X.M)
SxInFluxPolytope(X, v) ==
  IF ~SxRowShapeFlux(X, v) THEN "no"
  ELSE SxAnd(SxFluxLower(X, v) \cup SxFluxUpper(X, v) \cup SxFluxBalance(X, v) \cup SxFluxUser(X, v))

\* variable space
SxVarBounds(X, w) ==
  UNION {{SxJudge(w[2 * r - 1], FwdLo(X.M, r) * SxScale, FwdHi(X.M, r) * SxScale, 1),
          SxJudge(w[2 * r], RevLo(X.M, r) * SxScale, RevHi(X.M, r) * SxScale, 1)} : r \in RIdx(X.M)}
  \cup (IF X.hasz THEN {SxJudge(ZOf(X, w), X.zb[1] * SxScale, X.zb[2] * SxScale, 1)} ELSE {})
SxVarBalance(X, w) ==
  {SxJudge(SxDot(VarCoef(X, RowOf(X.M, m), 0), w), 0, 0, 2 * SxAbsSum(RowOf(X.M, m))) : m \in MIdx(X.M)}
SxVarUser(X, w) ==
  {SxJudge(SxDot(VarCoef(X, X.U[i].coef, X.U[i].zc), w), X.U[i].lo * SxScale, X.U[i].hi * SxScale,
           2 * SxAbsSum(X.U[i].coef) + Abs(X.U[i].zc)) : i \in 1..Len(X.U)}
SxInVarPolytope(X, w) ==
  IF Len(w) # NVars(X) THEN "no"
  ELSE SxAnd(SxVarBounds(X, w) \cup SxVarBalance(X, w) \cup SxVarUser(X, w))

\* the point violates nothing but extra user rows
SxOnlyUserRowsViolated(X, v) ==
  SxInFluxPolytope(X, v) = "no" /\ SxInFluxPolytope([X EXCEPT !.U = <<>>], v) = "yes"

SxInPolytope(X, row, fluxes) == IF fluxes THEN SxInFluxPolytope(X, row) ELSE SxInVarPolytope(X, row)

\* ---------------------------------------------------------------- what validate() documents
\* 'v' feasible in bounds and equalities, 'l' / 'u' a lower / upper bound violation, 'e' an equality
\* violation.  Flux space: each letter has one independent counterpart.
SxLetterL(X, v) == SxSome(SxFluxLower(X, v))
SxLetterU(X, v) == SxSome(SxFluxUpper(X, v))
SxLetterE(X, v) == SxSome(SxFluxBalance(X, v))
HasLetter(code, ch) == \E i \in 1..Len(code) : code[i] = ch
\* code is a sequence of one-character strings
SxCodeWellFormed(code) ==
  /\ Len(code) >= 1 /\ Len(code) <= 3
  /\ \A i \in 1..Len(code) : code[i] \in {"v", "l", "u", "e"}
  /\ HasLetter(code, "v") => Len(code) = 1
  /\ \A i, j \in 1..Len(code) : code[i] = code[j] => i = j
LetterAgrees(code, ch, verdict) ==
  (verdict = "yes" => HasLetter(code, ch)) /\ (verdict = "no" => ~HasLetter(code, ch))
\* the agreement the property states: 'v' iff the independent check says feasible
SxValidateAgrees(code, verdict) ==
  (verdict = "yes" => code = <<"v">>) /\ (verdict = "no" => code # <<"v">>)

\* Variable space: 'l' / 'u' cover the variable bounds and the lower / upper side of the inequality rows,
\* 'e' the equality rows (mass balances, user equalities, variables fixed at a non-zero value).
IsIneq(u) == u.lo < u.hi
UserRowVal(X, u, w) == SxDot(VarCoef(X, u.coef, u.zc), w)
UserSlack(u) == 2 * SxAbsSum(u.coef) + Abs(u.zc)
SxVarOwnLower(X, w) ==
  UNION {{SxJudge(w[2 * r - 1], FwdLo(X.M, r) * SxScale, SxBig, 1), SxJudge(w[2 * r], RevLo(X.M, r) * SxScale, SxBig, 1)} : r \in RIdx(X.M)}
  \cup (IF X.hasz THEN {SxJudge(ZOf(X, w), X.zb[1] * SxScale, SxBig, 1)} ELSE {})
SxVarOwnUpper(X, w) ==
  UNION {{SxJudge(w[2 * r - 1], -SxBig, FwdHi(X.M, r) * SxScale, 1), SxJudge(w[2 * r], -SxBig, RevHi(X.M, r) * SxScale, 1)} : r \in RIdx(X.M)}
  \cup (IF X.hasz THEN {SxJudge(ZOf(X, w), -SxBig, X.zb[2] * SxScale, 1)} ELSE {})
SxVarIneqLower(X, w) == {SxJudge(UserRowVal(X, X.U[i], w), X.U[i].lo * SxScale, SxBig, UserSlack(X.U[i])) : i \in {k \in 1..Len(X.U) : IsIneq(X.U[k])}}
SxVarIneqUpper(X, w) == {SxJudge(UserRowVal(X, X.U[i], w), -SxBig, X.U[i].hi * SxScale, UserSlack(X.U[i])) : i \in {k \in 1..Len(X.U) : IsIneq(X.U[k])}}
SxVarEqs(X, w) ==
  SxVarBalance(X, w)
  \cup {SxJudge(UserRowVal(X, X.U[i], w), X.U[i].lo * SxScale, X.U[i].hi * SxScale, UserSlack(X.U[i])) : i \in {k \in 1..Len(X.U) : ~IsIneq(X.U[k])}}
  \cup UNION {(IF FwdLo(X.M, r) = FwdHi(X.M, r) /\ FwdLo(X.M, r) # 0
               THEN {SxJudge(w[2 * r - 1], FwdLo(X.M, r) * SxScale, FwdHi(X.M, r) * SxScale, 1)} ELSE {})
              \cup (IF RevLo(X.M, r) = RevHi(X.M, r) /\ RevLo(X.M, r) # 0
                    THEN {SxJudge(w[2 * r], RevLo(X.M, r) * SxScale, RevHi(X.M, r) * SxScale, 1)} ELSE {}) : r \in RIdx(X.M)}
  \cup (IF X.hasz /\ X.zb[1] = X.zb[2] /\ X.zb[1] # 0 THEN {SxJudge(ZOf(X, w), X.zb[1] * SxScale, X.zb[2] * SxScale, 1)} ELSE {})
\* The letters a validate() would give if the inequality-row errors of one row were replaced by the
\* MINIMUM over the whole batch B (set of rows) -- the signature of taking the minimum along the wrong
\* axis.  Exact on integer points (no "edge").
SxBatchMinLetters(X, w, B) ==
  LET l == SxSome(SxVarOwnLower(X, w)) = "yes" \/ \E b \in B : SxSome(SxVarIneqLower(X, b)) = "yes"
      u == SxSome(SxVarOwnUpper(X, w)) = "yes" \/ \E b \in B : SxSome(SxVarIneqUpper(X, b)) = "yes"
      e == SxSome(SxVarEqs(X, w)) = "yes" IN
  IF ~l /\ ~u /\ ~e THEN {"v"} ELSE (IF l THEN {"l"} ELSE {}) \cup (IF u THEN {"u"} ELSE {}) \cup (IF e THEN {"e"} ELSE {})

\* ---------------------------------------------------------------- counts, columns
SxRowCount(method, n, P) == IF method = "optgp" /\ P > 1 THEN P * ((n + P - 1) \div P) ELSE n
SxColumns(X, fluxes) ==
  IF fluxes THEN [r \in RIdx(X.M) |-> <<"v", r>>]
  ELSE [j \in 1..NVars(X) |-> IF j > 2 * NR(X.M) THEN <<"z", 0>>
                              ELSE IF j % 2 = 1 THEN <<"f", (j + 1) \div 2>> ELSE <<"r", j \div 2>>]

\* ---------------------------------------------------------------- the lattice of the instance
SxUserOK(X, v, z) == \A i \in 1..Len(X.U) :
  LET t == Dot(X.U[i].coef, v) + X.U[i].zc * z IN t >= X.U[i].lo /\ t <= X.U[i].hi
SxZRange(X) == IF X.hasz THEN X.zb[1]..X.zb[2] ELSE {0}
\* integer flux vectors of the polytope (projection on the fluxes)
SxLattice(X) == {v \in Feasible(X.M) : \E z \in SxZRange(X) : SxUserOK(X, v, z)}
SxSplit(X, v, z) == [j \in 1..NVars(X) |-> IF j > 2 * NR(X.M) THEN z
                                           ELSE IF j % 2 = 1 THEN MaxOf(v[(j + 1) \div 2], 0) ELSE MaxOf(-v[j \div 2], 0)]
\* affine dimension class of a finite point set: 0, 1 or 2 (= "at least two")
Parallel(a, b) == \A i, j \in 1..Len(a) : a[i] * b[j] = a[j] * b[i]
Minus(a, b) == [i \in 1..Len(a) |-> a[i] - b[i]]
SxDim(Pts) ==
  IF Cardinality(Pts) <= 1 THEN 0
  ELSE LET p0 == CHOOSE p \in Pts : TRUE p1 == CHOOSE p \in Pts : p # p0 d == Minus(p1, p0) IN
       IF \A p \in Pts : Parallel(Minus(p, p0), d) THEN 1 ELSE 2
\* the sampler's own notion: no non-zero right-hand side and no reaction FIXED at a non-zero value
SxHomogeneous(X) ==
  /\ \A r \in RIdx(X.M) : X.M.lb[r] = X.M.ub[r] => X.M.lb[r] = 0
  /\ \A i \in 1..Len(X.U) : X.U[i].lo = X.U[i].hi => X.U[i].lo = 0
  /\ X.hasz => (X.zb[1] = X.zb[2] => X.zb[1] = 0)
\* Integrality.  With the user rows appended (and z as one more column) the constraint matrix is still a
\* directed-graph incidence matrix -- entries in {-1, 0, 1}, at most one +1 and at most one -1 per
\* column -- hence totally unimodular: the polytope is integral, its dimension is the dimension of its
\* integer points.  Otherwise the lattice dimension is only a lower bound.
ColEntries(X, r) == [m \in MIdx(X.M) |-> X.M.S[r][m]] \o [i \in 1..Len(X.U) |-> X.U[i].coef[r]]
ZEntries(X) == [i \in 1..Len(X.U) |-> X.U[i].zc]
IncidenceColumn(e) ==
  /\ \A k \in 1..Len(e) : e[k] \in {-1, 0, 1}
  /\ Cardinality({k \in 1..Len(e) : e[k] = 1}) <= 1
  /\ Cardinality({k \in 1..Len(e) : e[k] = -1}) <= 1
SxIntegral(X) == /\ \A r \in RIdx(X.M) : IncidenceColumn(ColEntries(X, r))
                 /\ IncidenceColumn(ZEntries(X))
\* the all-zero flux vector is a point of the polytope (L = SxLattice(X))
SxOriginFeasible(X, L) == [r \in RIdx(X.M) |-> 0] \in L
\* Documented refusals (ValueError): the flux space is a single point; or it is a segment ("only 2 search
\* directions") of an inhomogeneous problem, i.e. one whose flux space does not contain the origin.
\* "yes": the refusal is the documented outcome;  "no": the flux space surely is samplable;
\* "edge": not decided on the lattice
SxRefusalExpected(X, L, dim) ==
  IF dim = 2 THEN "no"
  ELSE IF ~SxIntegral(X) THEN "edge"
  ELSE IF dim = 0 THEN "yes"
  ELSE IF SxOriginFeasible(X, L) THEN "no" ELSE "yes"

SxInScope(X) == AllFinite(X.M) /\ BoundsOrdered(X.M) /\ SxLattice(X) # {}
=============================================================================
