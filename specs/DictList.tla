----------------------------- MODULE DictList -----------------------------
(***************************************************************************)
(* State machine of cobra.core.dictlist.DictList (property C15).           *)
(*                                                                         *)
(* Modes (chosen by the .cfg through the constant Mode):                   *)
(*   "full"  every operation of the bounded vocabulary from every start    *)
(*           list, to depth Depth (exhaustive; Depth = 1 covers the whole  *)
(*           transition relation because every duplicate-free list over    *)
(*           the universe is a start state)                                *)
(*   "walk"  NWalks pseudo-random walks of length Depth; the operations    *)
(*           are drawn by a small LCG carried in the state (seeded by the  *)
(*           constant Seed), so a run is reproducible from (spec, Seed)    *)
(* With Emit = TRUE every maximal behaviour is printed as one JSON line    *)
(* ([start, ops]) for the conformance driver.                              *)
(***************************************************************************)
EXTENDS DictListOps, Json

CONSTANTS Mode, Depth, MaxLen, MaxArg, IdxSpan, SliceSpan, NWalks, Seed, Emit,
          IdSeq,       \* the ids as a sequence: fixes the sort order and the draw order
          DerStarts    \* "full" mode: how the DERIVED list of a start state is made: a subset of
                       \* {"none", "copy", "swapped"} (no derived list / a copy of the start list /
                       \* the start list is the copy and the derived list the original)

VARIABLES st,          \* [items, idx]
          start,       \* initial items (history)
          hist,        \* operations applied so far (history)
          last,        \* [pre, raises, ret] of the last step (for the step invariant)
          rng, walk,   \* "walk" mode only
          der,         \* the DERIVED list: the list most recently returned by a list-returning operation
                       \* (copy, pickle, slice, query, +, -), or the other one of the pair after "swap".
                       \* It shares the element objects with the list it came from and nothing else:
                       \* no operation on one list may change what the other one answers.
          der0         \* how the derived list of the start state was made (history)

vars == <<st, start, hist, last, rng, walk, der, der0>>
NoDer == [present |-> FALSE, items |-> <<>>, idx |-> AllMissing]
DerOf(s) == [present |-> TRUE, items |-> s.items, idx |-> s.idx]

\* (a .cfg cannot hold negative numbers)
IdxLo == -IdxSpan
IdxHi == IdxSpan
SliceLoB == -SliceSpan
SliceHiB == SliceSpan

IdSeq3 == <<"a", "b", "c">>
IdSeq4 == <<"a", "b", "c", "d">>
IdRank(x) == CHOOSE k \in 1..Len(IdSeq) : IdSeq[k] = x
IdLess(x, y) == IdRank(x) < IdRank(y)

Objs == {Obj(i, v) : i \in Ids, v \in 0..1}
RECURSIVE SeqsUpTo(_, _)
SeqsUpTo(S, n) == IF n = 0 THEN {<<>>} ELSE SeqsUpTo(S, n - 1) \cup {Append(s, x) : s \in SeqsUpTo(S, n - 1), x \in S}
ArgLists == {s \in SeqsUpTo(Objs, MaxArg) : TRUE}
StartLists == {s \in SeqsUpTo({Obj(i, 0) : i \in Ids}, MaxLen) : NoDup(s)}
SliceBs == (SliceLoB..SliceHiB) \cup {NoneIdx}
QuerySets == SeqsUpTo(Ids, 2)

\* (TLC evaluates constant-level definitions when it starts: outside "full" mode the vocabulary is not needed, and with
\* the constants of the walks it has several hundred thousand elements)
AllOps == IF Mode # "full" THEN {} ELSE
       {[op |-> k, x |-> x] : k \in {"append", "add", "remove", "removeid"}, x \in Objs}
  \cup {[op |-> k, xs |-> xs] : k \in {"extend", "iadd", "union", "isub", "addop", "subop"}, xs \in ArgLists}
  \cup {[op |-> k, i |-> i, x |-> x] : k \in {"insert", "setitem"}, i \in IdxLo..IdxHi, x \in Objs}
  \cup {[op |-> k, i |-> i] : k \in {"pop", "delitem", "getitem"}, i \in IdxLo..IdxHi}
  \cup {[op |-> k] : k \in {"poplast", "sort", "sortrev", "reverse", "copy", "pickle", "deepcopy", "swap"}}
  \cup {[op |-> "setslice", a |-> a, b |-> b, xs |-> xs] : a \in SliceBs, b \in SliceBs, xs \in ArgLists}
  \cup {[op |-> "setslice2", a |-> a, b |-> b, xs |-> xs] : a \in {NoneIdx, 0, 1, -1}, b \in {NoneIdx, 0, 2, -1}, xs \in ArgLists}
  \cup {[op |-> k, a |-> a, b |-> b] : k \in {"delslice", "getslice"}, a \in SliceBs, b \in SliceBs}
  \cup {[op |-> "query", qs |-> q] : q \in QuerySets}
  \cup {[op |-> "rename", i |-> i, nid |-> n] : i \in IdxLo..IdxHi, n \in Ids}

\* from a start state WITH a derived list: the operations that change a list (the derived list must not notice)
DerOps == {op \in AllOps : (Mutating(op) /\ (op.op \in {"setslice", "setslice2"} => Len(op.xs) <= 1)) \/ op.op = "swap"}

\* ------------------------------------------------------------- pseudo-random draws
LCG(r) == (r * 75 + 74) % 65537
RECURSIVE Draws(_, _)
Draws(r, n) == IF n = 0 THEN <<>> ELSE <<LCG(r)>> \o Draws(LCG(r), n - 1)
Pick(seq, d) == seq[(d % Len(seq)) + 1]
Kinds == <<"append", "add", "remove", "removeid", "extend", "iadd", "union", "isub", "addop", "subop",
           "insert", "setitem", "pop", "delitem", "getitem", "poplast", "sort", "sortrev", "reverse",
           "copy", "pickle", "setslice", "delslice", "getslice", "query", "rename",
           "insert", "setitem", "pop", "delitem", "setslice", "extend", "append", "remove",
           "swap", "swap", "deepcopy", "copy", "setslice2", "setslice2">>
DObj(d1, d2) == Obj(Pick(IdSeq, d1), d2 % 2)
\* objects drawn with a bias towards ids that are (not) in the list make both the
\* succeeding and the failing forms frequent
DIdx(d) == IdxLo + (d % (IdxHi - IdxLo + 1))
DSlice(d) == IF d % 5 = 0 THEN NoneIdx ELSE SliceLoB + (d % (SliceHiB - SliceLoB + 1))
DList(ds) == LET n == ds[1] % (MaxArg + 1) IN [k \in 1..n |-> DObj(ds[2 * k], ds[2 * k + 1])]
DrawOp(r) ==
  LET d == Draws(r, 12) k == Pick(Kinds, d[1]) IN
  CASE k \in {"append", "add", "remove", "removeid"} -> [op |-> k, x |-> DObj(d[2], d[3])]
    [] k \in {"extend", "iadd", "union", "isub", "addop", "subop"} -> [op |-> k, xs |-> DList(SubSeq(d, 2, 12))]
    [] k \in {"insert", "setitem"} -> [op |-> k, i |-> DIdx(d[2]), x |-> DObj(d[3], d[4])]
    [] k \in {"pop", "delitem", "getitem"} -> [op |-> k, i |-> DIdx(d[2])]
    [] k \in {"poplast", "sort", "sortrev", "reverse", "copy", "pickle", "deepcopy", "swap"} -> [op |-> k]
    [] k \in {"setslice", "setslice2"} -> [op |-> k, a |-> DSlice(d[2]), b |-> DSlice(d[3]), xs |-> DList(SubSeq(d, 4, 12))]
    [] k \in {"delslice", "getslice"} -> [op |-> k, a |-> DSlice(d[2]), b |-> DSlice(d[3])]
    [] k = "query" -> [op |-> k, qs |-> [j \in 1..(d[2] % 3) |-> Pick(IdSeq, d[2 + j])]]
    [] k = "rename" -> [op |-> k, i |-> DIdx(d[2]), nid |-> Pick(IdSeq, d[3])]

\* ------------------------------------------------------------- behaviour
\* a renamed object (v >= 2) may not be renamed again and objects with v >= 2 are
\* only ever produced by rename, so the object universe stays finite
OpAllowed(op, s) ==
  op.op = "rename" => (ValidIndex(op.i, Len(s.items)) => s.items[NormIndex(op.i, Len(s.items)) + 1].v < 2)

Step(op) ==
  /\ OpAllowed(op, st)
  /\ LET r == IF op.op # "swap" THEN Apply(op, st, IdLess)
              ELSE IF der.present THEN R(der.items, der.idx, "none", NoRet) ELSE R(st.items, st.idx, "skip", NoRet) IN
     /\ st' = [items |-> r.items, idx |-> r.idx]
     /\ last' = [pre |-> st.items, op |-> op, raises |-> r.raises, ret |-> r.ret]
     \* the derived list: replaced by a newly returned list, exchanged by "swap", given up after a rename
     \* (the renamed OBJECT is shared; only the list it was renamed in gets the documented index repair),
     \* and otherwise UNCHANGED -- whatever happens to the other list
     /\ der' = IF op.op = "swap" THEN (IF der.present THEN DerOf(st) ELSE der)
               ELSE IF op.op = "rename" /\ r.raises = "none" THEN NoDer
               ELSE IF ReturnsList(op) /\ r.raises = "none" THEN [present |-> TRUE, items |-> r.ret.items, idx |-> r.ret.idx]
               ELSE der
  /\ hist' = Append(hist, op)
  /\ start' = start
  /\ der0' = der0

Init ==
  /\ hist = <<>>
  /\ IF Mode = "full"
     THEN /\ start \in StartLists /\ walk = 0 /\ rng = 0
     ELSE /\ walk \in 1..NWalks
          \* (TLC integers are 32 bit: reduce before multiplying large walk numbers)
          /\ rng = LCG((((Seed * 7919) % 65537) + (((walk % 20000) * 104729) % 65537) + ((walk \div 20000) * 7)) % 65537)
          /\ start = LET d == Draws(rng, 2 + MaxLen) n == d[1] % (MaxLen + 1)
                         perm == d[2] % 4 IN
                     \* a prefix of the id sequence, rotated: cheap variety of start orders
                     [k \in 1..n |-> Obj(IdSeq[((k + perm) % Len(IdSeq)) + 1], 0)]
  /\ st = [items |-> start, idx |-> IndexOf(start)]
  /\ der0 \in (IF Mode = "full" THEN DerStarts ELSE {"none"})
  /\ der = IF der0 = "none" THEN NoDer ELSE [present |-> TRUE, items |-> start, idx |-> IndexOf(start)]
  /\ last = [pre |-> start, op |-> [op |-> "init"], raises |-> "none", ret |-> NoRet]

Next ==
  /\ Len(hist) < Depth
  /\ IF Mode = "full"
     THEN \E op \in (IF der0 = "none" THEN AllOps ELSE DerOps) : Step(op) /\ UNCHANGED <<rng, walk>>
     ELSE /\ Step(DrawOp(rng))
          /\ rng' = LCG(LCG(rng) + Len(hist))
          /\ walk' = walk

Spec == Init /\ [][Next]_vars

\* ------------------------------------------------------------- properties
\* C15, first half: index and contents agree, ids unique -- on every reachable state
InvCoherent == Coherent(st) /\ (der.present => Coherent([items |-> der.items, idx |-> der.idx]))

\* C15, second half: a raising operation leaves the list unchanged; and the declarative
\* meaning of each mutator as a relation on plain sequences (the "plain Python list with
\* a uniqueness rule" of the property), independent of the index arithmetic
Survivors(pre, post) == {o \in {pre[k] : k \in 1..Len(pre)} : \E j \in 1..Len(post) : post[j] = o}
OrderKept(pre, post) ==
  \A i, j \in 1..Len(pre) : (i < j /\ pre[i] \in Survivors(pre, post) /\ pre[j] \in Survivors(pre, post))
     => (CHOOSE k \in 1..Len(post) : post[k] = pre[i]) < (CHOOSE k \in 1..Len(post) : post[k] = pre[j])
SetOf(s) == {s[k] : k \in 1..Len(s)}
InvStep0 ==
  LET pre == last.pre post == st.items op == last.op IN
  /\ (last.raises \notin {"none", "skip"}) => post = pre
  /\ ~Mutating(op) => post = pre
  /\ (op.op \in {"sort", "sortrev", "reverse"}) => SetOf(post) = SetOf(pre) /\ Len(post) = Len(pre)
  /\ (op.op \notin {"sort", "sortrev", "reverse", "rename", "init"} /\ last.raises = "none") => OrderKept(pre, post)
  /\ (op.op = "sort" /\ Len(post) > 1) => \A k \in 1..(Len(post) - 1) : IdLess(post[k].id, post[k + 1].id)
  /\ (op.op \in {"append", "add"} /\ last.raises = "none") => post = Append(pre, op.x)
  /\ (op.op = "insert" /\ last.raises = "none") =>
        /\ Len(post) = Len(pre) + 1 /\ SetOf(post) = SetOf(pre) \cup {op.x}
        /\ (op.i >= 0 /\ op.i <= Len(pre)) => post[op.i + 1] = op.x
        /\ (op.i < 0 /\ -op.i <= Len(pre)) => post[Len(pre) + op.i + 1] = op.x     \* before the |i|-th from the end
        /\ op.i > Len(pre) => post[Len(post)] = op.x
        /\ -op.i > Len(pre) => post[1] = op.x
  /\ (op.op \in {"pop", "delitem"} /\ last.raises = "none") =>
        /\ Len(post) = Len(pre) - 1
        /\ SetOf(post) = SetOf(pre) \ {pre[(IF op.i < 0 THEN Len(pre) + op.i ELSE op.i) + 1]}
  /\ (op.op = "pop" /\ last.raises = "none") => last.ret.items = <<pre[(IF op.i < 0 THEN Len(pre) + op.i ELSE op.i) + 1]>>
  /\ (op.op = "poplast" /\ last.raises = "none") => post = SubSeq(pre, 1, Len(pre) - 1) /\ last.ret.items = <<pre[Len(pre)]>>
  /\ (op.op \in {"remove", "removeid"} /\ last.raises = "none") => SetOf(post) = {o \in SetOf(pre) : o.id # op.x.id}
  /\ (op.op \in {"extend", "iadd"} /\ last.raises = "none") => post = pre \o op.xs
  /\ (op.op = "union") => /\ SubSeq(post, 1, Len(pre)) = pre
                          /\ IdsOf(post) = IdsOf(pre) \cup {op.xs[k].id : k \in 1..Len(op.xs)}
  /\ (op.op = "isub" /\ last.raises = "none") => SetOf(post) = SetOf(pre) \ SetOf(op.xs) /\ SetOf(op.xs) \subseteq SetOf(pre)
  /\ (op.op = "setitem" /\ last.raises = "none") =>
        /\ Len(post) = Len(pre)
        /\ \E p \in 1..Len(pre) : post = [pre EXCEPT ![p] = op.x] /\ p = (IF op.i < 0 THEN Len(pre) + op.i ELSE op.i) + 1
  /\ (op.op = "setslice2" /\ last.raises = "none") => Len(post) = Len(pre) /\ SetOf(op.xs) \subseteq SetOf(post)
  /\ (op.op = "delslice") => \E lo, hi \in 0..Len(pre) : post = SubSeq(pre, 1, lo) \o SubSeq(pre, hi + 1, Len(pre))
  /\ (op.op = "setslice" /\ last.raises = "none") =>
        \E lo, hi \in 0..Len(pre) : post = SubSeq(pre, 1, lo) \o op.xs \o SubSeq(pre, hi + 1, Len(pre))
  /\ ReturnsList(op) /\ last.raises = "none" => Coherent([items |-> last.ret.items, idx |-> last.ret.idx])
  /\ (op.op = "getslice") => \E lo, hi \in 0..Len(pre) : last.ret.items = SubSeq(pre, lo + 1, hi)
  /\ (op.op \in {"copy", "pickle", "deepcopy"}) => last.ret.items = pre

InvStep == last.op.op = "swap" \/ InvStep0

\* ------------------------------------------------------------- emission
Constr ==
  /\ Len(hist) <= Depth
  /\ (Emit /\ Len(hist) = Depth) => PrintT(ToJson([start |-> start, ops |-> hist, walk |-> walk, der0 |-> der0]))

\* "full" mode with Depth = 1 is the whole transition relation: every enabled operation from every start state.
\* Printing one line per (start state, operation) is slow (a JSON conversion per behaviour); this constraint prints
\* one line per START STATE with the set of its enabled operations and cuts the search there -- the driver forms
\* the one-step behaviours from it (same family, same specification)
ConstrSets ==
  /\ Len(hist) = 0
  /\ Emit => PrintT(ToJson([start |-> start, der0 |-> der0,
                            opset |-> {op \in (IF der0 = "none" THEN AllOps ELSE DerOps) : OpAllowed(op, st)}]))

\* exhaustive runs: the history variables do not add behaviour
\* (the derived list is left out as well: it changes only by being REPLACED with a list some operation returned --
\* whose coherence InvStep checks -- or exchanged with st; keeping it in the view squares the state space)
View == IF Emit THEN vars ELSE <<st>>
\* checked on EVERY transition (TLC evaluates implied actions also for successors it has seen)
StepProp == [][InvStep']_vars
=============================================================================
