--------------------------- MODULE ParallelOps ---------------------------
(***************************************************************************)
(* Variable-free operators shared by ParallelMap (design), ParallelCases   *)
(* (instance / call-grid emission) and TraceParallel (validation of the    *)
(* worker events and frames recorded from the real cobra code), C14.       *)
(*                                                                         *)
(* What the code does (flux_analysis/variability.py, deletion.py):         *)
(*   n = number of items;  processes = min(processes, n);                  *)
(*   processes > 1:  Pool(processes, initializer = "install this model as  *)
(*                   the worker's global"), imap_unordered(step, items,    *)
(*                   chunksize = n // processes);  results keyed by id     *)
(*                   (FVA) or collected as one row per item (deletions)    *)
(*   otherwise:      map(step, items) on the caller's own model            *)
(* multiprocessing cuts the item sequence into consecutive chunks of       *)
(* `chunksize` items (the last one may be shorter), hands the next chunk   *)
(* to whichever worker is free and yields finished chunks in any order.    *)
(* A worker runs all tasks it ever gets on ONE mutable model.              *)
(*                                                                         *)
(* An ITEM is a set of identifiers (one reaction for FVA, one or two       *)
(* reactions / genes for deletions: `frozenset(comb)`).  In JSON an item   *)
(* is the ascending sequence of its identifiers.                           *)
(***************************************************************************)
EXTENDS FluxLatticeOps

\* ---------------------------------------------------------------- chunking
PEff(n, P) == IF P < n THEN P ELSE n                 \* processes = min(processes, n)
Pooled(n, P) == PEff(n, P) > 1
ChunkSize(n, P) == IF Pooled(n, P) THEN n \div PEff(n, P) ELSE MaxOf(n, 1)   \* serial: one "chunk"
NChunks(n, cs) == (n + cs - 1) \div cs
ChunkLo(k, cs) == (k - 1) * cs + 1
ChunkHi(k, n, cs) == MinOf(k * cs, n)
ChunkIdx(k, n, cs) == ChunkLo(k, cs)..ChunkHi(k, n, cs)

\* ---------------------------------------------------------------- items
SeqSet(s) == {s[i] : i \in 1..Len(s)}
Singles(l) == {{l[i]} : i \in 1..Len(l)}
\* `{frozenset(c) for c in product(l1, l2)}`: unordered, deduplicated, {a, a} = {a}
Pairs(l1, l2) == {{l1[i], l2[j]} : i \in 1..Len(l1), j \in 1..Len(l2)}
ItemOfSeq(s) == SeqSet(s)

\* ---------------------------------------------------------------- gene rules (DNF)
\* rule = sequence of conjunctions, each a sequence of gene names; <<>> = no rule.
\* Knocking out the gene set G disables the reaction iff every conjunction contains a gene of G.
RuleFalse(rule, G) == rule # <<>> /\ \A k \in 1..Len(rule) : \E j \in 1..Len(rule[k]) : rule[k][j] \in G
GenesOfRule(rule) == UNION {SeqSet(rule[k]) : k \in 1..Len(rule)}
GenesOf(I) == UNION {GenesOfRule(I.rules[r]) : r \in 1..Len(I.rules)}
DisabledBy(I, G) == {r \in RIdx(I.M) : RuleFalse(I.rules[r], G)}
RxnIdxOf(I, ids) == {PosOf(I.M.rxns, x) : x \in ids}

\* ---------------------------------------------------------------- values (10^-6 fixed point records)
Num(i) == [k |-> "num", i |-> i * Scale]
NaN == [k |-> "nan", i |-> 0]
CmpTol == 2
SameVal(a, b) == a.k = b.k /\ (a.k = "num" => Near(a.i, b.i, CmpTol))
SameVals(x, y) == Len(x) = Len(y) /\ \A j \in 1..Len(x) : SameVal(x[j], y[j])

\* ---------------------------------------------------------------- the lattice values F(t, Clean)
\* knock-out of the reaction set R: optimum of the knocked-out model, or nan / infeasible
ExpKO(M, R) ==
  LET K == KnockOut(M, R) IN
  IF Infeasible(K) THEN [vals |-> <<NaN>>, status |-> "infeasible"]
  ELSE [vals |-> <<Num(Opt(K))>>, status |-> "optimal"]
\* FVA range of reaction r under "objective at least num/den of its optimum"
ExpFVA(M, F, opt, r, num, den) ==
  LET G == {v \in F : ObjAtLeast(M, num, den, opt, v)} rg == RangeIn(G, r) IN
  [vals |-> <<Num(rg[1]), Num(rg[2])>>, status |-> "-"]
\* essential: growth is nan or below 1 % of the optimum
EssentialKO(M, opt, R) == LET K == KnockOut(M, R) IN Infeasible(K) \/ 100 * Opt(K) < opt

FvaKinds == {"fva", "fva0", "lfva"}
DelKinds == {"srd", "sgd", "drd", "dgd"}
SetKinds == {"blocked", "essg", "essr"}
GeneKinds == {"sgd", "dgd", "essg"}
FracNum(kind) == IF kind = "fva0" THEN 0 ELSE 1

\* the lattice is the LP for these questions on these instances (finite integer bounds, unit network,
\* single-reaction objective): fraction 1 is a face, fraction 0 a bound on the objective reaction.
\* Loopless ranges and blocked sets are the business of C05 / C19 (recorded findings there): they are
\* compared across configurations only.
LatticeDecides(I, kind) ==
  /\ IsUnitNetwork(I.M) /\ AllFinite(I.M)
  /\ kind \in {"fva", "fva0", "srd", "sgd", "drd", "dgd", "essg", "essr"}
  /\ kind \in {"fva", "fva0", "essg", "essr"} => HasOpt(I.M)
  /\ kind = "fva0" => FracIsBound(I.M, 0, 1, Opt(I.M))
\* C05's own scope for fractions below 1: the optimum has the sign of the direction
FvaInScope(I, kind) == kind = "fva0" => SignOK(I.M, Opt(I.M))

\* expected row of one item (item = set of ids) -- meaningful iff LatticeDecides
ExpRow(I, kind, item, F, opt) ==
  CASE kind \in {"fva", "fva0"} -> ExpFVA(I.M, F, opt, PosOf(I.M.rxns, CHOOSE x \in item : TRUE), FracNum(kind), 1)
    [] kind \in {"srd", "drd"} -> ExpKO(I.M, RxnIdxOf(I, item))
    [] kind \in {"sgd", "dgd"} -> ExpKO(I.M, DisabledBy(I, item))
    [] OTHER -> [vals |-> <<>>, status |-> "-"]
ExpEssential(I, kind) ==
  LET opt == Opt(I.M) IN
  IF kind = "essr" THEN {{I.M.rxns[r]} : r \in {q \in RIdx(I.M) : EssentialKO(I.M, opt, {q})}}
  ELSE {{g} : g \in {h \in GenesOf(I) : EssentialKO(I.M, opt, DisabledBy(I, {h}))}}

\* ---------------------------------------------------------------- root-cause tags (findings filter)
OnCycle(M, r) == \E z \in Cycles(M) : z[r] # 0
=============================================================================
