----------------------------- MODULE CobraModel -----------------------------
(***************************************************************************)
(* State machine over CobraModelOps: histories of public calls on (up to   *)
(* two) cobra.Model objects.  TLC (a) checks the design invariants on      *)
(* every reachable state of the walks and (b) emits each walk as one JSON  *)
(* line for the conformance driver.                                        *)
(*                                                                         *)
(* Walks are pseudo-random but reproducible: operations and arguments are  *)
(* drawn by an LCG carried in the state and seeded from the constant Seed; *)
(* Profile selects the action mix (edit / ctx / ko / copy / io / analyze). *)
(***************************************************************************)
EXTENDS CobraModelOps, Json

CONSTANTS Profile, Depth, NWalks, Seed, Emit,
          FullSet,   \* "all" | "bounds": which part of FullOps is enumerated
          Mode       \* "walk": seeded pseudo-random walks; "full": EVERY sequence of Depth operations of the small
                     \* vocabulary FullOps applied inside a context opened on seed model 1 (exhaustive)

VARIABLES st, hist, rng, walk
vars == <<st, hist, rng, walk>>

RxSeq8 == <<"r1", "r2", "r3", "r4", "EX_m3", "EX_m4", "DM_m1", "SK_m2">>
MetSeq4 == <<"m1", "m2", "m3", "m4">>
MetSeq5 == <<"m1", "m2", "m3", "m4", "m5">>        \* (m5: a spare internal identifier -- the target of renames)
GeneSeq4 == <<"g1", "g2", "g3", "g4">>
GrpSeq1 == <<"grp1">>

LCG(r) == (r * 75 + 74) % 65537
RECURSIVE Draws(_, _)
Draws(r, n) == IF n = 0 THEN <<>> ELSE <<LCG(r)>> \o Draws(LCG(r), n - 1)
Pick(seq, d) == seq[(d % Len(seq)) + 1]
\* prefer entities that are present (7 of 8 draws)
PickPresent(useq, present, d) ==
  LET p == SelectSeq(useq, LAMBDA x : x \in present) IN
  IF Len(p) = 0 \/ d % 8 = 7 THEN Pick(useq, d \div 8) ELSE Pick(p, d \div 8)

\* a lower bound of +inf / an upper bound of -inf leaves no admissible flux at all: out of scope
LoVals == <<-INF, -2000, -1000, -1000, -5, 0, 0, 0, 5, 1000, 2000>>
HiVals == <<-2000, -1000, -5, 0, 0, 5, 1000, 1000, 1000, 2000, INF>>
CoefVals == <<-2, -1, 1, 2>>
Or3(a, b, c) == [k |-> "or", id |-> "", ch |-> <<a, b, c>>]
RuleU == <<RuleNone, G("g1"), G("g2"), G("g3"), And2(G("g1"), G("g2")), Or2(G("g1"), G("g2")),
           Or2(And2(G("g1"), G("g2")), G("g3")), And2(G("g1"), Or2(G("g2"), G("g3"))), Or2(G("g2"), G("g3")),
           And2(Or2(G("g1"), G("g3")), Or2(G("g2"), G("g3"))),
           \* a gene named more than once in one rule (isozyme lists are curated by hand)
           Or3(G("g2"), G("g3"), G("g2")), And2(G("g1"), Or3(G("g3"), G("g4"), G("g3")))>>
PlainRx == <<"r1", "r2", "r3", "r4">>

St1(m1, k1, m2, k2) == [m \in MetU |-> IF m = m1 THEN k1 ELSE IF m = m2 THEN k2 ELSE 0]
Spec(id, st0, lo, hi, rule) == [id |-> id, st |-> st0, lb |-> lo, ub |-> hi, rule |-> rule]

\* seed models, as the operations that build them
SeedOps(k, solver) ==
  LET new == [a |-> "NewModel", s |-> 1, solver |-> solver] IN
  CASE k = 0 -> <<new>>
    [] k = 1 -> <<new,      \* chain with exchanges, nested rules, objective r3
          [a |-> "AddReactions", s |-> 1, shape |-> 0, specs |-> <<
               Spec("EX_m3", St1("m3", -1, "m3", -1), -10, 1000, RuleNone),
               Spec("r1", St1("m3", -1, "m1", 1), 0, 1000, G("g1")),
               Spec("r2", St1("m1", -1, "m2", 1), -1000, 1000, And2(G("g1"), G("g2"))),
               Spec("r3", St1("m2", -1, "m4", 1), 0, 1000, Or2(G("g2"), G("g3"))),
               Spec("EX_m4", St1("m4", -1, "m4", -1), 0, 1000, RuleNone)>>],
          [a |-> "SetObjective", s |-> 1, form |-> 0, d |-> [r \in RxU |-> IF r = "r3" THEN 1 ELSE 0]]>>
    [] k = 2 -> <<new,      \* internal cycle with shared genes, a group, minimisation
          [a |-> "AddReactions", s |-> 1, shape |-> 1, specs |-> <<
               Spec("r1", St1("m1", -1, "m2", 1), 0, 1000, Or2(And2(G("g1"), G("g2")), G("g3"))),
               Spec("r2", St1("m2", -2, "m1", 2), -5, 5, G("g1")),
               Spec("r3", St1("m1", -1, "m3", 1), 0, 5, RuleNone),
               Spec("r4", St1("m3", 1, "m3", 1), -1000, 0, G("g3"))>>],
          [a |-> "AddGroup", s |-> 1, g |-> "grp1", members |-> <<"r1", "m1">>],
          [a |-> "SetObjective", s |-> 1, form |-> 1, d |-> [r \in RxU |-> IF r = "r3" THEN 1 ELSE 0]],
          [a |-> "SetDirection", s |-> 1, dir |-> "min"]>>
    [] k = 3 -> <<new,      \* user constraint / variable, infinite bounds
          [a |-> "AddReactions", s |-> 1, shape |-> 0, specs |-> <<
               Spec("r1", St1("m1", 1, "m1", 1), 0, INF, G("g1")),
               Spec("r2", St1("m1", -1, "m2", 2), -INF, INF, Or2(G("g1"), G("g2"))),
               Spec("r3", St1("m2", -1, "m2", -1), 0, 2000, RuleNone)>>],
          \* (the variable first: the user constraint then has a term in it, see the driver)
          [a |-> "AddUserVar", s |-> 1, name |-> "uv1"],
          [a |-> "AddUserCons", s |-> 1, name |-> "uc1"],
          [a |-> "SetObjective", s |-> 1, form |-> 2, d |-> [r \in RxU |-> IF r = "r3" THEN 2 ELSE IF r = "r1" THEN -1 ELSE 0]]>>

RECURSIVE ApplyAll(_, _)
ApplyAll(ops, S) == IF ops = <<>> THEN S ELSE ApplyAll(Tail(ops), Apply(Head(ops), S).st)

\* ------------------------------------------------------------- action mixes
Mix ==
  CASE Profile = "edit" -> <<"AddReactions", "AddReactions", "RemoveReactions", "RemoveReactions", "AddMetabolites",
                             "RemoveMetabolites", "RemoveMetabolites", "AddBoundary", "RxnAddMetabolites",
                             "RxnAddMetabolites", "RxnSubtractMetabolites", "RxnIMul", "RxnIAdd", "RxnISub", "SetLB",
                             "SetUB", "SetBounds", "RxnKnockOut", "SetRule", "SetRule", "GeneKnockOut",
                             "KnockOutModelGenes", "RemoveGenes", "RenameGene", "RenameReaction", "RenameMetabolite",
                             "SetObjective", "SetObjCoef", "SetDirection", "SetMedium", "GetMedium", "SwitchSolver",
                             "AddUserCons", "AddUserVar", "RemoveUserCons", "RemoveUserVar", "AddGroup", "RemoveGroup",
                             "GroupAddMembers", "GroupRemoveMembers",
                             "Copy", "Enter", "Exit", "RoundTrip", "DetachedSetBounds", "DetachedRename", "DetachedRename", "ReAddDetached", "RxnArith", "Merge", "SaveDoc", "LoadDoc", "BuildFromString", "BuildFromString",
                             "SetFunctional", "Repair", "ReAddDetached", "ReAddDetached", "AddArith", "FixObjective", "SetAttr", "SetTolerance",
                             "AddSBO", "Query", "Query", "Prune", "SetCompName">>
    [] Profile = "ctx" -> <<"Enter", "Enter", "Enter", "Exit", "Exit", "Exit", "AddReactions", "RemoveReactions",
                            "RemoveReactions", "AddMetabolites", "RemoveMetabolites", "AddBoundary", "RxnAddMetabolites",
                            "RxnAddMetabolites", "RxnSubtractMetabolites", "RxnIMul", "RxnIAdd", "RxnISub", "SetLB", "SetUB",
                            "SetBounds", "RxnKnockOut", "SetRule", "GeneKnockOut", "KnockOutModelGenes", "RemoveGenes",
                            "RenameGene", "SetObjective", "SetObjCoef", "SetDirection", "SetMedium", "SwitchSolver",
                            "AddUserCons", "AddUserVar", "RemoveUserCons", "RemoveUserVar", "Helper", "Helper",
                            "DetachedSetBounds", "DetachedSetBounds", "Copy", "Merge", "BuildFromString", "SetFunctional", "RenameReaction",
                            "RenameMetabolite", "SwitchSolver", "ReAddDetached", "ReAddDetached", "Repair", "FixObjective", "Query">>
    [] Profile = "ko" -> <<"GeneKnockOut", "GeneKnockOut", "GeneKnockOut", "KnockOutModelGenes", "KnockOutModelGenes",
                           "RxnKnockOut", "SetRule", "SetRule", "Enter", "Exit", "SetBounds", "AddReactions", "SetFunctional",
                           \* rules rewritten in place between knock-outs
                           "RemoveGenes", "RenameGene">>
    [] Profile = "copy" -> <<"Copy", "Copy", "AddReactions", "RemoveReactions", "RemoveMetabolites", "RxnAddMetabolites",
                             "RxnIMul", "SetBounds", "SetRule", "GeneKnockOut", "RemoveGenes", "RenameGene", "RenameReaction",
                             "RenameMetabolite", "SetObjective", "SetDirection", "SetMedium", "AddUserCons", "AddGroup", "AddGroup",
                             "GroupAddMembers", "GroupRemoveMembers",
                             "RemoveGroup", "Annotate", "Annotate", "Annotate", "Analyze", "Enter", "Exit", "SwitchSolver",
                             "RxnArith", "RxnArith", "Merge", "Merge", "MergeNew", "AddArith", "AddArith", "AddArith", "SetAttr",
                             "SetAttr", "SetTolerance", "SetTolerance", "Prune", "Prune", "Query", "AddSBO", "SetCompName", "SetCompName">>
    [] Profile = "io" -> <<"RoundTrip", "RoundTrip", "RoundTrip", "RoundTrip", "AddReactions", "RemoveReactions", "RxnAddMetabolites",
                           "SetBounds", "SetBounds", "SetLB", "SetUB", "SetRule", "SetObjective", "SetObjCoef",
                           "SetDirection", "AddBoundary", "AddGroup", "AddGroup", "GroupAddMembers", "GroupRemoveMembers", "Annotate", "Annotate", "Annotate", "RenameGene",
                           "AddMetabolites", "Copy", "SaveDoc", "SaveDoc", "LoadDoc", "LoadDoc", "SetAttr", "SetAttr",
                           "SetAttr", "AddSBO", "Query", "SetCompName", "SetCompName">>
    [] Profile = "analyze" -> <<"Analyze", "Analyze", "Analyze", "Analyze", "FixObjective", "SetBounds", "SetObjective", "SetDirection",
                                "RemoveReactions", "AddReactions", "GeneKnockOut", "Enter", "Exit", "RxnKnockOut">>

AnalysisKinds == <<"optimize", "optimize_min", "slim_optimize", "fva", "fva_loopless", "find_blocked", "essential_genes",
                   "essential_reactions", "pfba", "moma", "room", "geometric_fba", "loopless_solution",
                   "single_gene_deletion", "single_reaction_deletion", "double_gene_deletion", "production_envelope",
                   "minimal_medium", "minimal_medium_components", "fastcc", "sample_achr", "sample_optgp",
                   "model_summary", "metabolite_summary", "reaction_summary", "gapfill", "assess", "fva_parallel",
                   "single_gene_deletion_parallel", "find_essential_genes_parallel", "add_loopless_ctx", "medium_get",
                   \* calls that are rejected part-way (an identifier that is no reaction of the model; exchanges already opened)
                   "find_blocked_bad_list", "fva_bad_list", "deletion_bad_list">>
Formats == <<"json", "yaml", "dict", "pickle", "sbml", "json_file", "yaml_file", "sbml_file", "json_sorted", "sbml_freplace_off">>
HelperKinds == <<"add_pfba", "add_moma", "add_room", "fix_objective_as_constraint", "add_loopless", "add_lp_feasibility",
                 "custom_objective">>

\* ------------------------------------------------------------- drawing one operation
DrawSpec(C, ds) ==
  LET id == PickPresent(PlainRx, RxU \ C.rxns, ds[1])      \* prefer an id that is NOT in the model yet
      ma == Pick(MetSeq, ds[2]) mb == Pick(MetSeq, ds[3])
      lo == Pick(LoVals, ds[4]) hi == Pick(HiVals, ds[5]) IN
  Spec(id, St1(ma, Pick(CoefVals, ds[6]), mb, Pick(CoefVals, ds[7])),
       Min2(lo, hi), Max2(lo, hi), Pick(RuleU, ds[8]))
DrawD(C, ds) ==     \* a sparse metabolite -> coefficient dictionary with 1..2 entries
  LET ma == PickPresent(MetSeq, C.mets, ds[1]) mb == Pick(MetSeq, ds[2]) two == ds[3] % 3 = 0 IN
  [m \in MetU |-> IF m = ma THEN Pick(CoefVals, ds[4]) ELSE IF two /\ m = mb THEN Pick(CoefVals, ds[5]) ELSE 0]

DrawOp(r, S) ==
  LET d == Draws(r, 24)
      s == IF IsModel(S.m[2]) /\ d[1] % 3 = 0 THEN 2 ELSE 1
      C == IF IsModel(S.m[s]) THEN S.m[s] ELSE EmptyContent("glpk")
      k0 == Pick(Mix, d[2])
      \* switching the solver inside an open context is a known finding (F38) that shadows the rest of the
      \* walk: keep it rare
      k1 == IF k0 = "SwitchSolver" /\ IsModel(S.m[s]) /\ Len(S.ctx[s]) > 0 /\ d[23] % 5 # 0 THEN "SetDirection" ELSE k0
      \* operations that are not documented as reversible (renaming, groups, annotations) are exercised outside
      \* contexts only: C03 quantifies over documented-as-reversible changes
      \* (renames are let through now and then: their contexts are tainted, the invariants are still judged)
      k == IF k1 \in (NotContextAware \ {"DetachedSetBounds"}) /\ IsModel(S.m[s]) /\ Len(S.ctx[s]) > 0
              /\ ~(k1 \in {"RenameReaction", "RenameMetabolite"} /\ d[22] % 3 = 0)
           THEN "SetObjCoef" ELSE k1
      rx == PickPresent(RxSeq, C.rxns, d[3])
      rx2 == PickPresent(RxSeq, C.rxns, d[4])
      mt == PickPresent(MetSeq, C.mets, d[5])
      gn == PickPresent(GeneSeq, C.genes, d[6])
      gn2 == PickPresent(GeneSeq, C.genes, d[7])
      base == [a |-> k, s |-> s]
  IN
  CASE k = "AddReactions" ->
         base @@ [shape |-> d[8] % 4,
                  specs |-> IF d[9] % 3 = 0 THEN <<DrawSpec(C, SubSeq(d, 10, 17)), DrawSpec(C, SubSeq(d, 16, 23))>>
                            ELSE <<DrawSpec(C, SubSeq(d, 10, 17))>>]
    [] k = "RemoveReactions" ->
         base @@ [rs |-> IF d[8] % 4 = 0 /\ rx # rx2 THEN <<rx, rx2>> ELSE <<rx>>, orphans |-> d[9] % 2 = 0, form |-> d[10] % 3]
    [] k = "AddMetabolites" -> base @@ [ms |-> IF d[8] % 3 = 0 /\ Pick(MetSeq, d[9]) # Pick(MetSeq, d[10])
                                              THEN <<Pick(MetSeq, d[9]), Pick(MetSeq, d[10])>> ELSE <<Pick(MetSeq, d[9])>>]
    [] k = "RemoveMetabolites" -> base @@ [ms |-> <<mt>>, destructive |-> d[8] % 3 = 0, form |-> d[9] % 2]
    [] k = "AddBoundary" -> LET m == mt IN
         base @@ [met |-> m, type |-> IF m \in ExtMets THEN (IF d[8] % 4 = 0 THEN "sink" ELSE "exchange")
                                       ELSE Pick(<<"demand", "sink", "exchange">>, d[8])]
    [] k \in {"RxnAddMetabolites", "RxnSubtractMetabolites"} ->
         base @@ [r |-> rx, d |-> DrawD(C, SubSeq(d, 8, 12)), combine |-> d[13] % 3 # 0, form |-> d[14] % 4]
    [] k = "RxnIMul" -> base @@ [r |-> rx, k |-> Pick(<<2, -1, 3, -2, 7, 0>>, d[8])]
    [] k \in {"RxnIAdd", "RxnISub"} -> base @@ [r |-> rx, q |-> rx2]
    [] k = "SetLB" -> base @@ [r |-> rx, v |-> Pick(LoVals, d[8])]
    [] k = "SetUB" -> base @@ [r |-> rx, v |-> Pick(HiVals, d[8])]
    [] k = "SetBounds" -> base @@ [r |-> rx, lo |-> Pick(LoVals, d[8]), hi |-> Pick(HiVals, d[9])]
    [] k = "RxnKnockOut" -> base @@ [r |-> rx]
    [] k = "BuildFromString" -> base @@ [r |-> rx, d |-> DrawD(C, SubSeq(d, 8, 12)), arrow |-> Pick(<<"fwd", "rev", "both">>, d[13]),
                                         \* spelling of the equation: 0 plain, 1 a catalyst on both sides, 2 one term split in two (same meaning)
                                         spell |-> d[14] % 3]
    [] k = "SetFunctional" -> base @@ [g |-> gn, b |-> d[8] % 2 = 0]
    [] k = "Repair" -> base
    [] k = "AddSBO" -> base
    [] k = "SetCompName" -> base @@ [c |-> 1 + (d[8] % 3), v |-> d[9] % 4]
    [] k = "Query" -> base
    [] k = "Prune" -> [a |-> k, s |-> s, t |-> 3 - s, kind |-> Pick(<<"mets", "rxns">>, d[8])]
    [] k = "FixObjective" -> base
    [] k = "RxnArith" -> base @@ [r |-> rx, q |-> rx2, kind |-> Pick(<<"copy", "add", "sub", "mul", "radd0", "sum1">>, d[8]), k |-> Pick(<<2, -1, 3, -2, 0>>, d[9])]
    [] k = "ReAddDetached" -> base @@ [r |-> PickPresent(RxSeq, RxU \ C.rxns, d[3])]
    [] k = "DetachedRename" -> base @@ [r |-> PickPresent(RxSeq, RxU \ C.rxns, d[3]), new |-> PickPresent(RxSeq, RxU \ C.rxns, d[8])]
    [] k = "DetachedSetBounds" -> base @@ [r |-> PickPresent(RxSeq, RxU \ C.rxns, d[3]), lo |-> Pick(LoVals, d[8]), hi |-> Pick(HiVals, d[9])]
    [] k = "SetRule" -> base @@ [r |-> rx, rule |-> Pick(RuleU, d[8]), form |-> d[9] % 2]
    [] k = "GeneKnockOut" -> base @@ [g |-> gn]
    [] k = "KnockOutModelGenes" -> base @@ [gs |-> IF d[8] % 2 = 0 /\ gn # gn2 THEN <<gn, gn2>> ELSE <<gn>>, form |-> d[9] % 3,
                                            bad |-> IF d[10] % 6 = 0 THEN 1 ELSE 0]
    [] k = "RemoveGenes" -> base @@ [gs |-> IF d[8] % 3 = 0 /\ gn # gn2 THEN <<gn, gn2>> ELSE <<gn>>, rr |-> d[9] % 2 = 0, form |-> d[10] % 2]
    [] k = "RenameGene" ->
         LET new1 == Pick(GeneSeq, d[8])
             new2 == IF d[9] % 2 = 0 THEN new1 ELSE Pick(GeneSeq, d[10])
             two == d[11] % 2 = 0 /\ gn2 # gn /\ new1 \notin {gn, gn2} /\ new2 \notin {gn, gn2} IN
         base @@ [g |-> gn, new |-> new1, more |-> IF two THEN <<[g |-> gn2, new |-> new2]>> ELSE <<>>]
    [] k = "RenameReaction" -> base @@ [r |-> rx, new |-> Pick(PlainRx, d[8])]
    [] k = "RenameMetabolite" -> base @@ [met |-> mt, new |-> IF mt \in ExtMets THEN Pick(<<"m3", "m4">>, d[8]) ELSE Pick(<<"m1", "m2">>, d[8])]
    [] k = "SetObjective" ->
         base @@ [form |-> d[8] % 4,
                  d |-> IF d[8] % 4 = 0 /\ d[12] % 6 = 0 THEN [x \in RxU |-> 0]      \* the empty dictionary
                        ELSE IF d[8] % 4 # 0 THEN [x \in RxU |-> IF x = rx THEN 1 ELSE 0]
                        ELSE [x \in RxU |-> IF x = rx THEN Pick(<<1, 2, -1>>, d[9])
                                            ELSE IF x = rx2 /\ d[10] % 2 = 0 THEN Pick(<<1, -1, 2>>, d[11]) ELSE 0]]
    [] k = "SetObjCoef" -> base @@ [r |-> rx, v |-> Pick(<<0, 1, 2, -1>>, d[8])]
    [] k = "SetDirection" -> base @@ [dir |-> Pick(<<"max", "min">>, d[8])]
    [] k = "SetMedium" ->
         LET ex == Exchanges(C) IN
         base @@ [d |-> [x \in RxU |-> IF x \in ex /\ BitSet(d[8], ((CHOOSE i \in 1..Len(RxSeq) : RxSeq[i] = x) % 5) + 1)
                                       THEN Pick(<<0, 5, 10, 1000>>, d[9] + (CHOOSE i \in 1..Len(RxSeq) : RxSeq[i] = x))
                                       ELSE Missing]]
    [] k = "GetMedium" -> base
    [] k = "SwitchSolver" -> base @@ [solver |-> Pick(<<"glpk", "glpk_exact">>, d[8])]
    [] k = "SetTolerance" -> base @@ [k |-> Pick(<<9, 6, 7>>, d[8])]
    [] k \in {"AddUserCons", "RemoveUserCons"} -> base @@ [name |-> Pick(<<"uc1", "uc2">>, d[8])]
    [] k \in {"AddUserVar", "RemoveUserVar"} -> base @@ [name |-> Pick(<<"uv1", "uv2">>, d[8])]
    [] k = "AddGroup" -> base @@ [g |-> "grp1", members |-> IF d[8] % 2 = 0 THEN <<rx, mt>> ELSE <<rx, gn>>]
    [] k = "RemoveGroup" -> base @@ [g |-> "grp1"]
    [] k \in {"GroupAddMembers", "GroupRemoveMembers"} -> base @@ [g |-> "grp1", members |-> IF d[8] % 3 = 0 THEN <<rx>> ELSE IF d[8] % 3 = 1 THEN <<mt, gn>> ELSE <<gn>>]
    [] k = "Annotate" -> base @@ [x |-> IF Profile = "io" /\ d[11] % 2 = 0 THEN "MODEL" ELSE Pick(<<rx, mt, gn, "MODEL">>, d[8]),
                                  v |-> 1 + (d[9] % 7), via |-> d[10] % 3]
    [] k = "SetAttr" ->
         LET f == Pick(<<"name", "formula", "charge", "subsys", "name", "charge", "comp">>, d[8]) IN
         base @@ [field |-> f, x |-> IF f \in {"formula", "charge"} THEN mt ELSE IF f = "subsys" THEN rx
                                     ELSE IF f = "comp" THEN Pick(<<"m1", "m2">>, d[9]) ELSE Pick(<<rx, mt, gn>>, d[9]),
                  v |-> IF f = "charge" THEN Pick(<<99, 0, 2, -1>>, d[10]) ELSE IF f = "comp" THEN Pick(<<3, 1, 3>>, d[10]) ELSE 1 + (d[10] % 3)]
    [] k = "Copy" -> [a |-> k, s |-> 1, t |-> 2, kind |-> Pick(<<"copy", "deepcopy", "pickle">>, d[8])]
    [] k \in {"Merge", "MergeNew"} -> [a |-> k, s |-> s, t |-> 3 - s, obj |-> Pick(<<"left", "left", "right", "sum">>, d[8])]
    [] k = "AddArith" -> [a |-> k, s |-> s, t |-> IF d[10] % 3 = 0 THEN s ELSE 3 - s, r |-> rx, q |-> rx2,
                          kind |-> Pick(<<"add", "copy", "add", "sub", "mul", "sum1">>, d[8]), k |-> Pick(<<2, -1>>, d[9]),
                          new |-> PickPresent(PlainRx, RxU \ C.rxns, d[11])]
    [] k = "Enter" -> base
    \* exc: the block ends by an exception (__exit__ is called with the exception triple) -- same meaning
    [] k = "Exit" -> base @@ [exc |-> d[9] % 3 = 0]
    [] k = "RoundTrip" -> base @@ [fmt |-> Pick(Formats, d[8])]
    [] k = "SaveDoc" -> base @@ [fmt |-> Pick(<<"json", "yaml", "dict", "sbml", "pickle">>, d[8])]
    [] k = "LoadDoc" -> [a |-> k, s |-> IF d[8] % 2 = 0 THEN 1 ELSE 2]
    [] k = "Analyze" -> base @@ [kind |-> Pick(AnalysisKinds, d[8]), arg |-> d[9] % 4]
    [] k = "Helper" -> base @@ [kind |-> Pick(HelperKinds, d[8])]

\* ------------------------------------------------------------- exhaustive small-scope vocabulary (Mode = "full")
\* all on reaction r1 of seed model 1 (bounds (0, 1000), rule g1, in the chain EX_m3 -> r1 -> r2 -> r3 -> EX_m4)
D1(m, k) == [x \in MetU |-> IF x = m THEN k ELSE 0]
\* (two values per setter at depth 3, three at depth >= 4)
BoundOps ==
  {[a |-> "SetLB", s |-> 1, r |-> "r1", v |-> v] : v \in (IF Depth >= 4 THEN {-10, 5, 1500} ELSE {-10, 1500})}
  \cup {[a |-> "SetUB", s |-> 1, r |-> "r1", v |-> v] : v \in (IF Depth >= 4 THEN {-5, 500, 2000} ELSE {-5, 2000})}
  \cup {[a |-> "SetBounds", s |-> 1, r |-> "r1", lo |-> -5, hi |-> 5],
        [a |-> "RxnKnockOut", s |-> 1, r |-> "r1"],
        [a |-> "GeneKnockOut", s |-> 1, g |-> "g1"],
        [a |-> "Enter", s |-> 1], [a |-> "Exit", s |-> 1, exc |-> TRUE]}
\* io vocabulary: export / import separated in time, edits through mutable containers in between
IoOps ==
  {[a |-> "RoundTrip", s |-> 1, fmt |-> f] : f \in {"json", "yaml", "sbml", "pickle"}}
  \cup {[a |-> "SaveDoc", s |-> 1, fmt |-> f] : f \in {"json", "sbml", "dict"}}
  \cup {[a |-> "LoadDoc", s |-> t] : t \in {1, 2}}
  \cup {[a |-> "Annotate", s |-> 1, x |-> "MODEL", v |-> 3, via |-> 2],
        [a |-> "Annotate", s |-> 1, x |-> "m1", v |-> 6, via |-> 2],
        [a |-> "Annotate", s |-> 1, x |-> "r2", v |-> 6, via |-> 2],
        [a |-> "Annotate", s |-> 1, x |-> "r1", v |-> 7, via |-> 0],
        [a |-> "Annotate", s |-> 1, x |-> "g1", v |-> 4, via |-> 0],
        [a |-> "SetAttr", s |-> 1, x |-> "m1", field |-> "charge", v |-> 0],
        [a |-> "SetAttr", s |-> 1, x |-> "m1", field |-> "formula", v |-> 2],
        [a |-> "SetAttr", s |-> 1, x |-> "m2", field |-> "comp", v |-> 3],
        [a |-> "SetCompName", s |-> 1, c |-> 3, v |-> 3],
        [a |-> "SetBounds", s |-> 1, r |-> "r1", lo |-> 1500, hi |-> 2000],
        [a |-> "SetDirection", s |-> 1, dir |-> "min"]}
\* copy vocabulary: two models (slot 2 = copy of slot 1, seed model 2), edits on either side, detached results of
\* reaction arithmetic travelling from one model to the other
CopyOps ==
  {[a |-> "AddArith", s |-> 1, t |-> 2, r |-> "r3", q |-> "r1", kind |-> "add", k |-> 2, new |-> "EX_m4"],
   [a |-> "AddArith", s |-> 2, t |-> 1, r |-> "r1", q |-> "r2", kind |-> "copy", k |-> 2, new |-> "EX_m4"],
   [a |-> "RxnArith", s |-> 1, r |-> "r1", q |-> "r2", kind |-> "sum1", k |-> 2],
   [a |-> "RxnArith", s |-> 2, r |-> "r3", q |-> "r2", kind |-> "radd0", k |-> 2],
   [a |-> "RemoveGenes", s |-> 2, gs |-> <<"g1">>, rr |-> FALSE, form |-> 0],
   [a |-> "RemoveGenes", s |-> 1, gs |-> <<"g3">>, rr |-> FALSE, form |-> 1],
   [a |-> "RenameGene", s |-> 2, g |-> "g1", new |-> "g4", more |-> <<>>],
   [a |-> "Annotate", s |-> 2, x |-> "g1", v |-> 2, via |-> 0],
   [a |-> "Annotate", s |-> 1, x |-> "m1", v |-> 3, via |-> 2],
   [a |-> "SetTolerance", s |-> 1, k |-> 9],
   [a |-> "SetCompName", s |-> 2, c |-> 1, v |-> 1],
   \* a reaction of the copy is given a metabolite OBJECT of the original whose id the copy has lost
   [a |-> "RemoveMetabolites", s |-> 2, ms |-> <<"m3">>, destructive |-> FALSE, form |-> 0],
   [a |-> "RxnAddMetabolites", s |-> 2, r |-> "r1", d |-> D1("m3", 1), combine |-> TRUE, form |-> 3],
   [a |-> "SetAttr", s |-> 2, x |-> "m3", field |-> "charge", v |-> 2],
   [a |-> "Copy", s |-> 1, t |-> 2, kind |-> "deepcopy"],
   [a |-> "SetBounds", s |-> 2, r |-> "r1", lo |-> -5, hi |-> 5],
   [a |-> "RxnIMul", s |-> 2, r |-> "r2", k |-> -1],
   [a |-> "SetRule", s |-> 2, r |-> "r3", rule |-> G("g2"), form |-> 1],
   [a |-> "GeneKnockOut", s |-> 1, g |-> "g1"],
   [a |-> "Merge", s |-> 1, t |-> 2, obj |-> "left"],
   [a |-> "Merge", s |-> 2, t |-> 1, obj |-> "sum"],
   [a |-> "MergeNew", s |-> 1, t |-> 2, obj |-> "right"],
   [a |-> "SetDirection", s |-> 2, dir |-> "min"],
   [a |-> "Enter", s |-> 1], [a |-> "Exit", s |-> 1]}
\* analysis vocabulary: analyses (each called twice by the driver) after / between the edits that leave hidden
\* state behind: a constraint added for good, an open or closed context, a changed objective
AnalyzeOps ==
  {[a |-> "Analyze", s |-> 1, kind |-> k, arg |-> 1] : k \in {"pfba", "optimize_min", "fva", "room", "minimal_medium", "find_blocked",
                                                               "find_blocked_bad_list"}}
  \cup {[a |-> "FixObjective", s |-> 1],
        [a |-> "SetObjective", s |-> 1, form |-> 0, d |-> [x \in RxU |-> IF x = "r2" THEN 1 ELSE 0]],
        [a |-> "SetBounds", s |-> 1, r |-> "r1", lo |-> 0, hi |-> 5],
        [a |-> "Enter", s |-> 1], [a |-> "Exit", s |-> 1]}
\* detached-object vocabulary: a reaction leaves the model, is edited, comes back -- inside nested contexts
DetOps ==
  {[a |-> "RemoveReactions", s |-> 1, rs |-> <<"r1">>, orphans |-> TRUE, form |-> 0],
   [a |-> "RemoveReactions", s |-> 1, rs |-> <<"r1">>, orphans |-> FALSE, form |-> 1],
   [a |-> "ReAddDetached", s |-> 1, r |-> "r1"],
   [a |-> "DetachedSetBounds", s |-> 1, r |-> "r1", lo |-> 0, hi |-> 5],
   [a |-> "DetachedRename", s |-> 1, r |-> "r1", new |-> "r4"],
   [a |-> "ReAddDetached", s |-> 1, r |-> "r4"],
   [a |-> "Copy", s |-> 1, t |-> 2, kind |-> "pickle"],
   [a |-> "RemoveGenes", s |-> 1, gs |-> <<"g1">>, rr |-> FALSE, form |-> 0],
   [a |-> "RemoveMetabolites", s |-> 1, ms |-> <<"m1">>, destructive |-> FALSE, form |-> 0],
   [a |-> "Enter", s |-> 1], [a |-> "Exit", s |-> 1]}
\* knock-out vocabulary on seed model 1 (rules g1; g1 and g2; g2 or g3): knock-outs in any order, one at a time or
\* together, between edits that rewrite the rules in place (gene removal, renaming) or replace them
KoOps ==
  {[a |-> "GeneKnockOut", s |-> 1, g |-> g] : g \in {"g1", "g2", "g3"}}
  \cup {[a |-> "KnockOutModelGenes", s |-> 1, gs |-> <<"g2">>, form |-> 0],
        [a |-> "KnockOutModelGenes", s |-> 1, gs |-> <<"g3", "g1">>, form |-> 1],
        \* a failing call: two genes of one complex (r2: g1 and g2), then an identifier that is no gene
        [a |-> "KnockOutModelGenes", s |-> 1, gs |-> <<"g1", "g2">>, form |-> 1, bad |-> 1],
        [a |-> "RemoveGenes", s |-> 1, gs |-> <<"g3">>, rr |-> FALSE, form |-> 0],
        [a |-> "RemoveGenes", s |-> 1, gs |-> <<"g1">>, rr |-> FALSE, form |-> 1],
        [a |-> "RenameGene", s |-> 1, g |-> "g2", new |-> "g4", more |-> <<>>],
        [a |-> "SetRule", s |-> 1, r |-> "r3", rule |-> And2(G("g2"), G("g3")), form |-> 0],
        [a |-> "SetRule", s |-> 1, r |-> "r3", rule |-> Or3(G("g2"), G("g3"), G("g2")), form |-> 1],
        [a |-> "Enter", s |-> 1], [a |-> "Exit", s |-> 1]}
\* the same outside any context: a reaction object leaves the model, is renamed / edited, comes back (or a
\* new reaction takes the identifier it gave up), the model is pickled
Det0Ops ==
  {[a |-> "RemoveReactions", s |-> 1, rs |-> <<"r1">>, orphans |-> FALSE, form |-> 1],
   [a |-> "DetachedRename", s |-> 1, r |-> "r1", new |-> "r4"],
   [a |-> "DetachedSetBounds", s |-> 1, r |-> "r1", lo |-> 0, hi |-> 5],
   [a |-> "ReAddDetached", s |-> 1, r |-> "r4"],
   [a |-> "ReAddDetached", s |-> 1, r |-> "r1"],
   [a |-> "AddReactions", s |-> 1, shape |-> 1, specs |-> <<Spec("r1", St1("m1", -1, "m2", 1), -5, 5, G("g2"))>>],
   [a |-> "Copy", s |-> 1, t |-> 2, kind |-> "pickle"]}
\* objective vocabulary: an analysis helper (add_pfba) or an objective the user wrote over solver variables is in
\* place (FullPrefix); inner contexts, edits of the objective, removal of an objective reaction, analyses
ObjOps ==
  {[a |-> "SetObjCoef", s |-> 1, r |-> "r1", v |-> 2],
   [a |-> "SetObjCoef", s |-> 1, r |-> "r3", v |-> 0],
   [a |-> "SetObjective", s |-> 1, form |-> 1, d |-> [x \in RxU |-> IF x = "r2" THEN 1 ELSE 0]],
   [a |-> "Analyze", s |-> 1, kind |-> "optimize_min", arg |-> 0],
   [a |-> "RemoveReactions", s |-> 1, rs |-> <<"r3">>, orphans |-> FALSE, form |-> 0],
   [a |-> "Enter", s |-> 1], [a |-> "Exit", s |-> 1]}
  \cup (IF Depth >= 4 THEN {[a |-> "SetDirection", s |-> 1, dir |-> "min"],
                            [a |-> "SetBounds", s |-> 1, r |-> "r1", lo |-> -5, hi |-> 5]} ELSE {})
\* rename vocabulary (universe with the spare metabolite identifier m5): stoichiometry edits of r2 (m1 -> m2) before and
\* after its metabolite m2 is renamed (and renamed back), removed, written into an equation; the reaction itself renamed
RenOps ==
  {[a |-> "RxnAddMetabolites", s |-> 1, r |-> "r2", d |-> D1("m2", 1), combine |-> TRUE, form |-> 0],
   [a |-> "RenameMetabolite", s |-> 1, met |-> "m2", new |-> "m5"],
   [a |-> "RenameMetabolite", s |-> 1, met |-> "m5", new |-> "m2"],
   [a |-> "RxnAddMetabolites", s |-> 1, r |-> "r2", d |-> D1("m5", 1), combine |-> TRUE, form |-> 1],
   [a |-> "RxnAddMetabolites", s |-> 1, r |-> "r2", d |-> D1("m5", -2), combine |-> FALSE, form |-> 0],
   [a |-> "RemoveMetabolites", s |-> 1, ms |-> <<"m5">>, destructive |-> FALSE, form |-> 0],
   [a |-> "RemoveMetabolites", s |-> 1, ms |-> <<"m2">>, destructive |-> FALSE, form |-> 1],
   [a |-> "BuildFromString", s |-> 1, r |-> "r2", d |-> [x \in MetU |-> IF x = "m1" THEN -1 ELSE IF x = "m5" THEN 2 ELSE 0], arrow |-> "both", spell |-> 0],
   [a |-> "RenameReaction", s |-> 1, r |-> "r2", new |-> "r4"],
   [a |-> "Query", s |-> 1]}
\* failing multi-step operations inside a context: a user variable carries the name reaction r4 needs, so
\* add_reactions is rejected by the solver part-way (after the reactions were put into the list) -- leaving the
\* context must still restore everything
FailOps ==
  {[a |-> "AddReactions", s |-> 1, shape |-> 0, specs |-> <<Spec("DM_m1", St1("m1", -1, "m1", -1), 0, 5, RuleNone),
                                                             Spec("r4", St1("m1", -1, "m4", 1), -5, 5, G("g4"))>>],
   [a |-> "AddReactions", s |-> 1, shape |-> 1, specs |-> <<Spec("r4", St1("m2", -1, "m4", 2), 0, 5, RuleNone)>>],
   [a |-> "SetBounds", s |-> 1, r |-> "r1", lo |-> -5, hi |-> 5],
   [a |-> "RemoveReactions", s |-> 1, rs |-> <<"r2">>, orphans |-> FALSE, form |-> 0],
   [a |-> "Enter", s |-> 1], [a |-> "Exit", s |-> 1]}
FullOps ==
  IF FullSet = "fail" THEN FailOps ELSE
  IF FullSet = "ren" THEN RenOps ELSE
  IF FullSet \in {"objp", "objc"} THEN ObjOps ELSE
  IF FullSet = "mid" THEN
     BoundOps \cup {
        [a |-> "RxnAddMetabolites", s |-> 1, r |-> "r1", d |-> D1("m2", 1), combine |-> TRUE, form |-> 0],
        [a |-> "RxnAddMetabolites", s |-> 1, r |-> "r1", d |-> D1("m1", -2), combine |-> FALSE, form |-> 2],
        [a |-> "RemoveReactions", s |-> 1, rs |-> <<"r1">>, orphans |-> TRUE, form |-> 0],
        \* one call for several reactions, the objective reaction (r3 in seed model 1) not last
        [a |-> "RemoveReactions", s |-> 1, rs |-> <<"r3", "r2">>, orphans |-> FALSE, form |-> 0],
        [a |-> "ReAddDetached", s |-> 1, r |-> "r1"],
        [a |-> "AddReactions", s |-> 1, shape |-> 2, specs |-> <<Spec("r4", St1("m1", -1, "m4", 2), -5, 5, And2(G("g1"), G("g4")))>>],
        [a |-> "RemoveMetabolites", s |-> 1, ms |-> <<"m1">>, destructive |-> FALSE, form |-> 0],
        [a |-> "RemoveGenes", s |-> 1, gs |-> <<"g1">>, rr |-> FALSE, form |-> 0],
        [a |-> "SetRule", s |-> 1, r |-> "r1", rule |-> Or2(G("g2"), G("g4")), form |-> 0],
        [a |-> "RxnIAdd", s |-> 1, r |-> "r1", q |-> "r1"],
        [a |-> "SetObjective", s |-> 1, form |-> 0, d |-> [x \in RxU |-> IF x = "r2" THEN 1 ELSE 0]]} ELSE
  IF FullSet = "analyze" THEN AnalyzeOps ELSE
  IF FullSet = "det" THEN DetOps ELSE
  IF FullSet = "ko" THEN KoOps ELSE
  IF FullSet = "det0" THEN Det0Ops ELSE
  IF FullSet = "copy" THEN CopyOps ELSE
  IF FullSet \in {"io", "iox"} THEN IoOps ELSE
  IF FullSet = "bounds" THEN BoundOps ELSE
  BoundOps
  \cup {
        [a |-> "SetRule", s |-> 1, r |-> "r1", rule |-> Or2(G("g2"), G("g4")), form |-> 0],
        [a |-> "RxnIMul", s |-> 1, r |-> "r1", k |-> -1],
        [a |-> "RxnIMul", s |-> 1, r |-> "r1", k |-> 0],
        [a |-> "RxnAddMetabolites", s |-> 1, r |-> "r1", d |-> D1("m2", 1), combine |-> TRUE, form |-> 0],
        [a |-> "RxnAddMetabolites", s |-> 1, r |-> "r1", d |-> D1("m1", 2), combine |-> FALSE, form |-> 1],
        [a |-> "RemoveReactions", s |-> 1, rs |-> <<"r1">>, orphans |-> TRUE, form |-> 0],
        [a |-> "AddReactions", s |-> 1, shape |-> 2, specs |-> <<Spec("r4", St1("m1", -1, "m4", 2), -5, 5, And2(G("g1"), G("g4")))>>],
        [a |-> "RemoveMetabolites", s |-> 1, ms |-> <<"m1">>, destructive |-> FALSE, form |-> 0],
        [a |-> "RemoveGenes", s |-> 1, gs |-> <<"g1">>, rr |-> FALSE, form |-> 0],
        [a |-> "SetObjCoef", s |-> 1, r |-> "r1", v |-> 2],
        [a |-> "SetDirection", s |-> 1, dir |-> "min"],
        [a |-> "SetMedium", s |-> 1, d |-> [x \in RxU |-> IF x = "EX_m3" THEN 5 ELSE Missing]],
        [a |-> "DetachedSetBounds", s |-> 1, r |-> "r1", lo |-> 0, hi |-> 5],
        [a |-> "ReAddDetached", s |-> 1, r |-> "r1"],
        [a |-> "RxnIAdd", s |-> 1, r |-> "r1", q |-> "r1"],
        [a |-> "RxnISub", s |-> 1, r |-> "r1", q |-> "r2"],
        [a |-> "RemoveReactions", s |-> 1, rs |-> <<"r3">>, orphans |-> FALSE, form |-> 1],
        [a |-> "RemoveReactions", s |-> 1, rs |-> <<"r3", "r2">>, orphans |-> FALSE, form |-> 0],
        [a |-> "RemoveGenes", s |-> 1, gs |-> <<"g2", "g3">>, rr |-> TRUE, form |-> 0],
        [a |-> "SetObjective", s |-> 1, form |-> 0, d |-> [x \in RxU |-> IF x = "r2" THEN 1 ELSE 0]],
        [a |-> "SetObjective", s |-> 1, form |-> 0, d |-> [x \in RxU |-> 0]],       \* model.objective = {}
        [a |-> "RxnAddMetabolites", s |-> 1, r |-> "r1", d |-> D1("m1", -2), combine |-> FALSE, form |-> 2],
        [a |-> "Repair", s |-> 1],
        [a |-> "BuildFromString", s |-> 1, r |-> "r1", d |-> [x \in MetU |-> IF x = "m1" THEN -2 ELSE IF x = "m2" THEN 1 ELSE 0], arrow |-> "both", spell |-> 1],
        [a |-> "BuildFromString", s |-> 1, r |-> "r1", d |-> [x \in MetU |-> IF x = "m1" THEN -2 ELSE IF x = "m2" THEN 1 ELSE 0], arrow |-> "fwd", spell |-> 2],
        \* analyses inside the open context: whatever they do to the model is undone with it
        [a |-> "Analyze", s |-> 1, kind |-> "optimize_min", arg |-> 0],
        [a |-> "Analyze", s |-> 1, kind |-> "pfba", arg |-> 0],
        [a |-> "Analyze", s |-> 1, kind |-> "fva_loopless", arg |-> 0],
        [a |-> "Enter", s |-> 1], [a |-> "Exit", s |-> 1]}
\* (the copy is made INSIDE an open context of the original: leaving it must not touch the copy)
FullPrefix == IF FullSet = "copy" THEN SeedOps(2, "glpk") \o <<[a |-> "Enter", s |-> 1],
                                                              [a |-> "Copy", s |-> 1, t |-> 2, kind |-> "copy"]>> ELSE
              IF FullSet = "io" THEN SeedOps(1, "glpk") \o <<[a |-> "RoundTrip", s |-> 1, fmt |-> "json"]>> ELSE
              \* the same vocabulary from a model that was IMPORTED from SBML and whose objects carry notes
              IF FullSet = "iox" THEN SeedOps(1, "glpk") \o <<[a |-> "Annotate", s |-> 1, x |-> "m1", v |-> 1, via |-> 2],
                                                             [a |-> "Annotate", s |-> 1, x |-> "r2", v |-> 2, via |-> 2],
                                                             [a |-> "Annotate", s |-> 1, x |-> "g1", v |-> 1, via |-> 2],
                                                             [a |-> "RoundTrip", s |-> 1, fmt |-> "sbml"]>> ELSE
              IF FullSet \in {"analyze", "ko", "det0", "ren"} THEN SeedOps(1, "glpk") ELSE
              IF FullSet = "fail" THEN SeedOps(1, "glpk") \o <<[a |-> "AddUserVar", s |-> 1, name |-> "uvr4"], [a |-> "Enter", s |-> 1]>> ELSE
              IF FullSet = "objp" THEN SeedOps(1, "glpk") \o <<[a |-> "Enter", s |-> 1], [a |-> "Helper", s |-> 1, kind |-> "add_pfba"]>> ELSE
              IF FullSet = "objc" THEN SeedOps(1, "glpk") \o <<[a |-> "Enter", s |-> 1], [a |-> "Helper", s |-> 1, kind |-> "custom_objective"]>>
              ELSE SeedOps(1, "glpk") \o <<[a |-> "Enter", s |-> 1]>>

Init ==
  IF Mode = "full"
  THEN /\ walk = 0 /\ rng = 0 /\ hist = FullPrefix /\ st = ApplyAll(FullPrefix, InitState)
  ELSE
  /\ walk \in 1..NWalks
  /\ rng = LCG((Seed * 7919 + walk * 104729) % 65537)
  /\ LET d == Draws(rng, 2)
         ops == SeedOps(d[1] % 4, IF d[2] % 4 = 0 THEN "glpk_exact" ELSE "glpk") IN
     /\ hist = ops
     /\ st = ApplyAll(ops, InitState)

Next ==
  IF Mode = "full"
  THEN /\ Len(hist) < Len(FullPrefix) + Depth
       \* (io vocabulary: an edit after the last import is never seen by one -- the last operation is an import)
       /\ \E op \in (IF FullSet \in {"io", "iox"} /\ Len(hist) = Len(FullPrefix) + Depth - 1
                      THEN {o \in FullOps : o.a \in {"RoundTrip", "LoadDoc"}} ELSE FullOps) :
             st' = Apply(op, st).st /\ hist' = Append(hist, op)
       /\ UNCHANGED <<rng, walk>>
  ELSE
  /\ Len(hist) < Depth
  /\ LET op == DrawOp(rng, st) IN
     /\ st' = Apply(op, st).st
     /\ hist' = Append(hist, op)
  /\ rng' = LCG(LCG(rng) + Len(hist))
  /\ walk' = walk

\* ------------------------------------------------------------- design invariants
InvWellFormed == StateWellFormed(st)
InvWF1 == \A s \in Slots : IsModel(st.m[s]) => \A r \in st.m[s].rxns : MetsOfRxn(st.m[s], r) \subseteq st.m[s].mets
InvWF2 == \A s \in Slots : IsModel(st.m[s]) => \A r \in st.m[s].rxns : GenesOf(st.m[s].rule[r]) \subseteq st.m[s].genes
InvWF3 == \A s \in Slots : IsModel(st.m[s]) => \A r \in st.m[s].rxns : st.m[s].lb[r] <= st.m[s].ub[r]
InvWF4 == \A s \in Slots : IsModel(st.m[s]) => st.m[s] = Canon(st.m[s])
InvSplit == SplitIsExact
\* C07 design theorem: knocking out the genes of K one at a time, in any order, from a model whose genes
\* are all functional gives the batch semantics
Perms3(K) == {p \in [1..Cardinality(K) -> K] : \A i, j \in 1..Cardinality(K) : p[i] = p[j] => i = j}
InvKOOrder ==
  \A s \in Slots : IsModel(st.m[s]) =>
     LET C == st.m[s] IN
     \A K \in SUBSET C.genes : (Cardinality(K) <= 3) =>
         \A p \in Perms3(K) :
            LET D == KnockMany(C, p) E == KOBatch(C, K) IN
            \* bounds of reactions that were already (0,0)-forced stay; compare the forced set
            /\ D.func = E.func
            /\ \A r \in C.rxns : (C.rule[r].k # "none" /\ ~Eval(C.rule[r], K \cup NonFunc(C)) /\ GenesOf(C.rule[r]) \cap K # {})
                                   => (D.lb[r] = 0 /\ D.ub[r] = 0)
            /\ \A r \in C.rxns : (Eval(C.rule[r], K \cup NonFunc(C)) \/ GenesOf(C.rule[r]) \cap K = {})
                                   => (D.lb[r] = C.lb[r] /\ D.ub[r] = C.ub[r])
\* C08/C02 design theorem: gene removal leaves a rule equivalent to the old one with those genes absent
InvRemoveRule ==
  \A t \in SeqSet(RuleU) : \A K \in SUBSET {"g1", "g2", "g3"} :
     Eval(t, K) => \A K2 \in SUBSET {"g1", "g2", "g3"} : Eval(RemoveRule(t, K), K2) = Eval(t, K \cup K2)

EndLen == IF Mode = "full" THEN Len(FullPrefix) + Depth ELSE Depth
Constr ==
  /\ Len(hist) <= EndLen
  /\ (Emit /\ Len(hist) = EndLen) => PrintT(ToJson([walk |-> walk, ops |-> hist]))
=============================================================================
