----------------------------- MODULE TraceFlux -----------------------------
(***************************************************************************)
(* Batch trace validation for the flux engine (C04 C05 C19 C17).           *)
(*                                                                         *)
(* IOEnv.TRACE_FILE is a JSON array of traces recorded from REAL cobra     *)
(* models by harness/flux_engine.py:                                       *)
(*   trace = [tid, prop, M0 : instance, events : Seq(event)]               *)
(*   event = [step  : the step emitted by FluxLattice.tla,                 *)
(*            obs   : what the call returned / raised (shape per op),      *)
(*            model : [lb, ub, c, dir] read back through the public API    *)
(*                    AFTER the step,                                      *)
(*            snaps : digests of ALL Solution objects returned earlier in  *)
(*                    the trace, re-read after this step]                  *)
(* Numbers coming from the solver are fixed point: [k, i] with k = "num"   *)
(* and i = round(value * 10^6), or k in {"nan","pinf","ninf","big","none"}.*)
(* A call that killed the driver's worker process (native abort) is an     *)
(* event with obs.raises = "crash"; it is judged like any other outcome.   *)
(* One TLC state per consumed event.  The expected values are computed     *)
(* from the instance with FluxLatticeOps; every failing clause is named in *)
(* a JSON verdict line together with root-cause tags computed from spec    *)
(* state and arguments.  Nothing here can fail the TLC run.                *)
(***************************************************************************)
EXTENDS FluxLatticeOps, Json, IOUtils, TLCExt

Traces == JsonDeserialize(IOEnv.TRACE_FILE)

VARIABLES tid, l,
          cur,      \* the current instance (M0 with the logged edits applied)
          sols,     \* digests of the Solutions returned so far, as logged when they were returned
          last,     \* the last solve: [valid, Me (instance that was solved), hassol, sol]
          fvas      \* the last plain FVA result on the current model: [valid, rl, min, max, num, den]
vars == <<tid, l, cur, sols, last, fvas>>

\* ---------------------------------------------------------------- numbers
IsNum(x) == x.k = "num"
AllNum(s) == \A k \in 1..Len(s) : IsNum(s[k])
Vals(s) == [k \in 1..Len(s) |-> s[k].i]
NoDigest == [status |-> "none", obj |-> [k |-> "none", i |-> 0], fluxes |-> <<>>, rc |-> <<>>, sp |-> <<>>]
NoInfo == [dec |-> FALSE, cls |-> "unknown", opt |-> 0]
OptErrors == {"OptimizationError", "Infeasible", "Unbounded", "FeasibleButNotOptimal", "UndefinedSolution"}

ApplyEdit(m, s) ==
  CASE s.op = "setbounds" -> [m EXCEPT !.lb[s.r] = s.lb, !.ub[s.r] = s.ub]
    [] s.op = "setobj" -> [m EXCEPT !.c[s.r] = s.k]
    \* model.objective = {reaction: coefficient ...}: the whole objective is replaced -- by nothing when the
    \* dictionary is empty (the direction stays)
    [] s.op = "setobjdict" -> [m EXCEPT !.c = [k \in 1..Len(m.c) |-> IF k = s.r THEN s.k ELSE IF k = s.r2 THEN s.k2 ELSE 0]]
    [] s.op = "setdir" -> [m EXCEPT !.dir = s.dir]
    \* model.add_reactions([reverse copy of reaction r]): the stoichiometry of r negated, bounds (0, ub), no objective
    \* term -- a structural edit (it closes a two-reaction cycle with r when r is internal)
    \* every coefficient of reaction r is doubled: reaction.add_metabolites({<metabolite ID as text>: coefficient ...})
    \* for each of its metabolites (combine=True) -- the keys are identifiers, not objects
    [] s.op = "dblcol" -> [m EXCEPT !.S[s.r] = [j \in 1..Len(m.mets) |-> 2 * m.S[s.r][j]]]
    [] s.op = "addrxn" -> [m EXCEPT !.rxns = Append(@, "R" \o ToString(Len(m.rxns) + 1)),
                                    !.S = Append(@, [j \in 1..Len(m.mets) |-> 0 - m.S[s.r][j]]),
                                    !.lb = Append(@, 0), !.ub = Append(@, s.ub), !.c = Append(@, 0)]
    [] OTHER -> m
IsEdit(s) == s.op \in {"setbounds", "setobj", "setdir", "setobjdict", "addrxn", "dblcol"}
LoggedModel(m, lg) == [m EXCEPT !.lb = lg.lb, !.ub = lg.ub, !.c = lg.c, !.dir = lg.dir]

If(b, x) == IF b THEN {x} ELSE {}

\* ---------------------------------------------------------------- C04
\* what the lattice says about one solve of instance Me (evaluated once per event, kept in `last`)
SolveInfo(Me) ==
  IF ~IsUnitNetwork(Me) THEN [dec |-> FALSE, cls |-> "unknown", opt |-> 0]
  ELSE LET F == Feasible(Me)
           inf == ~BoundsOrdered(Me) \/ F = {}
           unb == ~inf /\ \E z \in Rays(Me) : Improves(Me.c, Me.dir, z) IN
       [dec |-> TRUE, cls |-> IF inf THEN "infeasible" ELSE IF unb THEN "unbounded" ELSE "optimal",
        opt |-> IF inf \/ unb THEN 0 ELSE OptIn(F, Me.c, Me.dir)]
EffDir(m, s) == IF s.sense = "maximize" THEN "max" ELSE IF s.sense = "minimize" THEN "min" ELSE m.dir
\* a digest claims to be an optimal solution of Me: the clauses of C04 that need no expected value
\* beyond the instance, plus the comparison with the lattice optimum where it is decidable
SolutionClauses(Me, d, pre, A) ==
  IF ~(AllNum(d.fluxes) /\ AllNum(d.rc) /\ AllNum(d.sp) /\ IsNum(d.obj)
       /\ Len(d.fluxes) = NR(Me) /\ Len(d.rc) = NR(Me) /\ Len(d.sp) = NM(Me))
  THEN {pre \o "shape"}
  ELSE LET v == Vals(d.fluxes) y == Vals(d.sp) rc == Vals(d.rc) IN
       If(~FxInBounds(Me, v), pre \o "in_bounds")
       \cup If(~FxBalanced(Me, v), pre \o "steady_state")
       \cup If(~Near(d.obj.i, FxObjOf(Me, v), FxObjTol(Me)), pre \o "objective_is_c_dot_v")
       \cup If(A.dec /\ A.cls = "optimal" /\ ~Near(d.obj.i, A.opt * Scale, Tol), pre \o "true_optimum")
       \cup If(~FxDualFeasible(Me, y, v), pre \o "dual_certificate")
       \cup If(\E r \in RIdx(Me) : ~Near(rc[r], FxRedCost(Me, y, r), FxDualTol(Me, r)), pre \o "reduced_cost_identity")
\* diagnosis of a failing reduced-cost identity: every reported entry is exactly k times c - S^T y
RcFactor(Me, d, k) ==
  AllNum(d.rc) /\ AllNum(d.sp) /\ Len(d.rc) = NR(Me) /\ Len(d.sp) = NM(Me)
  /\ \A r \in RIdx(Me) : Near(d.rc[r].i, k * FxRedCost(Me, Vals(d.sp), r), k * FxDualTol(Me, r))

OptimizeClauses(ev, A) ==
  LET s == ev.step o == ev.obs
      Me == [cur EXCEPT !.dir = EffDir(cur, s)]
      dec == A.dec
      cls == A.cls IN
  If(o.raises \notin ({"none"} \cup OptErrors), "exception_class")
  \cup If(dec /\ o.raises # "none" /\ cls = "optimal", "raises_on_optimal")
  \cup If(dec /\ o.raises = "none" /\ (o.sol.status = "optimal") # (cls = "optimal"), "status_class")
  \cup If(dec /\ o.raises = "none" /\ s.re /\ cls # "optimal", "raise_error_ignored")
  \cup (IF o.raises = "none" /\ o.sol.status = "optimal" THEN SolutionClauses(Me, o.sol, "", A) ELSE {})
  \cup If(ev.model.dir # cur.dir, "direction_restored")

SlimClauses(ev, A) ==
  LET s == ev.step o == ev.obs
      dec == A.dec
      cls == A.cls IN
  IF ~dec THEN If(o.raises \notin ({"none"} \cup OptErrors), "exception_class")
  ELSE IF cls = "optimal"
  THEN If(o.raises # "none" \/ ~IsNum(o.ret) \/ (IsNum(o.ret) /\ ~Near(o.ret.i, A.opt * Scale, Tol)), "slim_return")
  ELSE CASE s.ev = "default" -> If(o.raises # "none" \/ o.ret.k # "nan", "slim_error_value")
         [] s.ev = "num" -> If(o.raises # "none" \/ o.ret # [k |-> "num", i |-> -7 * Scale], "slim_error_value")
         [] s.ev = "zero" -> If(o.raises # "none" \/ o.ret # [k |-> "num", i |-> 0], "slim_error_value")
         [] s.ev = "none" -> If(o.raises # (IF cls = "infeasible" THEN "Infeasible" ELSE "Unbounded"), "slim_exception")

\* accessors read the solver state left by the last solve
AccessClauses(ev) ==
  LET o == ev.obs Me == last.Me
      dec == last.info.dec
      cls == last.info.cls
      outs == o.flux \o o.rc \o o.sp
      ok(s) == \A k \in 1..Len(s) : s[k].raises = "none"
      dig == [status |-> "optimal", obj |-> [k |-> "num", i |-> IF ok(o.flux) /\ AllNum([k \in 1..Len(o.flux) |-> o.flux[k].val])
                                                                THEN FxObjOf(Me, [k \in 1..Len(o.flux) |-> o.flux[k].val.i]) ELSE 0],
              fluxes |-> [k \in 1..Len(o.flux) |-> o.flux[k].val],
              rc |-> [k \in 1..Len(o.rc) |-> o.rc[k].val], sp |-> [k \in 1..Len(o.sp) |-> o.sp[k].val]] IN
  IF ~last.valid THEN {}
  ELSE If(\E k \in 1..Len(outs) : outs[k].raises \notin ({"none"} \cup OptErrors), "accessor_exception_class")
       \cup (IF dec /\ cls = "optimal"
             THEN If(~ok(outs), "accessor_raises_on_optimal")
                  \cup (IF ok(outs) THEN SolutionClauses(Me, dig, "accessor_", last.info) ELSE {})
                  \cup If(ok(outs) /\ last.hassol /\ last.sol.status = "optimal"
                          /\ ~(/\ \A k \in 1..Len(dig.fluxes) : IsNum(dig.fluxes[k]) /\ Near(dig.fluxes[k].i, last.sol.fluxes[k].i, Tol)
                               /\ \A k \in 1..Len(dig.rc) : IsNum(dig.rc[k]) /\ Near(dig.rc[k].i, last.sol.rc[k].i, Tol)
                               /\ \A k \in 1..Len(dig.sp) : IsNum(dig.sp[k]) /\ Near(dig.sp[k].i, last.sol.sp[k].i, Tol)),
                          "accessor_equals_solution")
             ELSE {})

\* ---------------------------------------------------------------- C05
NoFvas == [valid |-> FALSE, rl |-> <<>>, min |-> <<>>, max |-> <<>>, num |-> 1, den |-> 1]
ReqList(m, s) == IF s.by = "none" THEN [k \in 1..NR(m) |-> k] ELSE s.rl
\* recession directions that keep the objective restriction (the optimum exists, so no ray improves it)
KeepRays(m) == {z \in Rays(m) : IF m.dir = "max" THEN Dot(m.c, z) >= 0 ELSE Dot(m.c, z) <= 0}
ObjInCycle(m) == \E z \in Cycles(m) : \E r \in ObjSupport(m) : z[r] # 0
SumFinMag(m) == SumSeq([r \in RIdx(m) |-> FinMag(m, r)])

\* One analysis record per FVA event (evaluated once per TLC state):
\*   scope = "in", or the reason the call is not judged numerically
\*   e     = the expected ranges: mode "exact": reported = r;  mode "bracket": inner within reported
\*           within outer;  mode "skip"
FracIsBoundF(m, num, den, opt, F) ==
  \/ num = den
  \/ /\ Cardinality(ObjSupport(m)) = 1
     /\ LET r == CHOOSE k \in ObjSupport(m) : TRUE IN (num * opt) % (den * Abs(m.c[r])) = 0
     /\ AllFinite(m)
  \/ LET other == IF m.dir = "max" THEN "min" ELSE "max" IN      \* the restriction is vacuous on the whole polyhedron
     /\ ~\E z \in Rays(m) : Improves(m.c, other, z)
     /\ LET worst == OptIn(F, m.c, other) IN
        IF m.dir = "max" THEN den * worst >= num * opt ELSE den * worst <= num * opt
FvaExpectF(m, s, F, opt) ==
  LET rl == ReqList(m, s)
      FR == {v \in F : ObjAtLeast(m, s.num, s.den, opt, v)}
      exact == FracIsBoundF(m, s.num, s.den, opt, F)
      plain == [k \in 1..Len(rl) |-> RangeIn(F, rl[k])]
      lat == [k \in 1..Len(rl) |-> RangeIn(FR, rl[k])] IN
  IF s.loopless /\ s.pf # 0 THEN [mode |-> "skip", why |-> "loopless_with_pfba"]
  ELSE IF s.loopless THEN
       LET Z == Cycles(m) L == {v \in FR : LooplessWrt(Z, v)} IN
       IF L = {} THEN [mode |-> "skip", why |-> "no_loop_free_vector_attains_objective"]
       ELSE IF ~(exact /\ AllFinite(m)) THEN [mode |-> "bracket", inner |-> [k \in 1..Len(rl) |-> RangeIn(L, rl[k])], outer |-> plain, why |-> "loopless_undecidable"]
       ELSE [mode |-> "exact", r |-> [k \in 1..Len(rl) |-> RangeIn(L, rl[k])], why |-> "loopless"]
  ELSE IF s.pf # 0 THEN
       IF ~(exact /\ AllFinite(m)) THEN [mode |-> "bracket", inner |-> [k \in 1..Len(rl) |-> <<0, 0>>], outer |-> plain, why |-> "pfba_undecidable"]
       ELSE LET mn == MinL1In(FR) capped == {v \in FR : 10 * L1(v) <= s.pf * mn} IN
            IF s.pf * mn >= 10 * SumFinMag(m) THEN [mode |-> "exact", r |-> lat, why |-> "pfba_cap_vacuous"]
            ELSE IF s.pf = 10 THEN [mode |-> "exact", r |-> [k \in 1..Len(rl) |-> RangeIn(capped, rl[k])], why |-> "pfba_argmin_face"]
            ELSE [mode |-> "bracket", inner |-> [k \in 1..Len(rl) |-> RangeIn(capped, rl[k])], outer |-> lat, why |-> "pfba_cap_not_bound_type"]
  ELSE IF exact THEN [mode |-> "exact", r |-> lat, why |-> "plain"]
  ELSE [mode |-> "bracket", inner |-> lat, outer |-> plain, why |-> "fraction_not_bound_type"]

NoExpect == [mode |-> "skip", why |-> "out_of_scope"]
FvaAnalysis(m, s) ==
  IF ~IsUnitNetwork(m) THEN [scope |-> "not_unit_network", infeasible |-> FALSE, signok |-> TRUE, e |-> NoExpect]
  ELSE LET F == Feasible(m)
           inf == ~BoundsOrdered(m) \/ F = {}
           unb == ~inf /\ \E z \in Rays(m) : Improves(m.c, m.dir, z) IN
       IF inf \/ unb THEN [scope |-> "no_optimum", infeasible |-> inf, signok |-> TRUE, e |-> NoExpect]
       ELSE LET opt == OptIn(F, m.c, m.dir) sok == SignOK(m, opt) rl == ReqList(m, s) IN
            IF ~(s.num >= 0 /\ s.num <= s.den /\ s.den > 0 /\ (s.num = s.den \/ sok))
            THEN [scope |-> "optimum_has_wrong_sign_for_fraction", infeasible |-> FALSE, signok |-> sok, e |-> NoExpect]
            ELSE IF ~AllFinite(m) /\ \E k \in 1..Len(rl) : \E z \in KeepRays(m) : z[rl[k]] # 0
            THEN [scope |-> "unbounded_range", infeasible |-> FALSE, signok |-> sok, e |-> NoExpect]
            ELSE [scope |-> "in", infeasible |-> FALSE, signok |-> sok, e |-> FvaExpectF(m, s, F, opt)]

FvaClauses(ev, A) ==
  LET s == ev.step o == ev.obs m == cur sc == A.scope rl == ReqList(m, s) IN
  IF sc = "not_unit_network" THEN {}
  ELSE IF sc = "no_optimum"
  THEN If(o.raises # (IF A.infeasible THEN "Infeasible" ELSE "Unbounded"), "fva_exception_without_optimum")
  ELSE IF sc # "in" THEN {}
  ELSE IF o.raises # "none" THEN {"fva_raises_in_scope"}
  ELSE IF ~(o.index = rl /\ Len(o.min) = Len(rl) /\ Len(o.max) = Len(rl)) THEN {"fva_index"}
  ELSE IF ~(AllNum(o.min) /\ AllNum(o.max)) THEN {"fva_not_a_number"}
  ELSE LET e == A.e mn == Vals(o.min) mx == Vals(o.max) K == 1..Len(rl) IN
       If(\E k \in K : mn[k] > mx[k] + Tol, "min_le_max")
       \cup (CASE e.mode = "exact" ->
                    If(\E k \in K : ~Near(mn[k], e.r[k][1] * Scale, Tol) \/ ~Near(mx[k], e.r[k][2] * Scale, Tol),
                       IF s.loopless THEN "loopless_range" ELSE IF s.pf # 0 THEN "pfba_range" ELSE "true_range")
               [] e.mode = "bracket" ->
                    If(\E k \in K : mn[k] < e.outer[k][1] * Scale - Tol \/ mx[k] > e.outer[k][2] * Scale + Tol, "range_outside_outer_bracket")
                    \cup If(e.why # "pfba_undecidable" /\ \E k \in K : mn[k] > e.inner[k][1] * Scale + Tol \/ mx[k] < e.inner[k][2] * Scale - Tol,
                            IF s.loopless THEN "loopless_range" ELSE "range_misses_lattice_points")
               [] OTHER -> {})
       \* loopless ranges lie inside the plain ones reported just before for the same request
       \cup If(s.loopless /\ fvas.valid /\ fvas.rl = rl /\ fvas.num = s.num /\ fvas.den = s.den
               /\ \E k \in K : mn[k] < fvas.min[k] - Tol \/ mx[k] > fvas.max[k] + Tol, "loopless_inside_plain")

\* Root-cause classes of a loopless-range mismatch, decided per mismatching entry (request k, side):
\*   value OUTSIDE the true loop-free range (a loop survived):
\*     "loop_kept_objective_on_cycle"   the objective reaction lies on an internal cycle
\*     "loop_kept_forced_flux_on_cycle" a reaction with bounds excluding 0 lies on an internal cycle
\*     "loop_kept_several_cycles"       the requested reaction lies on more than one internal cycle
\*                                      (loops are closed in a single pass)
\*   value strictly INSIDE (a loop-free extreme was missed):
\*     "extreme_missed_reaction_on_cycle"  the requested reaction lies on an internal cycle (every
\*                                      reaction of the loops through it is closed, itself included)
\*   anything else: "unexplained"
ForcedOnCycle(m) == \E z \in Cycles(m) : \E r \in RIdx(m) : z[r] # 0 /\ (m.lb[r] > 0 \/ m.ub[r] < 0)
CyclesThrough(m, r) == {z \in Cycles(m) : z[r] # 0}
LoopEntryClass(m, r, x, lo, hi) ==
  IF x < lo * Scale - Tol \/ x > hi * Scale + Tol
  THEN (IF ObjInCycle(m) THEN "loop_kept_objective_on_cycle"
        ELSE IF ForcedOnCycle(m) THEN "loop_kept_forced_flux_on_cycle"
        ELSE IF Cardinality(CyclesThrough(m, r)) > 2 THEN "loop_kept_several_cycles"
        ELSE "unexplained")
  ELSE IF CyclesThrough(m, r) # {} THEN "extreme_missed_reaction_on_cycle" ELSE "unexplained"
LoopClasses(m, s, o, e) ==
  LET rl == ReqList(m, s) IN
  {LoopEntryClass(m, rl[k], o.min[k].i, e.r[k][1], e.r[k][2]) : k \in {j \in 1..Len(rl) : ~Near(o.min[j].i, e.r[j][1] * Scale, Tol)}}
  \cup {LoopEntryClass(m, rl[k], o.max[k].i, e.r[k][1], e.r[k][2]) : k \in {j \in 1..Len(rl) : ~Near(o.max[j].i, e.r[j][2] * Scale, Tol)}}
\* bracket mode: only "a loop-free lattice extreme lies outside the reported range" is a loop-related failure
LoopClassesInner(m, s, o, e) ==
  LET rl == ReqList(m, s) IN
  {LoopEntryClass(m, rl[k], o.min[k].i, e.inner[k][1], e.inner[k][2]) : k \in {j \in 1..Len(rl) : o.min[j].i > e.inner[j][1] * Scale + Tol}}
  \cup {LoopEntryClass(m, rl[k], o.max[k].i, e.inner[k][1], e.inner[k][2]) : k \in {j \in 1..Len(rl) : o.max[j].i < e.inner[j][2] * Scale - Tol}}

FvaTags(ev, A) ==
  LET s == ev.step m == cur o == ev.obs IN
  IF A.scope # "in" THEN {A.scope}
  ELSE LET e == A.e IN
       {e.why} \cup If(s.loopless, "loopless") \cup If(s.pf # 0, "pfba_factor")
       \cup If(s.num # s.den, "fraction_below_one")
       \cup If(~A.signok, "optimum_sign_opposes_direction")
       \cup (IF s.loopless /\ o.raises = "none" /\ e.mode = "exact" /\ AllNum(o.min) /\ AllNum(o.max)
                /\ Len(o.min) = Len(e.r) /\ Len(o.max) = Len(e.r)
             THEN LoopClasses(m, s, o, e)
             ELSE IF s.loopless /\ o.raises = "none" /\ e.mode = "bracket" /\ AllNum(o.min) /\ AllNum(o.max)
                     /\ Len(o.min) = Len(e.inner) /\ Len(o.max) = Len(e.inner)
             THEN LoopClassesInner(m, s, o, e) ELSE {})

\* an optimal FBA solution lies inside the plain ranges reported just before
FbaInsideFva(ev) ==
  LET o == ev.obs IN
  If(fvas.valid /\ o.raises = "none" /\ o.sol.status = "optimal" /\ ev.step.sense = "none" /\ AllNum(o.sol.fluxes)
     /\ IsUnitNetwork(cur) /\ InScope_C05(cur, fvas.num, fvas.den)
     /\ Len(o.sol.fluxes) = NR(cur)
     /\ \E k \in 1..Len(fvas.rl) : LET x == o.sol.fluxes[fvas.rl[k]].i IN x < fvas.min[k] - Tol \/ x > fvas.max[k] + Tol,
     "optimal_solution_inside_ranges")

\* ---------------------------------------------------------------- C19
Opened(m) == [m EXCEPT !.lb = [r \in RIdx(m) |-> IF r \in Boundary(m) THEN MinOf(m.lb[r], -1) ELSE m.lb[r]],
                       !.ub = [r \in RIdx(m) |-> IF r \in Boundary(m) THEN MaxOf(m.ub[r], 1) ELSE m.ub[r]]]
C19Scope(m) == IF ~IsUnitNetwork(m) THEN "not_unit_network"
               ELSE IF ~InScope_C19(m) THEN "bound_interval_excludes_zero"
               ELSE IF ~AllFinite(m) THEN "infinite_bound"
               ELSE "in"
SeqSet(q) == {q[k] : k \in 1..Len(q)}
BlockedClauses(ev) ==
  LET s == ev.step o == ev.obs m == IF s.open THEN Opened(cur) ELSE cur IN
  IF C19Scope(cur) # "in" THEN {}
  ELSE IF o.raises # "none" THEN {"blocked_raises_in_scope"}
  ELSE LET req == SeqSet(ReqList(cur, s)) B == Blocked(m) IN
       If(SeqSet(o.ids) # (req \cap B), "blocked_set")
       \cup If(Len(o.ids) # Cardinality(SeqSet(o.ids)), "blocked_duplicates")
BlockedTags(ev) ==
  LET s == ev.step o == ev.obs m == IF s.open THEN Opened(cur) ELSE cur IN
  IF C19Scope(cur) # "in" THEN {C19Scope(cur)}
  ELSE LET F == Feasible(m) opt == OptIn(F, m.c, m.dir)
           FR == {v \in F : ObjAtLeast(m, 0, 1, opt, v)}
           req == SeqSet(ReqList(cur, s)) IN
       If(F # FR, "objective_restricts_flux_space_at_fraction_0")
       \cup If(o.raises = "none" /\ SeqSet(o.ids) = {r \in req : \A v \in FR : v[r] = 0}, "equals_blocked_set_under_objective_restriction")
       \cup If(s.open, "open_exchanges")
       \cup If(s.by \in {"id", "mixed"}, "reaction_list_contains_ids")

FastccClauses(ev) ==
  LET o == ev.obs m == cur IN
  IF C19Scope(m) # "in" THEN {}
  ELSE IF o.raises # "none" THEN {"fastcc_raises_in_scope"}
  ELSE LET kept == {o.kept[k].pos : k \in 1..Len(o.kept)} B == Blocked(m) IN
       If(kept # RIdx(m) \ B \/ Len(o.kept) # Cardinality(kept), "fastcc_reaction_set")
       \cup If(\E k \in 1..Len(o.kept) : LET e == o.kept[k] IN
                 e.pos \in RIdx(m) /\ (e.S # m.S[e.pos] \/ e.lb # m.lb[e.pos] \/ e.ub # m.ub[e.pos] \/ e.rule # ("g" \o ToString(e.pos)) \/ e.extra # 0),
               "fastcc_reaction_changed")
       \cup If((\A k \in 1..Len(o.kept) : o.kept[k].pos \in RIdx(m)) /\ Len(o.kept) > 0
               /\ LET res == [rxns |-> [k \in 1..Len(o.kept) |-> m.rxns[o.kept[k].pos]], mets |-> m.mets,
                              S |-> [k \in 1..Len(o.kept) |-> o.kept[k].S], lb |-> [k \in 1..Len(o.kept) |-> o.kept[k].lb],
                              ub |-> [k \in 1..Len(o.kept) |-> o.kept[k].ub], c |-> [k \in 1..Len(o.kept) |-> 0], dir |-> "max"] IN
                  IsUnitNetwork(res) /\ BoundsOrdered(res) /\ AllFinite(res) /\ Blocked(res) # {},
               "fastcc_result_has_blocked_reaction")
FastccTags(ev) ==
  LET o == ev.obs m == cur IN
  IF C19Scope(m) # "in" THEN {C19Scope(m)}
  ELSE IF o.raises # "none" THEN {}
  ELSE LET kept == {o.kept[k].pos : k \in 1..Len(o.kept)} want == RIdx(m) \ Blocked(m) IN
       If(kept \subseteq want /\ kept # want /\ \A r \in want \ kept : m.lb[r] < 0 /\ m.ub[r] > 0, "misses_only_reversible_unblocked_reactions")
       \cup If(~(kept \subseteq want), "keeps_blocked_reaction")

\* ---------------------------------------------------------------- C17
C17Scope(m) == IF ~IsUnitNetwork(m) THEN "not_unit_network"
               ELSE IF ~AllFinite(m) THEN "infinite_bound"
               ELSE IF ~HasOpt(m) THEN "no_optimum"
               ELSE IF Cycles(m) = {} THEN "no_internal_cycle"
               ELSE "in"
IsIntegral(vx) == \A r \in 1..Len(vx) : LET q == ((vx[r] % Scale) + Scale) % Scale IN q <= Tol \/ q >= Scale - Tol
RoundInt(vx) == [r \in 1..Len(vx) |-> IF vx[r] >= 0 THEN (vx[r] + Scale \div 2) \div Scale ELSE -((-vx[r] + Scale \div 2) \div Scale)]
SignVec(vx) == [r \in 1..Len(vx) |-> IF vx[r] > Tol THEN 1 ELSE IF vx[r] < -Tol THEN -1 ELSE 0]
\* the start vector must itself be an optimal flux distribution of the model (the documented precondition)
StartOK(m, st) == AllNum(st) /\ Len(st) = NR(m) /\ FxInBounds(m, Vals(st)) /\ FxBalanced(m, Vals(st))
                  /\ Near(FxObjOf(m, Vals(st)), Opt(m) * Scale, FxObjTol(m))
LooplessSolClauses(ev) ==
  LET s == ev.step o == ev.obs m == cur IN
  IF C17Scope(m) # "in" THEN {}
  ELSE IF o.raises = "crash" THEN {"loopless_solution_raises_in_scope"}      \* the call killed the process
  ELSE IF s.start # "none" /\ ~StartOK(m, o.start) THEN {}
  ELSE IF o.raises # "none" THEN {"loopless_solution_raises_in_scope"}
  ELSE IF ~(AllNum(o.sol.fluxes) /\ IsNum(o.sol.obj) /\ Len(o.sol.fluxes) = NR(m)) THEN {"loopless_solution_shape"}
  ELSE LET v == Vals(o.sol.fluxes) opt == Opt(m) * Scale
           st == IF s.start = "none" THEN v ELSE Vals(o.start) IN
       If(~FxInBounds(m, v) \/ ~FxBalanced(m, v), "feasible")
       \cup If(~Near(FxObjOf(m, v), opt, FxObjTol(m)), "same_objective_value")
       \cup If(~Near(o.sol.obj.i, opt, Tol), "reported_objective_value")
       \cup If(s.start # "none" /\ \E r \in Boundary(m) : ~Near(v[r], st[r], Tol), "same_boundary_fluxes")
       \cup If(s.start # "none" /\ \E r \in RIdx(m) : (st[r] >= -Tol /\ v[r] < -Tol) \/ (st[r] <= Tol /\ v[r] > Tol), "no_direction_reversed")
       \cup If(s.start # "none" /\ \E r \in RIdx(m) : Abs(v[r]) > Abs(st[r]) + Tol, "no_magnitude_grown")
       \* irreducible: no conforming internal cycle can be taken out (one lattice unit) without leaving the
       \* bounds or changing the objective; decided when the returned vector is integral
       \cup If(IsIntegral(v) /\ FxInBounds(m, v) /\ FxBalanced(m, v)
               /\ LET w == RoundInt(v) IN
                  \E z \in Cycles(m) : Conforms(z, w) /\ Dot(m.c, z) = 0 /\ InBounds(m, [r \in RIdx(m) |-> w[r] - z[r]]),
               "no_removable_cycle_left")
LooplessSolTags(ev) ==
  LET m == cur IN
  IF C17Scope(m) # "in" THEN {C17Scope(m)}
  ELSE If(m.dir = "min", "minimising") \cup If(ObjInCycle(m), "objective_in_internal_cycle")
       \cup If(Cycles(m) = {}, "no_internal_cycle")
       \cup If(ev.step.start # "none" /\ ~StartOK(m, ev.obs.start), "start_vector_not_optimal")
       \cup If(\E r \in RIdx(m) : m.lb[r] > 0 \/ m.ub[r] < 0, "forced_flux")

AddLooplessClauses(ev) ==
  LET o == ev.obs m == cur IN
  IF C17Scope(m) # "in" THEN {}
  ELSE IF o.raises # "none" THEN {"add_loopless_raises_in_scope"}
  ELSE LET L == Loopless(m) IN
       IF L = {} THEN If(o.sol.status = "optimal", "loopless_infeasible_but_optimal")
       ELSE IF o.sol.status # "optimal" THEN {"loopless_optimum_exists_but_status"}
       ELSE IF ~(AllNum(o.sol.fluxes) /\ IsNum(o.sol.obj) /\ Len(o.sol.fluxes) = NR(m)) THEN {"add_loopless_shape"}
       ELSE LET v == Vals(o.sol.fluxes) IN
            If(~Near(o.sol.obj.i, OptIn(L, m.c, m.dir) * Scale, Tol), "loopless_optimum")
            \cup If(~FxInBounds(m, v) \/ ~FxBalanced(m, v), "feasible")
            \cup If(~Near(o.sol.obj.i, FxObjOf(m, v), FxObjTol(m)), "objective_is_c_dot_v")
            \cup If(~LooplessWrt(Cycles(m), SignVec(v)), "reported_solution_has_cycle")
\* add_loopless takes max |bound| both as the big-M of the fluxes and as the range [1, M] of the free-energy
\* proxies; a cycle of length k needs proxies up to k - 1
MaxAbsBound(m) == SetMax({FinMag(m, r) : r \in RIdx(m)})
MaxCycleLen(m) == SetMax({Cardinality({r \in RIdx(m) : z[r] # 0}) : z \in Cycles(m)})
AddLooplessTags(ev) ==
  LET m == cur IN
  IF C17Scope(m) # "in" THEN {C17Scope(m)}
  ELSE If(Loopless(m) = {}, "no_loop_free_vector") \cup If(ObjInCycle(m), "objective_in_internal_cycle")
       \cup If(MaxAbsBound(m) < MaxCycleLen(m) - 1, "proxy_range_below_cycle_length_minus_1")
       \cup If(m.dir = "min", "minimising")
       \cup If(\E r \in RIdx(m) : m.lb[r] > 0 \/ m.ub[r] < 0, "forced_flux")

\* add_loopless while reaction r is knocked out, bounds restored before optimising: the same claim about the
\* model that is optimised.  Judged when the knock-out does not change the largest bound (add_loopless reads it
\* once, as big-M, when it is called)
KoKeepsBigM(m, r) == MaxAbsBound(KnockOut(m, {r})) = MaxAbsBound(m)
AddLooplessKoClauses(ev) ==
  IF C17Scope(cur) # "in" \/ ~KoKeepsBigM(cur, ev.step.r) THEN {} ELSE AddLooplessClauses(ev)

\* ---------------------------------------------------------------- generic clauses of every event
GenericClauses(ev) ==
  LET exp == ApplyEdit(cur, ev.step) IN
  If(ev.model.lb # exp.lb \/ ev.model.ub # exp.ub \/ ev.model.c # exp.c
       \/ (ev.model.dir # exp.dir /\ ev.step.op # "optimize"), "model_as_expected")
  \cup If(Len(ev.snaps) # Len(sols) \/ \E k \in 1..MinOf(Len(sols), Len(ev.snaps)) : ev.snaps[k] # sols[k], "solution_is_snapshot")

Ctx(ev) == CASE ev.step.op = "fva" -> FvaAnalysis(cur, ev.step)
             [] ev.step.op = "optimize" -> IF Traces[tid].prop = "C04" THEN SolveInfo([cur EXCEPT !.dir = EffDir(cur, ev.step)]) ELSE NoInfo
             [] ev.step.op = "slim" -> SolveInfo(cur)
             [] OTHER -> [scope |-> "n/a"]
Clauses(ev, A) ==
  GenericClauses(ev) \cup
  CASE ev.step.op = "optimize" -> IF Traces[tid].prop = "C04" THEN OptimizeClauses(ev, A) ELSE FbaInsideFva(ev)
    [] ev.step.op = "slim" -> SlimClauses(ev, A)
    [] ev.step.op = "access" -> AccessClauses(ev)
    [] ev.step.op = "fva" -> FvaClauses(ev, A)
    [] ev.step.op = "blocked" -> BlockedClauses(ev)
    [] ev.step.op = "fastcc" -> FastccClauses(ev)
    [] ev.step.op = "loopless_solution" -> LooplessSolClauses(ev)
    [] ev.step.op = "add_loopless" -> AddLooplessClauses(ev)
    [] ev.step.op = "add_loopless_ko" -> AddLooplessKoClauses(ev)
    [] OTHER -> {}

\* root-cause tags: spec state and arguments, and the arithmetic FORM of a failing identity
Tags(ev, A) ==
  LET s == ev.step IN
  CASE s.op = "optimize" ->
         LET Me == [cur EXCEPT !.dir = EffDir(cur, s)] cls == A.cls IN
         If(EffDir(cur, s) # cur.dir, "sense_override_changes_direction")
         \cup If((A.dec /\ (cls = "unbounded" \/ (s.re /\ cls # "optimal"))) \/ (~A.dec /\ ev.obs.raises \in OptErrors), "call_raises_by_contract")
         \cup If(ev.obs.raises = "none" /\ ev.obs.sol.status = "optimal" /\ RcFactor(Me, ev.obs.sol, 2), "reduced_costs_exactly_twice_c_minus_STy")
    [] s.op = "access" ->
         IF ~last.valid THEN {}
         ELSE LET cls == IF last.info.dec THEN last.info.cls ELSE ev.obs.status IN    \* undecidable instance: the solver's word
              If(cls = "unbounded", "last_solve_unbounded")
              \cup If(cls = "infeasible", "last_solve_infeasible")
              \cup If(cls = "optimal" /\ (\A k \in 1..Len(ev.obs.rc) : ev.obs.rc[k].raises = "none") /\ (\A j \in 1..Len(ev.obs.sp) : ev.obs.sp[j].raises = "none"),
                      IF RcFactor(last.Me, [rc |-> [k \in 1..Len(ev.obs.rc) |-> ev.obs.rc[k].val],
                                            sp |-> [k \in 1..Len(ev.obs.sp) |-> ev.obs.sp[k].val]], 2)
                      THEN "reduced_costs_exactly_twice_c_minus_STy" ELSE "rc_other")
              \cup If(\A k \in 1..Len(ev.obs.flux) : ev.obs.flux[k].raises \in ({"none"} \cup OptErrors), "flux_accessor_ok")
              \cup If(\A k \in 1..Len(ev.obs.rc) : ev.obs.rc[k].raises \in ({"none"} \cup OptErrors), "rc_accessor_ok")
              \cup If(\E k \in 1..Len(ev.obs.sp) : ev.obs.sp[k].raises = "TypeError", "shadow_price_raises_TypeError")
    [] s.op = "fva" -> FvaTags(ev, A)
    [] s.op = "blocked" -> BlockedTags(ev)
    [] s.op = "fastcc" -> FastccTags(ev)
    [] s.op = "loopless_solution" -> LooplessSolTags(ev)
    [] s.op = "add_loopless" -> AddLooplessTags(ev)
    [] s.op = "add_loopless_ko" -> AddLooplessTags(ev) \cup {"constraints_added_while_knocked_out"}
    [] OTHER -> {}

Undecided(ev, A) ==
  CASE ev.step.op = "optimize" -> Traces[tid].prop = "C04" /\ ~A.dec
    [] ev.step.op = "slim" -> ~A.dec
    [] ev.step.op = "access" -> last.valid /\ ~last.info.dec
    [] ev.step.op = "fva" -> A.scope \notin {"in", "no_optimum"} \/ (A.scope = "in" /\ A.e.mode # "exact")
    [] ev.step.op \in {"blocked", "fastcc"} -> C19Scope(cur) # "in"
    [] ev.step.op = "loopless_solution" -> C17Scope(cur) # "in" \/ (ev.step.start # "none" /\ ev.obs.raises # "crash" /\ ~StartOK(cur, ev.obs.start))
                                            \/ (ev.obs.raises = "none" /\ AllNum(ev.obs.sol.fluxes) /\ ~IsIntegral(Vals(ev.obs.sol.fluxes)))
    [] ev.step.op = "add_loopless" -> C17Scope(cur) # "in"
    [] ev.step.op = "add_loopless_ko" -> C17Scope(cur) # "in" \/ ~KoKeepsBigM(cur, ev.step.r)
    [] OTHER -> FALSE

UndecidedWhy(ev, A) ==
  CASE ev.step.op = "fva" -> IF A.scope # "in" THEN A.scope ELSE A.e.why
    [] ev.step.op \in {"blocked", "fastcc"} -> C19Scope(cur)
    [] ev.step.op \in {"loopless_solution", "add_loopless", "add_loopless_ko"} ->
         IF C17Scope(cur) # "in" THEN C17Scope(cur)
         ELSE IF ev.step.op = "add_loopless_ko" THEN "knock_out_changes_big_M"
         ELSE IF ev.step.op = "loopless_solution" /\ ev.step.start # "none" /\ ev.obs.raises # "crash" /\ ~StartOK(cur, ev.obs.start)
         THEN "start_vector_not_optimal" ELSE "returned_vector_not_integral"
    [] OTHER -> "not_unit_network"

\* ---------------------------------------------------------------- the trace machine
Init ==
  /\ tid \in 1..Len(Traces)
  /\ l = 0
  /\ cur = Traces[tid].M0
  /\ sols = <<>>
  /\ last = [valid |-> FALSE, Me |-> Traces[tid].M0, hassol |-> FALSE, sol |-> NoDigest, info |-> NoInfo]
  /\ fvas = NoFvas

Next ==
  /\ l < Len(Traces[tid].events)
  /\ LET ev == Traces[tid].events[l + 1]
         A == Ctx(ev)
         cl == Clauses(ev, A)
         tg == IF cl = {} THEN {} ELSE Tags(ev, A) IN
     /\ (cl # {}) =>
           PrintT(ToJson([verdict |-> "MISMATCH", tid |-> Traces[tid].tid, l |-> l + 1, op |-> ev.step.op,
                          clauses |-> cl, tags |-> tg, step |-> ev.step,
                          unexplained |-> IF "unexplained" \in tg THEN 1 ELSE 0,
                          obsraises |-> IF "raises" \in DOMAIN ev.obs THEN ev.obs.raises ELSE "n/a"]))
     /\ Undecided(ev, A) => PrintT(ToJson([verdict |-> "UNDECIDED", tid |-> Traces[tid].tid, l |-> l + 1, op |-> ev.step.op,
                                           why |-> UndecidedWhy(ev, A)]))
     \* continue from the logged state
     /\ cur' = LoggedModel(IF ev.step.op \in {"addrxn", "dblcol"} THEN ApplyEdit(cur, ev.step) ELSE cur, ev.model)
     /\ sols' = IF ev.step.op = "optimize" /\ ev.obs.raises = "none" THEN Append(ev.snaps, ev.obs.sol) ELSE ev.snaps
     /\ last' = CASE ev.step.op = "optimize" ->
                       [valid |-> TRUE, Me |-> [cur EXCEPT !.dir = EffDir(cur, ev.step)],
                        hassol |-> ev.obs.raises = "none", sol |-> IF ev.obs.raises = "none" THEN ev.obs.sol ELSE NoDigest,
                        info |-> IF Traces[tid].prop = "C04" THEN A ELSE NoInfo]
                  [] ev.step.op = "slim" -> [valid |-> TRUE, Me |-> cur, hassol |-> FALSE, sol |-> NoDigest, info |-> A]
                  [] IsEdit(ev.step) -> [last EXCEPT !.valid = FALSE]
                  [] OTHER -> [last EXCEPT !.valid = FALSE]
     /\ fvas' = IF IsEdit(ev.step) THEN NoFvas
                ELSE IF ev.step.op = "fva" /\ ev.obs.raises = "none" /\ ~ev.step.loopless /\ ev.step.pf = 0
                        /\ AllNum(ev.obs.min) /\ AllNum(ev.obs.max) /\ ev.obs.index = ReqList(cur, ev.step)
                THEN [valid |-> TRUE, rl |-> ev.obs.index, min |-> Vals(ev.obs.min), max |-> Vals(ev.obs.max),
                      num |-> ev.step.num, den |-> ev.step.den]
                ELSE fvas
  /\ l' = l + 1
  /\ tid' = tid
=============================================================================
