------------------------------ MODULE Sampler ------------------------------
(***************************************************************************)
(* C16: the sampler protocol as a state machine, its clauses as            *)
(* invariants, and the instance / configuration enumeration that the       *)
(* driver replays into the real ACHRSampler / OptGPSampler / sample().     *)
(*                                                                         *)
(*   Create(model, method, thinning, seed, nproj, P)                       *)
(*       -> Warmup   (documented refusal: ValueError for a single point /  *)
(*                    a segment of an inhomogeneous problem)               *)
(*       -> Sample(n, fluxes)  (twice, by two samplers built alike: A, B)  *)
(*       -> Sample(n2, fluxes) again on the SAME sampler objects           *)
(*          (cfg.rounds calls in all: a sampler carries its centre and     *)
(*          sample count from call to call; every call's rows count)       *)
(*       -> Validate (codes for the returned rows and for probe points)    *)
(*                                                                         *)
(* The abstract sampler draws each row as a convex combination (weights    *)
(* a/8, (8-a)/8, exact in the 10^-8 fixed point) of two integer points of  *)
(* the flux polytope, chosen by an LCG from (seed + chain index, row        *)
(* number): the weakest model of "a reproducible walk inside the           *)
(* polytope".  Mode "design": TLC checks the clauses on every reachable    *)
(* state for every instance and configuration -- this also proves, on      *)
(* these instances, that the independent feasibility operator of           *)
(* SamplerOps accepts every convex combination of feasible points (no      *)
(* false alarm) and rejects the probes built to be infeasible (no miss).   *)
(* Negative controls (constant Bug) must be REJECTED:                      *)
(*   "swap_fwd_rev"       flux = reverse - forward                         *)
(*   "no_roundup"         OptGP returns n rows, not P * ceil(n / P)        *)
(*   "same_chain_seed"    every OptGP chain seeded with `seed`             *)
(*   "unseeded"           the seed is ignored (sampler B draws differently)*)
(*   "validate_ignores_ub"  validate() does not look at upper bounds       *)
(*   "mutates_model"      the sampler works on the caller's model          *)
(*   "ignore_user_rows"   the step ignores extra user constraints          *)
(* Mode "cases": one JSON line per in-scope instance: the instance, its    *)
(* probe points and NCfg configurations.                                   *)
(***************************************************************************)
EXTENDS SamplerOps, Json

CONSTANTS Mode, NInst, Seed, NCfg, Bug

VARIABLES j, x, lat, cfg, phase, rowsA, rowsB, codes, pcodes, modelPost,
          round          \* number of sample() calls made on the sampler object so far
vars == <<j, x, lat, cfg, phase, rowsA, rowsB, codes, pcodes, modelPost, round>>

LCG(r) == (r * 75 + 74) % 65537
RECURSIVE Draws(_, _)
Draws(r, m) == IF m = 0 THEN <<>> ELSE <<LCG(r)>> \o Draws(LCG(r), m - 1)
Pick(seq, d) == seq[((d \div 16) % Len(seq)) + 1]

\* ------------------------------------------------------------- instances
NoU == <<>>
Mk(mets, S, lb, ub, U, hasz, zb) ==
  [M |-> [rxns |-> [i \in 1..Len(S) |-> "R" \o ToString(i)], mets |-> mets, S |-> S, lb |-> lb, ub |-> ub,
          c |-> [i \in 1..Len(S) |-> 0], dir |-> "max"],
   U |-> U, hasz |-> hasz, zb |-> zb]
UC(coef, zc, lo, hi) == [coef |-> coef, zc |-> zc, lo |-> lo, hi |-> hi]

Net4 == << <<1, 0>>, <<-1, 1>>, <<-1, 1>>, <<0, -1>> >>            \* -> A, A -> B (twice), B ->
Net5 == << <<1, 0>>, <<-1, 1>>, <<-1, 1>>, <<0, -1>>, <<-1, 0>> >>  \* ... and A ->
Pinned == <<
  Mk(<<"A">>, << <<1>>, <<-1>> >>, <<0, 0>>, <<3, 5>>, NoU, FALSE, <<0, 0>>),            \* segment through 0
  Mk(<<"A">>, << <<1>>, <<-1>> >>, <<1, 0>>, <<3, 5>>, NoU, FALSE, <<0, 0>>),            \* segment off 0
  Mk(<<"A">>, << <<1>>, <<-1>> >>, <<2, 0>>, <<2, 5>>, NoU, FALSE, <<0, 0>>),            \* one point (fixed)
  Mk(<<"A">>, << <<1>>, <<-1>> >>, <<0, 0>>, <<0, 0>>, NoU, FALSE, <<0, 0>>),            \* the origin only
  Mk(<<"A", "B">>, Net4, <<0, 0, -1, 0>>, <<3, 2, 2, 4>>, NoU, FALSE, <<0, 0>>),         \* two-dimensional cone
  Mk(<<"A", "B">>, Net5, <<0, 1, 0, 0, 0>>, <<3, 1, 2, 4, 2>>, NoU, FALSE, <<0, 0>>),    \* fixed non-zero flux
  Mk(<<"A", "B">>, Net4, <<1, 1, -1, 0>>, <<3, 1, 2, 4>>, NoU, FALSE, <<0, 0>>),         \* segment, inhomogeneous
  Mk(<<"A", "B">>, Net4, <<-3, 0, -1, 0>>, <<3, 2, 2, 4>>, NoU, FALSE, <<0, 0>>),        \* reversible exchange
  Mk(<<"A", "B">>, << <<-1, 0>>, <<-1, 1>>, <<-1, 1>>, <<0, -1>> >>, <<-3, 0, -1, 0>>, <<-1, 2, 2, 4>>,
     NoU, FALSE, <<0, 0>>),                                                              \* negative-only bounds
  Mk(<<"A", "B">>, Net4, <<0, 0, -1, 0>>, <<3, 2, 2, 4>>, <<UC(<<0, 1, 1, 0>>, 0, -1, 2)>>, FALSE, <<0, 0>>),
  Mk(<<"A", "B">>, Net4, <<0, 0, -1, 0>>, <<3, 2, 2, 4>>, <<UC(<<0, 1, -1, 0>>, -1, 0, 0)>>, TRUE, <<-1, 1>>),
  Mk(<<"A", "B">>, Net5, <<1, 0, 0, 0, 0>>, <<4, 2, 2, 4, 3>>, <<UC(<<0, 0, 0, 1, -1>>, 0, 0, 5)>>, FALSE, <<0, 0>>),
  Mk(<<"A", "B">>, Net5, <<0, 0, 0, 0, 0>>, <<4, 2, 2, 4, 3>>, <<UC(<<0, 1, 1, 0, 0>>, 0, 1, 1)>>, FALSE, <<0, 0>>),
  Mk(<<"A", "B">>, Net5, <<0, 0, 0, 0, 0>>, <<4, 2, 2, 4, 3>>, <<UC(<<1, 0, 0, 0, 0>>, 1, 1, 3)>>, TRUE, <<0, 2>>),
  \* pinned witnesses of recorded findings (visited by every run, whatever the seed)
  Mk(<<"A">>, << <<1>>, <<-1>> >>, <<3, 0>>, <<4, 5>>, NoU, FALSE, <<0, 0>>),            \* F60: segment far off 0
  Mk(<<"A", "B", "C">>, << <<1, 0, 0>>, <<-1, 1, 0>>, <<0, -1, 1>>, <<0, 0, -1>>, <<-1, 0, 1>>, <<-1, 0, 0>> >>,
     <<-1, 0, 0, -1, -1, -5>>, <<2, 3, 3, 2, 2, 5>>, <<UC(<<0, 0, 0, 1, 0, 0>>, -1, 0, 0)>>, TRUE, <<-2, 3>>),  \* F63
  Mk(<<"A", "B", "C">>, << <<1, 0, 0>>, <<-1, 1, 0>>, <<0, -1, 1>>, <<0, 0, -1>>, <<-1, 0, 0>>, <<0, 1, 0>> >>,
     <<0, 0, 0, 0, 0, 1>>, <<3, 3, 3, 2, 2, 1>>, <<UC(<<0, 0, 0, 1, 0, 0>>, -1, 0, 0)>>, TRUE, <<-2, 3>>),      \* F64
  \* F66 (and the former F60): a true segment off the origin; a two-dimensional space off the origin whose
  \* FVA warm-up collapses to two vertices
  Mk(<<"A", "B", "C">>, << <<1, 0, 0>>, <<-1, 1, 0>>, <<0, -1, 1>>, <<0, 0, -1>>, <<1, -1, 0>>, <<0, -1, 1>> >>,
     <<-1, -1, 0, 1, 1, -2>>, <<2, 2, 3, 3, 2, -1>>, NoU, FALSE, <<0, 0>>),
  Mk(<<"A", "B", "C">>, << <<1, 0, 0>>, <<-1, 1, 0>>, <<0, -1, 1>>, <<0, 0, -1>>, <<-1, 0, 0>> >>,
     <<-2, -1, 0, 0, 1>>, <<4, 2, 2, 2, 2>>, NoU, FALSE, <<0, 0>>),
  \* a window 0 <= v4 - v5 <= 1 written as TWO rows over the same expression, each binding on one side only
  Mk(<<"A", "B">>, Net5, <<1, 0, 0, 0, 0>>, <<4, 2, 2, 4, 3>>,
     <<UC(<<0, 0, 0, 1, -1>>, 0, 0, 20), UC(<<0, 0, 0, 1, -1>>, 0, -20, 1)>>, FALSE, <<0, 0>>)
>>

Backbone == << <<1, 0, 0>>, <<-1, 1, 0>>, <<0, -1, 1>>, <<0, 0, -1>> >>
Shapes == << <<-1, 1, 0>>, <<1, -1, 0>>, <<0, -1, 1>>, <<-1, 0, 1>>, <<0, -1, 0>>, <<0, 1, 0>>,
             <<-1, 0, 0>>, <<0, 0, 1>>, <<1, 0, -1>>, <<0, 1, -1>> >>
BPalMain == << <<0, 3>>, <<0, 5>>, <<0, 4>>, <<-1, 2>>, <<0, 2>>, <<1, 3>>, <<0, 5>>, <<-2, 4>>, <<0, 3>> >>
BPalExtra == << <<0, 2>>, <<-2, 2>>, <<0, 1>>, <<-3, 0>>, <<0, 0>>, <<-1, 2>>, <<1, 2>>, <<0, 5>>, <<1, 1>>, <<-5, 5>>, <<-2, -1>> >>
Sizes == <<5, 4, 5, 6, 4, 5>>

Random(i) ==
  LET r0 == LCG((Seed * 7919 + i * 104729) % 65537)
      d == Draws(r0, 40)
      nr == Pick(Sizes, d[1])
      S == [q \in 1..nr |-> IF q <= 4 THEN Backbone[q] ELSE Pick(Shapes, d[2 + q])]
      b == [q \in 1..nr |-> IF q <= 4 THEN Pick(BPalMain, d[10 + q]) ELSE Pick(BPalExtra, d[10 + q])]
      \* user rows over the two boundary reactions of the backbone, signs opposite to their stoichiometric
      \* entry: the augmented matrix stays an incidence matrix (SxIntegral), so dimensions are exact
      kindU == (d[23] \div 16) % 6
      coef(c1, c4) == [q \in 1..nr |-> IF q = 1 THEN c1 ELSE IF q = 4 THEN c4 ELSE 0]
  IN Mk(<<"A", "B", "C">>, S, [q \in 1..nr |-> b[q][1]], [q \in 1..nr |-> b[q][2]],
        CASE kindU = 0 -> <<UC(coef(-1, 1), 0, -1 - (d[24] % 2), 1 + (d[25] % 3))>>   \* lo <= v4 - v1 <= hi
          [] kindU = 1 -> <<UC(coef(0, 1), -1, 0, 0)>>                                \* v4 = z
          [] kindU = 2 -> <<UC(coef(-1, 0), 0, -3 + (d[24] % 2), 1 - (d[25] % 3))>>   \* a bound on v1 as a row
          \* the window of kind 0 written as TWO rows over the same expression (each binding on one side only)
          [] kindU = 3 -> <<UC(coef(-1, 1), 0, -1 - (d[24] % 2), 20), UC(coef(-1, 1), 0, -20, 1 + (d[25] % 3))>>
          [] OTHER -> NoU,
        kindU = 1, IF kindU = 1 THEN <<-(d[26] % 3), 1 + (d[27] % 3)>> ELSE <<0, 0>>)

Inst(i) == IF i <= Len(Pinned) THEN Pinned[i] ELSE Random(i)
\* the instance and its integer points are carried in the state (computed once per behaviour)
X == x

\* ------------------------------------------------------------- probe points for validate()
ScaleVec(v) == [i \in 1..Len(v) |-> v[i] * SxScale]
Bump(v, r, units) == [v EXCEPT ![r] = @ + units]
SomeOf(S, m) == IF S = {} THEN {} ELSE LET a == CHOOSE e \in S : TRUE IN
                IF m <= 1 \/ S = {a} THEN {a} ELSE {a, CHOOSE e \in S \ {a} : TRUE}
\* integer flux vectors: feasible ones; one bound overstepped by 1; only a user row violated; and
\* feasible points moved by 3 units (inside the tolerance) and by 25 units (outside) on one coordinate
Probes(Y, L) ==
  LET p0 == CHOOSE p \in L : TRUE
      onlyU == Feasible(Y.M) \ L IN
  {ScaleVec(p) : p \in SomeOf(L, 2)}
  \cup {ScaleVec([p0 EXCEPT ![r] = Y.M.ub[r] + 1]) : r \in RIdx(Y.M)}
  \cup {ScaleVec([p0 EXCEPT ![r] = Y.M.lb[r] - 1]) : r \in RIdx(Y.M)}
  \cup {ScaleVec(p) : p \in SomeOf(onlyU, 2)}
  \cup {Bump(ScaleVec(p0), r, 3) : r \in {1}}
  \cup {Bump(ScaleVec(p0), r, 25) : r \in {1, NR(Y.M)}}
  \cup {Bump(ScaleVec(p0), r, -25) : r \in {1}}
RECURSIVE OrdSeq(_)
\* a deterministic order: repeatedly take the CHOOSE-first element
OrdSeq(S) == IF S = {} THEN <<>> ELSE LET a == CHOOSE e \in S : TRUE IN <<a>> \o OrdSeq(S \ {a})
ProbeSeq(Y) == OrdSeq(Probes(Y, lat))
\* the same points in variable space (z set so that the user rows hold when that is possible)
ZFor(Y, p) == IF \E z \in SxZRange(Y) : SxUserOK(Y, p, z) THEN CHOOSE z \in SxZRange(Y) : SxUserOK(Y, p, z)
              ELSE CHOOSE z \in SxZRange(Y) : TRUE

\* ------------------------------------------------------------- configurations
Methods == <<"achr", "optgp", "optgp", "achr", "optgp">>
Ns == <<7, 1, 20, 5, 12>>
Thins == <<3, 1, 10, 2>>
Nprojs == <<0, 1, 5, 0>>            \* 0 = default (None)
Cfg(i, q) ==
  LET d == Draws(LCG((Seed * 131 + i * 7 + q * 1009) % 65537), 10)
      meth == Pick(Methods, q + i)
      viaf == d[7] % 4 = 0 IN
  [method |-> meth, n |-> Pick(Ns, d[1]), thin |-> Pick(Thins, d[2]), seed |-> 1 + (d[3] % 997),
   nproj |-> IF viaf THEN 0 ELSE Pick(Nprojs, d[4]),
   P |-> IF meth = "optgp" THEN (IF d[5] % 3 = 0 THEN 2 + (d[6] % 2) ELSE 1) ELSE 1,
   fluxes |-> viaf \/ d[8] % 3 # 0,
   via |-> IF viaf THEN "function" ELSE "class",
   \* further sample(n2) calls on the same sampler object (class entry point only)
   rounds |-> IF viaf THEN 1 ELSE 1 + (d[9] % 3), n2 |-> Pick(Ns, d[10]),
   \* sampler objects are independent of each other: ANOTHER sampler object (on another model) is created (1) -- and
   \* used (2) -- between the creation of this sampler and its sample() calls; the abstract sampler does not notice
   other |-> IF viaf THEN 0 ELSE (d[10] \div 8) % 3]
\* the two pinned F66 witnesses (instances 18, 19) start with a fixed, long enough run
WitnessCfg == [method |-> "achr", n |-> 20, thin |-> 10, seed |-> 7, nproj |-> 0, P |-> 1, fluxes |-> TRUE, via |-> "class",
               rounds |-> 1, n2 |-> 1]
CfgSeq(i) == [q \in 1..NCfg |-> IF q = 1 /\ i \in {18, 19} THEN WitnessCfg ELSE Cfg(i, q)]
\* the design run also visits these on every instance (so that no clause depends on the draws)
PinnedCfgs == {
  [method |-> "optgp", n |-> 17, thin |-> 1, seed |-> 7, nproj |-> 0, P |-> 3, fluxes |-> TRUE, via |-> "class", rounds |-> 1, n2 |-> 1],
  [method |-> "optgp", n |-> 4, thin |-> 3, seed |-> 9, nproj |-> 1, P |-> 2, fluxes |-> FALSE, via |-> "class", rounds |-> 1, n2 |-> 1],
  [method |-> "achr", n |-> 5, thin |-> 2, seed |-> 3, nproj |-> 5, P |-> 1, fluxes |-> FALSE, via |-> "class", rounds |-> 2, n2 |-> 7],
  [method |-> "achr", n |-> 3, thin |-> 1, seed |-> 5, nproj |-> 0, P |-> 1, fluxes |-> TRUE, via |-> "function", rounds |-> 1, n2 |-> 1],
  \* several calls on one OptGP sampler, none of the counts a multiple of the process count
  [method |-> "optgp", n |-> 5, thin |-> 1, seed |-> 11, nproj |-> 0, P |-> 2, fluxes |-> TRUE, via |-> "class", rounds |-> 3, n2 |-> 7],
  [method |-> "optgp", n |-> 7, thin |-> 2, seed |-> 13, nproj |-> 0, P |-> 3, fluxes |-> FALSE, via |-> "class", rounds |-> 3, n2 |-> 5]}
\* the configurations every emitted case ends with
PinnedTail == <<[method |-> "optgp", n |-> 5, thin |-> 1, seed |-> 11, nproj |-> 0, P |-> 2, fluxes |-> TRUE, via |-> "class", rounds |-> 3, n2 |-> 7, other |-> 0],
                [method |-> "optgp", n |-> 7, thin |-> 1, seed |-> 5, nproj |-> 0, P |-> 1, fluxes |-> TRUE, via |-> "class", rounds |-> 2, n2 |-> 5, other |-> 2],
                [method |-> "achr", n |-> 5, thin |-> 2, seed |-> 3, nproj |-> 0, P |-> 1, fluxes |-> TRUE, via |-> "class", rounds |-> 2, n2 |-> 5, other |-> 1]>>

\* ------------------------------------------------------------- the abstract sampler
Lat == lat
Score(p, r) == (Dot(p, [i \in 1..Len(p) |-> 1 + ((r + 7 * i) % 13)]) + 50 * Len(p) + r) % 31
PickPt(L, r) == CHOOSE p \in L : \A q \in L : Score(p, r) >= Score(q, r)
Mix(p, q, a) == [i \in 1..Len(p) |-> (a * p[i] + (8 - a) * q[i]) * (SxScale \div 8)]
\* the points an abstract chain moves between: the polytope's integer points -- or, for the
\* control that forgets the user rows, those of the model alone
Pool == IF Bug = "ignore_user_rows" THEN Feasible(X.M) ELSE Lat
VarPt(p) == SxSplit(X, p, ZFor(X, p))
ChainRow(chainSeed, t, fluxes) ==
  LET r == LCG(LCG(chainSeed * 13) + t * 17)
      p == PickPt(Pool, r) q == PickPt(Pool, LCG(r)) a == LCG(LCG(r)) % 9
      row == IF fluxes THEN Mix(p, q, a) ELSE Mix(VarPt(p), VarPt(q), a) IN
  IF Bug = "swap_fwd_rev" /\ fluxes THEN [i \in 1..Len(row) |-> -row[i]] ELSE row
RECURSIVE Concat(_, _)
Concat(f, k) == IF k = 0 THEN <<>> ELSE Concat(f, k - 1) \o f[k]
\* the rows of call number k (1 = first) asking for n rows
RoundRows(c, replica, k, n) ==
  LET seed == (IF Bug = "unseeded" THEN c.seed + replica ELSE c.seed) + 1000 * (k - 1)
      P == IF c.method = "optgp" THEN c.P ELSE 1
      m == (n + P - 1) \div P
      chain(idx) == [t \in 1..m |-> ChainRow(IF Bug = "same_chain_seed" THEN seed ELSE seed + idx, t, c.fluxes)]
      all == Concat([q \in 1..P |-> chain(q - 1)], P) IN
  IF Bug = "no_roundup" THEN SubSeq(all, 1, MinOf(n, Len(all))) ELSE all
SampleRows(c, replica) == RoundRows(c, replica, 1, c.n)
\* what all the calls of a configuration return together
RowCountAll(c) == SxRowCount(c.method, c.n, c.P) + (c.rounds - 1) * SxRowCount(c.method, c.n2, c.P)
Refuses == SxRefusalExpected(X, Lat, SxDim(Lat)) = "yes"
\* validate() as documented, in the abstract: from the independent judgement of each letter
AbsCode(v) ==
  LET l == SxLetterL(X, v) = "yes"
      u == Bug # "validate_ignores_ub" /\ SxLetterU(X, v) = "yes"
      e == SxLetterE(X, v) = "yes" IN
  IF ~l /\ ~u /\ ~e THEN <<"v">>
  ELSE (IF l THEN <<"l">> ELSE <<>>) \o (IF u THEN <<"u">> ELSE <<>>) \o (IF e THEN <<"e">> ELSE <<>>)
ModelDigest(Y) == [lb |-> Y.M.lb, ub |-> Y.M.ub, c |-> Y.M.c, dir |-> Y.M.dir]

\* ------------------------------------------------------------- behaviour
Init ==
  /\ j \in 1..NInst
  /\ x = Inst(j)
  /\ lat = SxLattice(x)
  /\ AllFinite(x.M) /\ BoundsOrdered(x.M) /\ lat # {}          \* SxInScope
  /\ IF Mode = "design" THEN cfg \in {Cfg(j, q) : q \in 1..NCfg} \cup PinnedCfgs ELSE cfg = Cfg(j, 1)
  /\ phase = IF Mode = "design" THEN "new" ELSE "emit"
  /\ rowsA = <<>> /\ rowsB = <<>> /\ codes = <<>> /\ pcodes = <<>>
  /\ modelPost = ModelDigest(X)
  /\ round = 0

Warmup ==
  /\ phase = "new"
  /\ phase' = IF Refuses THEN "refused" ELSE "ready"
  /\ modelPost' = IF Bug = "mutates_model" THEN [modelPost EXCEPT !.c = [i \in 1..Len(@) |-> 0], !.dir = "min"] ELSE modelPost
  /\ UNCHANGED <<j, x, lat, cfg, rowsA, rowsB, codes, pcodes, round>>
Sample ==
  /\ phase = "ready"
  /\ rowsA' = SampleRows(cfg, 0) /\ rowsB' = SampleRows(cfg, 1)
  /\ phase' = "sampled"
  /\ round' = 1
  /\ UNCHANGED <<j, x, lat, cfg, codes, pcodes, modelPost>>
\* one more call on the same sampler objects
SampleAgain ==
  /\ phase = "sampled" /\ round < cfg.rounds
  /\ rowsA' = rowsA \o RoundRows(cfg, 0, round + 1, cfg.n2) /\ rowsB' = rowsB \o RoundRows(cfg, 1, round + 1, cfg.n2)
  /\ round' = round + 1
  /\ UNCHANGED <<j, x, lat, cfg, phase, codes, pcodes, modelPost>>
Validate ==
  /\ phase = "sampled" /\ round = cfg.rounds
  /\ codes' = IF cfg.fluxes THEN [i \in 1..Len(rowsA) |-> AbsCode(rowsA[i])] ELSE <<>>
  /\ pcodes' = LET ps == ProbeSeq(X) IN [i \in 1..Len(ps) |-> AbsCode(ps[i])]
  /\ phase' = "validated"
  /\ UNCHANGED <<j, x, lat, cfg, rowsA, rowsB, modelPost, round>>
Next == Warmup \/ Sample \/ SampleAgain \/ Validate
Spec == Init /\ [][Next]_vars

\* ------------------------------------------------------------- the clauses of C16
Sampled == phase \in {"sampled", "validated"}
InvRowCount == Sampled => Len(rowsA) = SxRowCount(cfg.method, cfg.n, cfg.P) + (round - 1) * SxRowCount(cfg.method, cfg.n2, cfg.P)
InvRowCountAll == phase = "validated" => Len(rowsA) = RowCountAll(cfg)
InvRowsFeasible == Sampled => \A i \in 1..Len(rowsA) : SxInPolytope(X, rowsA[i], cfg.fluxes) = "yes"
InvReproducible == Sampled => rowsA = rowsB
InvChainsDiffer ==
  (Sampled /\ round = 1 /\ cfg.method = "optgp" /\ cfg.P > 1 /\ SxDim(Lat) = 2) =>
     LET m == Len(rowsA) \div cfg.P IN
     (m >= 5) => \A a, b \in 1..cfg.P : a # b => SubSeq(rowsA, (a - 1) * m + 1, a * m) # SubSeq(rowsA, (b - 1) * m + 1, b * m)
\* Quirk_ValidateFluxSpaceIgnoresUserRows: validate() documents 'v' as "feasible in bounds and equality
\* constraints"; for flux-space input the implementation cannot see extra user rows (recorded finding of
\* TraceSampler).  The abstract validate follows the documentation, so points that violate ONLY a user
\* row are exempt here -- and nowhere else.
InvValidateAgrees ==
  phase = "validated" =>
     /\ \A i \in 1..Len(codes) : SxValidateAgrees(codes[i], SxInFluxPolytope(X, rowsA[i]))
     /\ LET ps == ProbeSeq(X) IN
        \A i \in 1..Len(ps) : /\ SxCodeWellFormed(pcodes[i])
                              /\ SxOnlyUserRowsViolated(X, ps[i]) \/ SxValidateAgrees(pcodes[i], SxInFluxPolytope(X, ps[i]))
InvValidateLetters ==
  phase = "validated" =>
     LET ps == ProbeSeq(X) IN
     \A i \in 1..Len(ps) : /\ LetterAgrees(pcodes[i], "l", SxLetterL(X, ps[i]))
                           /\ LetterAgrees(pcodes[i], "u", SxLetterU(X, ps[i]))
                           /\ LetterAgrees(pcodes[i], "e", SxLetterE(X, ps[i]))
InvModelUnchanged == modelPost = ModelDigest(X)
InvRefusal == phase = "refused" => SxRefusalExpected(X, Lat, SxDim(Lat)) # "no"
\* the independent check itself: complete on integer points (exactly the lattice is accepted)
InvOracleExact ==
  (phase = "new" /\ NR(X.M) <= 4) =>
    LET box == FeasibleBox([X.M EXCEPT !.S = [r \in RIdx(X.M) |-> [m \in MIdx(X.M) |-> 0]]],
                           [r \in RIdx(X.M) |-> X.M.lb[r] - 1], [r \in RIdx(X.M) |-> X.M.ub[r] + 1]) IN
    \A p \in box : (SxInFluxPolytope(X, ScaleVec(p)) = "yes") = (p \in Lat)

\* ------------------------------------------------------------- emission
Emit ==
  LET ps == ProbeSeq(X) IN
  [j |-> j, inst |-> X, cfgs |-> CfgSeq(j) \o PinnedTail,
   probes |-> [i \in 1..Len(ps) |-> [flux |-> ps[i],
                                     vars |-> LET p == [q \in 1..Len(ps[i]) |-> ps[i][q] \div SxScale] IN
                                              \* variable-space twin only for the integer probes
                                              IF ScaleVec(p) = ps[i] THEN ScaleVec(SxSplit(X, p, ZFor(X, p))) ELSE <<>>]]]
Constr == (Mode = "cases") => PrintT(ToJson(Emit))
=============================================================================
