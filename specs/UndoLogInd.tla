---------------------------- MODULE UndoLogInd ----------------------------
(***************************************************************************)
(* Inductive argument for the context mechanism (C03, mechanism layer),    *)
(* checked with TLC: instead of exploring histories from the initial       *)
(* state (MC_UndoLog.cfg: at most MaxOps operations), EVERY state that     *)
(* satisfies the inductive invariant IndInv -- with at most D open         *)
(* contexts of at most R undo records each -- is an initial state, and     *)
(* one step of Next must lead to a state that satisfies IndInv again.      *)
(* IndInit => IndInv holds by construction (snaps is computed from stack   *)
(* and x), Init => IndInv is the empty-stack case, so IndInv holds after   *)
(* histories of ANY length whose nesting stays within D and R; and IndInv  *)
(* makes every Exit restore its snapshot (ExitRestores, evaluated on the   *)
(* successor states through the history variable lastExitOK).              *)
(* With Hide = FALSE (the pinned tree) the step fails: negative control.   *)
(***************************************************************************)
EXTENDS UndoLog

CONSTANTS D, R

Records == [v : Vars, old : Vals, aware : BOOLEAN]
Ctxs == UNION {[1..n -> Records] : n \in 0..R}
Stacks == UNION {[1..d -> Ctxs] : d \in 0..D}

\* the snapshots a stack of undo logs stands for: level k restores to Undo(stack[k], state on entry of k+1)
RECURSIVE SnapsOf(_, _)
SnapsOf(stk, xs) ==
  IF stk = <<>> THEN <<>>
  ELSE LET n == Len(stk) s == Undo(stk[n], xs) IN Append(SnapsOf(SubSeq(stk, 1, n - 1), s), s)

IndInv ==
  /\ Len(snaps) = Len(stack)
  /\ \A k \in 1..Len(stack) :
        Undo(stack[k], IF k = Len(stack) THEN x ELSE snaps[k + 1]) = snaps[k]
  /\ lastExitOK

IndInit ==
  /\ x \in [Vars -> Vals]
  /\ stack \in Stacks
  /\ snaps = SnapsOf(stack, x)
  /\ nops = 0 /\ lastExitOK = TRUE

IndSpec == IndInit /\ [][Next]_vars
\* sanity: the construction really yields states of the invariant
InitIsInv == (nops = 0) => IndInv
=============================================================================
