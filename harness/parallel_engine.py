"""Engine `parallel` (property C14): ParallelMap.tla / ParallelCases.tla / TraceParallel.tla <-> the pooled
analyses of cobra (flux_variability_analysis, find_blocked_reactions, find_essential_*, single / double
deletions, OptGPSampler).

1. design check: TLC explores EVERY schedule of the per-worker protocol (Dispatch / Begin / Finish / Deliver in
   any order) for every permutation of <= 5 items and 1..3 processes, with an uninterpreted step function;
   three negative controls (SkipReset, Positional, DropLastChunk) must fail;
2. cases: TLC emits unit-network instances (exact lattice oracle) with gene rules and, per analysis, a call
   grid over processes x item permutations / sub-lists / single items x delay seeds;
3. driver: the grid is replayed into the REAL cobra functions in separate driver processes (one PYTHONHASHSEED
   each: the iteration order of the deletion item set varies with it).  Worker-side observation: the events
   fva.begin/end, del.begin/end, chain.begin/end come from the hooks H3-H5 (cobra.util._verif) when /repo has
   them, otherwise from equivalent harness wrappers around the module-level step functions (installed before
   the pool forks, hence inherited by the workers); the observer writes one JSON line per event to a
   per-process file with a per-process sequence number, computes preClean from the worker's model and
   injects a seeded delay per (task, delay seed).  With VERIF_PARALLEL_OBSERVE=none (or if neither source is
   available) the engine degrades to the black-box comparisons and reports `hook-events-missing`;
4. TLC validates every recorded call (TraceParallel): tasks executed exactly once, clean Begin, row = value
   logged at Finish, rows = requested items, chunk shape, frames equal to the reference call, to the
   single-item calls and to the lattice value; OptGP rows feasible and reproducible per (seed, processes).
"""
import hashlib
import json
import math
import multiprocessing as mp
import os
import subprocess
import sys
import threading
import time
import zlib

from . import common as C

for _k in ("OMP_NUM_THREADS", "OPENBLAS_NUM_THREADS", "MKL_NUM_THREADS"):
    os.environ.setdefault(_k, "1")

SCALE = 1000000
SX = 100000000
CLAMP = 2000000000
OPS = ("FluxLatticeOps", "ParallelOps", "ParallelCases")
DESIGN_INV = ["InvBeginClean", "InvOnce", "InvFrame", "InvDelivered", "InvCarry"]
NEG = [("SkipReset", "list", 4, "InvFrame"), ("Positional", "list", 4, "InvFrame"),
       ("DropLastChunk", "list", 5, "InvFrame"), ("SkipReset", "pairs", 3, "InvBeginClean")]

TIERS = {
    # design runs: (Req, MaxN, Perms); "one" = one order per item set (symmetry-reduced, see ParallelMap.tla)
    "quick": {"design": [("list", 4, "all"), ("list", 5, "one"), ("pairs", 3, "all")], "neg": 2,
              "cases": {"NInst": 8, "NVar": 1, "NPairs": 3}, "drivers": 10, "trace_timeout": 90},
    "thorough": {"design": [("list", 5, "all"), ("pairs", 5, "all")], "neg": 4,
                 "cases": {"NInst": 90, "NVar": 3, "NPairs": 6}, "drivers": 12, "trace_timeout": 240},
}

PALETTES = [
    {"name": "plain", "rid": "R{k}", "gid": "g{k}", "mid": "{m}"},
    {"name": "awkward", "rid": "rx_{inv}_p", "gid": "b{inv}x", "mid": "m_{m}"},
]
FVA_KINDS = ("fva", "fva0", "lfva")
DEL_KINDS = ("srd", "sgd", "drd", "dgd")
HOOK_OF = {"fva": "H3", "fva0": "H3", "lfva": "H3", "blocked": "H3", "srd": "H4", "sgd": "H4", "drd": "H4",
           "dgd": "H4", "essg": "H4", "essr": "H4", "optgp": "H5"}


# ====================================================================== TLC side
def design_check(wd, tier, out):
    """runs in a thread, concurrently with the drivers"""
    try:
        T = TIERS[tier]
        runs = []
        for req, maxn, perms in T["design"]:
            cfg = C.write_cfg(os.path.join(wd, "design_%s_%d_%s.cfg" % (req, maxn, perms)),
                              {"MaxN": maxn, "MaxP": 3, "Req": req, "Perms": perms, "Bug": "none"}, invariants=DESIGN_INV)
            res = C.run_tlc("ParallelMap", cfg, wd, workers=max(2, C.NCPU // 4), timeout=2400)
            runs.append((req + "/" + perms, maxn, res))
        out["design"] = runs
        controls = {}
        pick = NEG if T["neg"] >= len(NEG) else [NEG[0]] + [NEG[1 + (C.seed() + i) % (len(NEG) - 1)] for i in range(T["neg"] - 1)]
        for bug, req, maxn, inv in pick:
            cfgp = C.write_cfg(os.path.join(wd, "neg_%s_%s.cfg" % (bug, req)),
                               {"MaxN": maxn, "MaxP": 3, "Req": req, "Perms": "all", "Bug": bug}, invariants=[inv])
            r = C.run_tlc("ParallelMap", cfgp, wd, workers=2, timeout=900, expect_violation=True)
            controls["%s/%s" % (bug, req)] = r["error"]
            if r["error"] != "invariant:" + inv:
                raise C.Machinery("negative control %s was NOT rejected by TLC (%r): the design check is vacuous"
                                  % (bug, r["error"]))
        out["controls"] = controls
    except BaseException as e:      # re-raised by the caller
        out["error"] = e


def generate(wd, tier, sd):
    p = TIERS[tier]["cases"]
    consts = {"NInst": p["NInst"], "Seed": sd % 60000, "NVar": p["NVar"], "NPairs": p["NPairs"]}
    key = C.spec_hash(*OPS) + "_" + hashlib.sha256(json.dumps(consts, sort_keys=True).encode()).hexdigest()[:16]
    cpath = os.path.join(C.CACHE, "parallel", key + ".json")
    if os.path.exists(cpath):
        with open(cpath) as fh:
            data = json.load(fh)
        return data["cases"], data["stats"]
    cfgp = C.write_cfg(os.path.join(wd, "gen.cfg"), consts, {"KindSeq": "KindsAll"}, constraints=["Constr"])
    res = C.run_tlc("ParallelCases", cfgp, wd, workers=max(2, C.NCPU // 4), timeout=900)
    by = {}
    for c in res["printed"]:
        by[c["k"]] = c
    cases = [by[k] for k in sorted(by)]
    stats = {"generated": res["generated"], "distinct": res["distinct"], "cmd": res["cmd"],
             "wall_s": round(res["wall_s"], 1), "constants": consts}
    os.makedirs(os.path.dirname(cpath), exist_ok=True)
    tmp = cpath + ".tmp%d" % os.getpid()
    with open(tmp, "w") as fh:
        json.dump({"cases": cases, "stats": stats}, fh)
    os.replace(tmp, cpath)
    return cases, stats


# ====================================================================== observer (driver process + forked workers)
OBS = {"dir": None, "call": -1, "ds": 0, "vseed": 0, "pid": None, "seq": 0, "tok": None, "fh": None, "init": None,
       "model": None, "parent": None}


def _digest(model):
    """what a task may leave behind on a worker's model"""
    model.solver.update()
    obj = model.solver.objective
    coefs = obj.get_linear_coefficients(model.solver.variables)
    nz = tuple(sorted((v.name, float(c)) for v, c in coefs.items() if c != 0))
    return (tuple((r.id, r.lower_bound, r.upper_bound) for r in model.reactions),
            tuple((g.id, bool(g.functional)) for g in model.genes),
            tuple((v.name, v.lb, v.ub) for v in model.solver.variables),
            len(model._contexts), nz)


def _emit(rec):
    pid = os.getpid()
    if OBS["pid"] != pid:           # first event in a forked worker
        OBS.update(pid=pid, seq=0, tok="%d-%s" % (pid, os.urandom(3).hex()), fh=None, init=None)
    if OBS["fh"] is None:
        OBS["fh"] = open(os.path.join(OBS["dir"], "ev_%s.jsonl" % OBS["tok"]), "a")
    OBS["seq"] += 1
    rec.update(c=OBS["call"], w=OBS["tok"], q=OBS["seq"])
    OBS["fh"].write(json.dumps(rec) + "\n")
    OBS["fh"].flush()


def _delay(task):
    if OBS["ds"]:
        h = zlib.crc32(("%s|%d|%d" % (task, OBS["ds"], OBS["vseed"])).encode())
        time.sleep((h % 6) * 0.0012)


def _model_of(fields, module_name):
    m = fields.get("model")
    if m is not None:
        return m
    if os.getpid() != OBS["parent"]:
        mod = sys.modules.get(module_name)
        m = getattr(mod, "_model", None)
        if m is not None:
            return m
    return OBS["model"]


def _clean(model, need_zero_objective):
    if OBS["pid"] != os.getpid():
        OBS.update(pid=os.getpid(), seq=0, tok="%d-%s" % (os.getpid(), os.urandom(3).hex()), fh=None, init=None)
    d = _digest(model)
    why = []
    if OBS["init"] is None:
        OBS["init"] = d
    else:
        i = OBS["init"]
        for k, name in enumerate(("bounds", "genes", "variables", "context_depth", "objective")):
            if d[k] != i[k]:
                why.append(name)
    if need_zero_objective and d[4]:
        why.append("objective_coefficient_set")
    return why


def observer(name, fields):
    try:
        if name == "fva.begin":
            model = _model_of(fields, "cobra.flux_analysis.variability")
            _delay(fields["rid"])
            why = _clean(model, True)
            _emit({"e": "b", "task": [fields["rid"]], "pass": str(model.solver.objective.direction),
                   "clean": not why, "why": why})
        elif name == "fva.end":
            model = _model_of(fields, "cobra.flux_analysis.variability")
            _emit({"e": "f", "task": [fields["rid"]], "pass": str(model.solver.objective.direction),
                   "val": [fields["value"]], "status": "-"})
        elif name == "del.begin":
            model = _model_of(fields, "cobra.flux_analysis.deletion")
            ids = sorted(fields["ids"])
            _delay("+".join(ids))
            why = _clean(model, False)
            _emit({"e": "b", "task": ids, "pass": "-", "clean": not why, "why": why})
        elif name == "del.end":
            _emit({"e": "f", "task": sorted(fields["ids"]), "pass": "-", "val": [fields["growth"]],
                   "status": str(fields["status"])})
        elif name == "chain.begin":
            _delay("chain%d" % fields["idx"])
            _emit({"e": "b", "task": [int(fields["idx"])], "pass": "-", "clean": True, "why": [],
                   "val": [int(fields["seed"])]})
        elif name == "chain.end":
            _emit({"e": "f", "task": [int(fields["idx"])], "pass": "-", "val": [], "status": "-"})
    except Exception as e:          # the observer must never change the outcome of the code under test
        try:
            _emit({"e": "x", "task": [], "pass": "-", "err": "%s: %s" % (type(e).__name__, e)})
        except Exception:
            pass


def install_observation(mode):
    """-> {"H3": "hooks" | "wrappers" | "none", ...}"""
    import inspect
    from cobra.util import _verif
    from cobra.flux_analysis import variability as V, deletion as D
    from cobra.sampling import optgp as G
    src = {"H3": ("fva.begin", "fva.end"), "H4": ("del.begin", "del.end"), "H5": ("chain.begin", "chain.end")}
    have = {}
    if mode == "none":
        return {h: "none" for h in src}
    for h, fns in (("H3", [V._fva_step]), ("H4", [D._reaction_deletion, D._gene_deletion]), ("H5", [G._sample_chain])):
        try:
            ok = _verif.ENABLED and all(all(('"%s"' % n) in inspect.getsource(f) for n in src[h]) for f in fns)
        except (OSError, TypeError):
            ok = False
        have[h] = "hooks" if ok and mode != "wrappers" else "wrappers"
    if "hooks" in have.values():
        def routed(name, fields):
            h = {"fva": "H3", "del": "H4", "chain": "H5"}.get(name.split(".")[0])
            if h and have[h] == "hooks":
                observer(name, fields)
        _verif.set_observer(routed)

    def wrap(mod, fname, begin, end, pre, post):
        orig = getattr(mod, fname)

        def wrapper(*a):
            observer(begin, pre(*a))
            r = orig(*a)
            observer(end, post(r, *a))
            return r
        wrapper.__name__ = wrapper.__qualname__ = fname
        wrapper.__module__ = mod.__name__
        wrapper.__wrapped__ = orig
        setattr(mod, fname, wrapper)
    try:
        if have["H3"] == "wrappers":
            wrap(V, "_fva_step", "fva.begin", "fva.end",
                 lambda rid: {"rid": rid, "model": V._model},
                 lambda r, rid: {"rid": rid, "value": r[1], "model": V._model})
        if have["H4"] == "wrappers":
            for fn in ("_reaction_deletion", "_gene_deletion"):
                wrap(D, fn, "del.begin", "del.end",
                     lambda model, ids: {"ids": list(ids), "model": model},
                     lambda r, model, ids: {"ids": list(ids), "growth": r[1], "status": r[2], "model": model})
        if have["H5"] == "wrappers":
            import numpy as np
            wrap(G, "_sample_chain", "chain.begin", "chain.end",
                 lambda a: {"idx": a[1], "seed": (G.sampler._seed + a[1]) % np.iinfo(np.int32).max, "n": a[0]},
                 lambda r, a: {"idx": a[1], "retries": r[0]})
    except Exception:
        return {h: ("none" if v == "wrappers" else v) for h, v in have.items()}
    return have


# ====================================================================== driver (separate process per job file)
def enc(x):
    if x is None:
        return {"k": "none", "i": 0}
    try:
        x = float(x)
    except (TypeError, ValueError):
        return {"k": "none", "i": 0}
    if math.isnan(x):
        return {"k": "nan", "i": 0}
    if abs(x) >= 2000:
        return {"k": "big", "i": 0}
    return {"k": "num", "i": int(round(x * SCALE))}


def fx(x):
    try:
        x = float(x)
    except (TypeError, ValueError):
        return CLAMP
    if math.isnan(x):
        return CLAMP
    v = x * SX
    return CLAMP if v >= CLAMP else -CLAMP if v <= -CLAMP else int(round(v))


class Names:
    def __init__(self, inst, pal):
        M = inst["M"]
        n = len(M["rxns"])
        self.r = {M["rxns"][k]: pal["rid"].format(k=k + 1, inv=n + 7 - k) for k in range(n)}
        self.g = {"g%d" % k: pal["gid"].format(k=k, inv=1000 + 7 * (9 - k)) for k in range(1, 5)}
        self.m = {m: pal["mid"].format(m=m) for m in M["mets"]}
        self.conc = dict(self.r)
        self.conc.update(self.g)
        self.abs = {v: k for k, v in self.conc.items()}

    def item(self, ids):
        return sorted(self.abs.get(str(i), "?" + str(i)) for i in ids)


def build_model(inst, names):
    import cobra
    M = inst["M"]
    model = cobra.Model("parallel_case")
    mets = [cobra.Metabolite(names.m[m], compartment="c") for m in M["mets"]]
    model.add_metabolites(mets)
    rxns = []
    for k, rid in enumerate(M["rxns"]):
        r = cobra.Reaction(names.r[rid])
        r.add_metabolites({mets[j]: float(c) for j, c in enumerate(M["S"][k]) if c})
        r.bounds = (float(M["lb"][k]), float(M["ub"][k]))
        rule = inst["rules"][k]
        if rule:
            r.gene_reaction_rule = " or ".join("(" + " and ".join(names.g[g] for g in conj) + ")" for conj in rule)
        rxns.append(r)
    model.add_reactions(rxns)
    model.objective = {model.reactions.get_by_id(names.r[rid]): float(c) for rid, c in zip(M["rxns"], M["c"]) if c}
    model.objective_direction = M["dir"]
    return model


def _collect(call_id):
    """events of this call, grouped per worker process and ordered by the process's own sequence numbers"""
    by = {}
    d = OBS["dir"]
    if OBS["fh"] is not None:
        OBS["fh"].close()
        OBS["fh"] = None
    for f in sorted(os.listdir(d)):
        if not f.startswith("ev_"):
            continue
        p = os.path.join(d, f)
        with open(p) as fh:
            for line in fh:
                try:
                    e = json.loads(line)
                except ValueError:
                    continue
                if e.get("c") == call_id:
                    by.setdefault(e["w"], []).append(e)
        os.unlink(p)
    out = []
    for w in sorted(by):
        out.append(sorted(by[w], key=lambda e: e["q"]))
    return out


def _objs(model, kind, ids, call_index):
    """ids -> what is passed to the API: identifiers and objects alternate (find_blocked_reactions gets objects)"""
    coll = model.genes if kind in ("sgd", "dgd") else model.reactions
    if kind == "blocked" or call_index % 2 == 1:
        return [coll.get_by_id(i) for i in ids]
    return list(ids)


def invoke(model, kind, call, names, ci):
    """-> (rows, setres, extra)"""
    from cobra.flux_analysis import (double_gene_deletion, double_reaction_deletion, find_blocked_reactions,
                                     find_essential_genes, find_essential_reactions, flux_variability_analysis,
                                     single_gene_deletion, single_reaction_deletion)
    P = call["P"]
    l1 = None if call["dflt"] else _objs(model, kind, [names.conc[x] for x in call["l1"]], ci)
    l2 = None if call["dflt"] else _objs(model, kind, [names.conc[x] for x in call["l2"]], ci + 1)
    if kind in FVA_KINDS:
        df = flux_variability_analysis(model, reaction_list=l1, loopless=(kind == "lfva"),
                                       fraction_of_optimum=(0.0 if kind == "fva0" else 1.0), processes=P)
        return [{"item": names.item([rid]), "vals": [enc(df.at[rid, "minimum"]), enc(df.at[rid, "maximum"])],
                 "status": "-"} for rid in df.index], [], {}
    if kind in DEL_KINDS:
        fn = {"srd": single_reaction_deletion, "sgd": single_gene_deletion, "drd": double_reaction_deletion,
              "dgd": double_gene_deletion}[kind]
        df = fn(model, l1, processes=P) if kind in ("srd", "sgd") else fn(model, l1, l2, processes=P)
        return [{"item": names.item(row.ids), "vals": [enc(row.growth)], "status": str(row.status)}
                for row in df.itertuples()], [], {}
    if kind == "blocked":
        res = find_blocked_reactions(model, reaction_list=l1, processes=P)
        return [], [names.item([getattr(r, "id", r)]) for r in res], {}
    if kind == "essg":
        return [], [names.item([g.id]) for g in find_essential_genes(model, processes=P)], {}
    if kind == "essr":
        return [], [names.item([r.id]) for r in find_essential_reactions(model, processes=P)], {}
    if kind == "optgp":
        import numpy as np
        from cobra.sampling import OptGPSampler
        s = OptGPSampler(model, thinning=call["thin"], processes=P, seed=call["seed"])
        df = s.sample(call["n"])
        for _ in range(call.get("rounds", 1) - 1):      # further calls on the same sampler object
            import pandas as pd
            df = pd.concat([df, s.sample(call["n"])], ignore_index=True)
        vals = np.asarray(df.values, dtype=float)
        cols_ok = [str(c) for c in df.columns] == [r.id for r in model.reactions]
        w = np.asarray(s.warmup, dtype=float)       # warm-up geometry: root-cause tag of F66
        return [[fx(x) for x in row] for row in vals], [], {
            "digest": hashlib.sha1(vals.tobytes()).hexdigest()[:20] + ("" if cols_ok else "-columns"),
            "nwarm": int(w.shape[0]),
            "wmid": bool(w.shape[0] == 3 and np.allclose(w[2], (w[0] + w[1]) / 2.0, rtol=0, atol=1e-9))}
    raise C.Machinery("unknown kind %r" % (kind,))


class _CallTimeout(Exception):
    pass


def _alarm(signum, frame):
    raise _CallTimeout()


def run_trace(tr, source):
    import signal
    names = Names(tr["inst"], tr["palette"])
    model = build_model(tr["inst"], names)
    kind = tr["kind"]
    ev = source[HOOK_OF[kind]]
    calls_out = []
    signal.signal(signal.SIGALRM, _alarm)
    if tr.get("prehist") and kind != "optgp":
        # pre-history (not judged): the same analysis ran serially on THIS model object while the model was in another
        # state (first boundary reaction closed); the documented results do not depend on what was computed before
        OBS.update(call=-1, ds=0, init=None, seq=0, pid=os.getpid(), model=model, tok="%d-pre" % os.getpid(), fh=None)
        bnd = [r for r in model.reactions if r.boundary]
        if bnd:
            old = bnd[0].bounds
            signal.alarm(tr.get("call_timeout", 60))
            try:
                bnd[0].bounds = (0, 0)
                invoke(model, kind, dict(tr["calls"][0], P=1), names, 0)
            except Exception:       # whatever the analysis says about that other state
                pass
            finally:
                signal.alarm(0)
                bnd[0].bounds = old
    for ci, call in enumerate(tr["calls"]):
        call_id = tr["tid"] * 1000 + ci
        OBS.update(call=call_id, ds=call["ds"], init=None, seq=0, pid=os.getpid(), model=model,
                   tok="%d-c%d" % (os.getpid(), call_id), fh=None)
        pre = _digest(model)
        rec = dict(call)
        rec.update(raises="none", rows=[], setres=[], workers=[], left_clean=True)
        signal.alarm(tr.get("call_timeout", 60))
        try:
            rows, setres, extra = invoke(model, kind, call, names, ci)
            rec.update(rows=rows, setres=setres)
            rec.update(extra)
        except _CallTimeout:
            rec["raises"] = "Timeout"
        except C.Machinery:
            raise
        except Exception as e:      # the outcome of the call under test
            rec["raises"] = type(e).__name__
        finally:
            signal.alarm(0)
        if kind == "optgp":
            rec.setdefault("digest", "-")
            rec.setdefault("nwarm", 0)
            rec.setdefault("wmid", False)
        workers = _collect(call_id) if ev != "none" else []
        rec["observer_errors"] = [e.get("err") for w in workers for e in w if e["e"] == "x"]
        rec["workers"] = [[{"e": e["e"], "task": (e["task"] if kind == "optgp" else names.item(e["task"])),
                            "pass": e["pass"], "clean": bool(e.get("clean", True)),
                            "vals": ([int(v) for v in e.get("val", [])] if kind == "optgp" else [enc(v) for v in e.get("val", [])]),
                            "status": e.get("status", "-"), "why": e.get("why", [])}
                           for e in w if e["e"] in ("b", "f")] for w in workers]
        try:
            post = _digest(model)
        except Exception:
            post = None
        if post != pre:
            rec["left_clean"] = False
            model = build_model(tr["inst"], names)
        calls_out.append(rec)
    return {"tid": tr["tid"], "inst": tr["inst"], "kind": kind, "ev": ev, "calls": calls_out, "prehist": bool(tr.get("prehist"))}


def _driver_main(job_path, out_path):
    import logging
    import warnings
    logging.disable(logging.CRITICAL)
    warnings.simplefilter("ignore")
    with open(job_path) as fh:
        job = json.load(fh)
    OBS.update(dir=job["evdir"], vseed=job["vseed"], parent=os.getpid(), pid=os.getpid())
    os.makedirs(job["evdir"], exist_ok=True)
    source = install_observation(job["observe"])
    out = []
    for tr in job["traces"]:
        out.append(run_trace(tr, source))
        with open(out_path + ".tmp", "w") as fh:
            json.dump({"source": source, "traces": out, "hashseed": os.environ.get("PYTHONHASHSEED")}, fh)
        os.replace(out_path + ".tmp", out_path)


def drive(jobs, wd, timeout):
    """jobs: list of (hashseed, [trace specs]); one python process per job, all at once"""
    procs = []
    observe = os.environ.get("VERIF_PARALLEL_OBSERVE", "auto")
    for j, (hs, traces) in enumerate(jobs):
        jp = os.path.join(wd, "job_%d.json" % j)
        op = os.path.join(wd, "out_%d.json" % j)
        with open(jp, "w") as fh:
            json.dump({"traces": traces, "evdir": os.path.join(wd, "ev_%d" % j), "vseed": C.seed(),
                       "observe": observe}, fh)
        env = dict(os.environ)
        env.update(PYTHONHASHSEED=str(hs), COBRA_VERIF="1")
        code = ("import sys; sys.path.insert(0, %r); from harness import parallel_engine as E; "
                "E._driver_main(%r, %r)" % (C.VERIF, jp, op))
        errp = os.path.join(wd, "err_%d.txt" % j)
        p = subprocess.Popen([sys.executable, "-c", code], cwd=C.VERIF, env=env, stdout=open(errp, "w"),
                             stderr=subprocess.STDOUT)
        procs.append((p, op, errp, len(traces)))
    results, source = [], None
    t_end = time.time() + timeout
    for p, op, errp, n in procs:
        try:
            p.wait(timeout=max(1, t_end - time.time()))
        except subprocess.TimeoutExpired:
            p.kill()
            for q, _, _, _ in procs:
                if q.poll() is None:
                    q.kill()
            raise C.Machinery("a driver process did not finish within %d s (pool hang?)" % timeout)
        data = None
        if os.path.exists(op):
            with open(op) as fh:
                data = json.load(fh)
        if p.returncode != 0 or data is None or len(data["traces"]) != n:
            with open(errp) as fh:
                tail = fh.read()[-1500:]
            raise C.Machinery("driver process failed (rc=%s, %s of %d traces):\n%s"
                              % (p.returncode, len(data["traces"]) if data else 0, n, tail))
        results.extend(data["traces"])
        source = source or data["source"]
    return results, source


# ====================================================================== validation
def _validate_file(args):
    path, wd = args
    cfgp = C.write_cfg(path + ".cfg")
    res = C.run_tlc("TraceParallel", cfgp, wd, workers=2, env={"TRACE_FILE": path}, timeout=3000, heap="3g")
    return {"printed": res["printed"], "distinct": res["distinct"], "cmd": res["cmd"]}


def _for_tlc(t):
    inst = dict(t["inst"])
    inst["sx"] = {"M": t["inst"]["M"], "U": [], "hasz": False, "zb": [0, 0]}
    calls = []
    for c in t["calls"]:
        c2 = {k: v for k, v in c.items() if k not in ("observer_errors",)}
        c2["workers"] = [[{k: v for k, v in e.items() if k != "why"} for e in w] for w in c["workers"]]
        calls.append(c2)
    return {"tid": t["tid"], "inst": inst, "kind": t["kind"], "ev": t["ev"], "calls": calls}


def validate(traces, wd, tag, max_calls=400):
    files, cur, n = [], [], 0
    for t in traces:
        cur.append(t)
        n += len(t["calls"])
        if n >= max_calls:
            files.append(cur)
            cur, n = [], 0
    if cur:
        files.append(cur)
    jobs = []
    for i, batch in enumerate(files):
        path = os.path.join(wd, "batch_%s_%d.json" % (tag, i))
        with open(path, "w") as fh:
            json.dump([_for_tlc(t) for t in batch], fh)
        jobs.append((path, wd))
    verdicts, distinct, cmd = [], 0, ""
    with mp.get_context("fork").Pool(min(len(jobs), max(1, C.NCPU // 2))) as pool:
        for r in pool.imap_unordered(_validate_file, jobs):
            verdicts.extend(r["printed"])
            distinct += r["distinct"]
            cmd = r["cmd"]
    expected = sum(len(t["calls"]) + 1 for t in traces)
    if distinct != expected:
        raise C.Machinery("trace validation consumed %d states, expected %d (%s)" % (distinct, expected, tag))
    return verdicts, cmd


def _downgrade_missing(traces, notes):
    """hook events missing (a hook line was dropped, observation unavailable): black-box only, never a violation"""
    for t in traces:
        if t["ev"] == "none":
            continue
        nb = sum(1 for c in t["calls"] for w in c["workers"] for e in w if e["e"] == "b")
        nf = sum(1 for c in t["calls"] for w in c["workers"] for e in w if e["e"] == "f")
        produced = any(c["rows"] or c["setres"] for c in t["calls"])
        errs = [x for c in t["calls"] for x in c.get("observer_errors", [])]
        if produced and (nb == 0 or nf == 0 or errs):
            notes.append("hook-events-missing: trace %d (%s): %d begin / %d finish events, observer errors %s"
                         % (t["tid"], t["kind"], nb, nf, errs[:2]))
            t["ev"] = "none"
            for c in t["calls"]:
                c["workers"] = []


def _specs(cases, tier, sd):
    """(hashseed, trace specs) per driver process; deterministic in the seed"""
    T = TIERS[tier]
    nd = T["drivers"]
    jobs = [(1 + (sd * 7 + j * 13) % 997, []) for j in range(nd)]
    meta = {}
    tid = 0
    for ci, case in enumerate(cases):
        pal = PALETTES[(ci + sd) % len(PALETTES)]
        for kd in case["kinds"]:
            tid += 1
            spec = {"tid": tid, "inst": case["inst"], "kind": kd["kind"], "calls": kd["calls"], "palette": pal,
                    "call_timeout": 60, "prehist": tid % 2 == 1}
            j = (tid + ci) % nd
            jobs[j][1].append(spec)
            meta[tid] = {"case": case["k"], "palette": pal["name"], "hashseed": jobs[j][0]}
    return [j for j in jobs if j[1]], meta


def run(prop, tier, replay=None):
    assert prop == "C14"
    rep = C.Report(prop, tier)
    wd = C.workdir("C14_" + tier)
    rep.cleanup.append(wd)
    sd = C.seed()
    T = TIERS[tier]
    if replay is not None:
        return _replay(rep, wd, replay)
    dres = {}
    t0 = time.time()
    phases = {}
    th = threading.Thread(target=design_check, args=(wd, tier, dres))
    th.start()
    try:
        cases, stats = generate(wd, tier, sd)
        phases["generate"] = round(time.time() - t0, 1)
        jobs, meta = _specs(cases, tier, sd)
        ntr = sum(len(j[1]) for j in jobs)
        traces, source = drive(jobs, wd, timeout=120 if tier == "quick" else 1500)
        phases["drive"] = round(time.time() - t0, 1)
        traces.sort(key=lambda t: t["tid"])
        _downgrade_missing(traces, rep.notes)
        verdicts, cmd = validate(traces, wd, "main")
        phases["validate"] = round(time.time() - t0, 1)
    finally:
        th.join()
    phases["design_joined"] = round(time.time() - t0, 1)
    if "error" in dres:
        raise dres["error"]
    for req, maxn, res in dres["design"]:
        rep.add_design(res)
    by_tid = {t["tid"]: t for t in traces}
    spec_of = {s["tid"]: s for j in jobs for s in j[1]}
    for v in verdicts:
        v2 = dict(v)
        v2["spec"] = "TraceParallel"
        v2["action"] = v["kind"]
        t = by_tid[v["tid"]]
        c = t["calls"][v["l"] - 1]
        rep.verdict(v2, {"engine": "parallel", "trace_spec": spec_of[v["tid"]], "hashseed": meta[v["tid"]]["hashseed"],
                         "failing_call": {k: c[k] for k in ("P", "l1", "l2", "ds", "dflt", "raises")},
                         "observed_rows": c["rows"][:30], "reference_rows": t["calls"][0]["rows"][:30],
                         "unclean": [[e["task"], e["why"]] for w in c["workers"] for e in w if e["e"] == "b" and not e["clean"]][:10]})
    cov = _coverage(traces, source, rep)
    cov["negative_controls"] = dres.get("controls", {})
    if cov["sampling"]["optgp_pooled_calls_with_rows"] == 0:
        raise C.Machinery("vacuity: no pooled OptGP call returned samples")
    if cov["calls_judged"] == 0 or (cov["observed_traces"] and cov["begins_on_a_used_worker"] == 0):
        raise C.Machinery("vacuity: %d calls judged, %d Begin events on a worker that had already run a task"
                          % (cov["calls_judged"], cov["begins_on_a_used_worker"]))
    missing = [k for k in ("fva", "fva0", "lfva", "blocked", "essg", "essr", "srd", "sgd", "drd", "dgd", "optgp")
               if not cov["per_action_counts"].get(k)]
    if missing:
        raise C.Machinery("vacuity: kinds never exercised: %s" % missing)
    rep.coverage["design_runs"] = [{"Req": req, "MaxN": maxn, "MaxP": 3, "states": res["distinct"],
                                    "transitions": res["generated"], "wall_s": round(res["wall_s"], 1)}
                                   for req, maxn, res in dres["design"]]
    rep.coverage["case_generation"] = {"instances": len(cases), "constants": stats["constants"], "cmd": stats["cmd"]}
    rep.coverage["trace_checker_cmd"] = cmd
    rep.coverage["phase_end_s"] = phases
    rep.coverage["exhaustive"] = False
    rep.coverage["design_exhaustive"] = True
    rep.coverage["samples"] = [_shorten(traces[0]), _shorten(traces[len(traces) // 2])]
    rep.assumptions = [
        "design: exhaustive over all schedules, all permutations of <= 5 items (pairs: item sets of two lists over 3 "
        "ids), processes 1..3; the implementation side is a seeded sample of instances x call grid",
        "start method fork (the platform default); worker events are ordered per process only, by the observer's "
        "own sequence numbers; no wall clock, no cross-process order",
        "values compared at 2e-6 absolute (solver outputs); sets and frames compared as functions of the item, "
        "never by row order",
        "lattice values (unit networks, finite integer bounds, single-reaction objective) for FVA at fractions 1 "
        "and 0, FBA deletions and essential sets; loopless FVA and blocked sets are compared across "
        "configurations only",
    ]
    return rep.finish(cov)


def _coverage(traces, source, rep):
    per, calls, events, second, pooled_calls, assignments = {}, 0, 0, 0, 0, set()
    pairs = set()
    for t in traces:
        for c in t["calls"]:
            calls += 1
            per[t["kind"]] = per.get(t["kind"], 0) + 1
            pairs.add((t["tid"], json.dumps({k: c[k] for k in ("P", "l1", "l2", "ds", "dflt")}, sort_keys=True)))
            if len(c["workers"]) > 1:
                pooled_calls += 1
            for w in c["workers"]:
                events += len(w)
                nb = [e for e in w if e["e"] == "b"]
                second += max(0, len(nb) - 1)
            if c["workers"]:
                assignments.add((t["tid"], json.dumps(sorted([[e["task"] for e in w if e["e"] == "b"] for w in c["workers"]]))))
    observed = sum(1 for t in traces if t["ev"] != "none")
    sampling = {"optgp_calls_with_rows": sum(1 for t in traces if t["kind"] == "optgp" for c in t["calls"] if c["rows"]),
                "optgp_pooled_calls_with_rows": sum(1 for t in traces if t["kind"] == "optgp" for c in t["calls"]
                                                    if c["rows"] and c["P"] > 1),
                "optgp_rows_judged": sum(len(c["rows"]) for t in traces if t["kind"] == "optgp" for c in t["calls"])}
    hook_state = {h: ("present" if v == "hooks" else "hook-events-missing (harness wrappers observe the same points)"
                      if v == "wrappers" else "hook-events-missing (black-box comparisons only)")
                  for h, v in (source or {}).items()}
    for h, v in sorted((source or {}).items()):
        if v != "hooks":
            rep.notes.append("hook-events-missing: %s is not in the cobra source under test: %s" % (
                h, "worker events come from harness wrappers around the step functions" if v == "wrappers"
                else "black-box comparisons only"))
    return {"traces_validated_against_impl": len(traces), "events_validated": calls, "calls_judged": calls,
            "worker_events_validated": events, "begins_on_a_used_worker": second,
            "calls_with_more_than_one_worker_process": pooled_calls, "distinct_worker_assignments": len(assignments),
            "observed_traces": observed, "event_source": source, "hooks": hook_state, "sampling": sampling,
            "per_action_counts": per, "negative_controls": {},
            "distinct_pre_state_action_pairs": len(pairs),
            "rule": "a case is a distinct (instance, analysis, processes, item lists, delay seed) call really made "
                    "against cobra; every worker event of it is one judged observation"}


def _shorten(t):
    t2 = dict(t)
    t2["calls"] = [dict(c, rows=c["rows"][:4]) for c in t["calls"][:3]]
    return t2


def _replay(rep, wd, payload):
    r = payload["replay"]
    traces, source = drive([(r["hashseed"], [r["trace_spec"]])], wd, timeout=600)
    _downgrade_missing(traces, rep.notes)
    verdicts, cmd = validate(traces, wd, "replay")
    for v in verdicts:
        v2 = dict(v)
        v2["spec"] = "TraceParallel"
        v2["action"] = v["kind"]
        rep.verdict(v2, {"engine": "parallel", "trace_spec": r["trace_spec"], "hashseed": r["hashseed"]})
    rep.coverage["states"] = rep.coverage["transitions"] = 1
    rep.coverage["samples"] = [_shorten(traces[0])]
    return rep.finish({"traces_validated_against_impl": 1, "events_validated": len(traces[0]["calls"])})
