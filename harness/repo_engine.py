"""Traces of the repository's own test suite, validated by TLC (specs/TraceRepo.tla).

`run_stage(prop, rep, wd)` is called by the model engine in the thorough tier of C01 C02 C03 C13: the tests of /repo
(current working tree) run once under harness/repo_trace_plugin.py, every recorded event is judged by TLC, and the
verdicts that concern `prop` go through the usual Report (VIOLATION / KNOWN-FINDING).  The suite's own pass/fail
outcome is not used: a failing test is the repository's business, an invariant that fails on a state the suite
reaches is ours."""
import json
import multiprocessing as mp
import os
import subprocess

from . import common as C

# which test directories feed which property (the stutter events of C13 come from the analyses' tests)
DIRS = {
    "C01": ["tests/test_core", "tests/test_manipulation", "tests/test_util", "tests/test_medium"],
    "C02": ["tests/test_core", "tests/test_manipulation", "tests/test_util", "tests/test_medium"],
    "C03": ["tests/test_core", "tests/test_manipulation", "tests/test_util", "tests/test_medium", "tests/test_flux_analysis"],
    "C13": ["tests/test_flux_analysis", "tests/test_medium", "tests/test_summary", "tests/test_sampling", "tests/test_core/test_model.py"],
}
INV_PROP = {"LPMirrors": "C01", "CrossRefOK": "C02", "ExitRestores": "C03", "ExitRaises": "C03", "Stutter": "C13",
            "StutterContextDepth": "C13"}
KINDS = {"C01": {"mut"}, "C02": {"mut"}, "C03": {"mut", "enter", "exit"}, "C13": {"stutter"}}


def record(prop, wd, tests=None):
    out = os.path.join(wd, "repo_trace" + ("_w" if tests else ""))
    env = dict(os.environ, VERIF_TRACE_OUT=out,
               PYTHONPATH=os.path.join(C.VERIF, "harness") + os.pathsep + os.path.join(C.REPO, "src"))
    env.pop("COBRA_VERIF", None)
    cmd = ["/venv/bin/python", "-m", "pytest", "-q", "-p", "no:cacheprovider", "-p", "repo_trace_plugin", "--timeout=900",
           "-x" if False else "-q", "--deselect", "tests/test_io/test_web/test_load.py", "--benchmark-disable"] + (tests or DIRS[prop])
    p = subprocess.run(cmd, cwd=C.REPO, env=env, stdout=subprocess.PIPE, stderr=subprocess.STDOUT, timeout=3000)
    path = os.path.join(out, "events.json")
    if not os.path.exists(path):
        raise C.Machinery("the test-suite recorder wrote no events: %s" % p.stdout.decode("utf-8", "replace")[-400:])
    with open(path) as fh:
        events = json.load(fh)
    tail = p.stdout.decode("utf-8", "replace").strip().splitlines()[-1:]
    return events, (tail[0] if tail else "")


def _validate_file(args):
    path, wd = args
    cfgp = C.write_cfg(path + ".cfg")
    res = C.run_tlc("TraceRepo", cfgp, wd, workers=2, env={"TRACE_FILE": path}, timeout=3000, heap="4g")
    return {"printed": res["printed"], "distinct": res["distinct"], "cmd": res["cmd"]}


def run_stage(prop, rep, wd, tests=None):
    """tests: only these test ids (the pinned witnesses of open findings, run by the quick tier as well)"""
    events, summary = record(prop, wd, tests)
    errs = [e for e in events if e["k"] == "recorder-error"]
    if len(errs) > len(events) // 20:
        raise C.Machinery("the test-suite recorder failed on %d of %d events: %s" % (len(errs), len(events), errs[0]))
    keep = KINDS[prop]
    by_test, order = {}, []
    for e in events:
        if e["k"] not in keep:
            continue
        t = e.pop("test")
        if t not in by_test:
            by_test[t] = []
            order.append(t)
        by_test[t].append(e)
    traces = [{"tid": i + 1, "test": t, "events": by_test[t]} for i, t in enumerate(order)]
    files, cur, size = [], [], 0
    for t in traces:
        s = len(json.dumps(t))
        if cur and size + s > 8_000_000:
            files.append(cur)
            cur, size = [], 0
        cur.append(t)
        size += s
    if cur:
        files.append(cur)
    jobs = []
    for i, batch in enumerate(files):
        path = os.path.join(wd, "repo_batch%s_%d.json" % ("_w" if tests else "", i))
        with open(path, "w") as fh:
            json.dump(batch, fh)
        jobs.append((path, wd))
    verdicts, distinct, cmd = [], 0, ""
    if jobs:
        with mp.get_context("fork").Pool(min(len(jobs), max(1, C.NCPU // 2))) as pool:
            for r in pool.imap_unordered(_validate_file, jobs):
                verdicts.extend(r["printed"])
                distinct += r["distinct"]
                cmd = r["cmd"]
    n_events = sum(len(t["events"]) for t in traces)
    if distinct != n_events + len(traces):
        raise C.Machinery("TraceRepo consumed %d states, recorded %d events in %d tests" % (distinct, n_events, len(traces)))
    per_action = {}
    for t in traces:
        for e in t["events"]:
            per_action[e["a"]] = per_action.get(e["a"], 0) + 1
    for v in verdicts:
        mine = sorted(i for i in v["invs"] if INV_PROP.get(i) == prop)
        if not mine:
            continue
        t = traces[v["tid"] - 1]
        v2 = dict(v)
        v2.update(spec="TraceRepo", profile="repo-tests", palette="repo", fields=[], invnames=mine, fieldnames=[],
                  inexact=[], inexact_kinds=[], tags=[], op={"a": v["action"]}, fmt="", kind=v.get("kind", ""),
                  expraises="none", obsraises=v.get("raised", "none"))
        ev = dict(t["events"][v["l"] - 1])
        ev.pop("o", None)
        rep.verdict(v2, {"engine": "repo", "test": v["test"], "event": ev,
                         "how": "cd /repo && VERIF_TRACE_OUT=<dir> PYTHONPATH=/verif/harness:/repo/src /venv/bin/python -m pytest "
                                "-p repo_trace_plugin '%s'" % v["test"].split("::teardown")[0]})
    rep.coverage["repo_tests_witness" if tests else "repo_tests"] = {"tests_with_events": len(traces), "events_validated": n_events, "per_action_counts": per_action,
                                  "pytest_summary": summary, "recorder_errors": len(errs), "trace_checker_cmd": cmd,
                                  "dirs": tests or DIRS[prop]}
    return n_events
