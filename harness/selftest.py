"""./check --selftest : demonstrate that the specifications are BOUND to the implementation.

For each engine one correct recorded trace is produced from the real code, validated (must be
accepted without verdicts), then corrupted in one recorded field / one dropped hook event and
validated again (TLC must print a verdict naming the corrupted clause).  Negative-control
configurations must make TLC fail.  Exit 0 iff every expectation is met; exit 2 otherwise
(machinery failure: the checks would be vacuous)."""
import copy
import json
import os

from . import common as C


def _expect(name, ok, detail=""):
    print("%-62s %s %s" % (name, "ok" if ok else "FAILED", detail))
    return bool(ok)


def dictlist_part(wd):
    from . import dictlist_engine as E
    beh = {"start": [{"id": "a", "v": 0}, {"id": "b", "v": 0}, {"id": "c", "v": 0}],
           "ops": [{"op": "insert", "i": -1, "x": {"id": "d", "v": 0}}, {"op": "delitem", "i": -2},
                   {"op": "extend", "xs": [{"id": "b", "v": 1}]}, {"op": "pop", "i": 0}]}
    t = E.Driver(E.PALETTES[0], E.IDS).run(beh, 1, 0)
    ok = True
    v, _ = E.validate([t], 4, wd, "self_ok")
    ok &= _expect("dictlist: recorded trace of the real DictList is accepted", not v, str(v)[:200])
    bad = copy.deepcopy(t)
    bad["events"][2]["post"]["lk"]["a"]["pos"] = 2          # index(a) is 0
    v, _ = E.validate([bad], 4, wd, "self_bad")
    ok &= _expect("dictlist: corrupted index entry is rejected (Coherent / index)",
                  any("Coherent" in x.get("invs", []) or "index" in x.get("fields", []) for x in v))
    bad = copy.deepcopy(t)
    bad["events"][3]["raises"] = "none"                      # extend with a duplicate id must raise
    bad["events"][3]["post"]["items"].append({"id": "b", "v": 1})
    v, _ = E.validate([bad], 4, wd, "self_bad2")
    ok &= _expect("dictlist: a duplicate that is silently appended is rejected", bool(v))
    return ok


def model_part(wd):
    from . import model_engine as E
    from .model_driver import PALETTES, ModelDriver
    f = [x for x in C.load_findings() if x.get("id") == "F38" and x.get("witness_ops")]
    seed = f[0]["witness_ops"][:3] if f else []
    ops = seed + [{"a": "Enter", "s": 1}, {"a": "SetBounds", "s": 1, "r": "r1", "lo": -5, "hi": 5},
                  {"a": "GeneKnockOut", "s": 1, "g": "g1"}, {"a": "Exit", "s": 1},
                  {"a": "Copy", "s": 1, "t": 2, "kind": "copy"}, {"a": "SetUB", "s": 2, "r": "r2", "v": 5}]
    t = ModelDriver(PALETTES[0]).run({"ops": ops}, 1)
    ok = True
    v, _, _ = E.validate([t], wd, "self_ok")
    ok &= _expect("model: recorded trace of the real cobra.Model is accepted", not v, str(v)[:300])
    bad = copy.deepcopy(t)
    bad["events"][4]["obs"][0]["lp"]["cols"]["r1"]["fu"] = 7     # LP column bound differs from the reaction bound
    v, _, _ = E.validate([bad], wd, "self_bad1")
    ok &= _expect("model: corrupted GLPK column bound is rejected (LPMirrors)",
                  any(any(i.endswith("LPMirrors") for i in x["invs"]) for x in v))
    bad = copy.deepcopy(t)
    bad["events"][6]["obs"][0]["lb"]["r1"] = -5                   # exit did not restore the bound
    v, _, _ = E.validate([bad], wd, "self_bad2")
    ok &= _expect("model: an Exit that does not restore a bound is rejected",
                  any(x["action"] == "Exit" and any(f.endswith(":lb") for f in x["fields"]) for x in v))
    bad = copy.deepcopy(t)
    bad["events"][8]["obs"][0]["ub"]["r2"] = 5                    # edit on the copy shows in the original
    v, _, _ = E.validate([bad], wd, "self_bad3")
    ok &= _expect("model: an edit of the copy that changes the original is rejected",
                  any(any(f.startswith("s1:") for f in x["fields"]) for x in v))
    if t["events"][6]["hooks_on"]:
        bad = copy.deepcopy(t)
        bad["events"][6]["hooks"] = [h for h in bad["events"][6]["hooks"] if h["e"] != "ctx.undo"][:]
        v, _, _ = E.validate([bad], wd, "self_bad4")
        ok &= _expect("model: dropped ctx.undo hook events are rejected (ResetRunsAllEntries)",
                      any(any(i.endswith("ResetRunsAllEntries") for i in x["invs"]) for x in v))
        bad = copy.deepcopy(t)
        hs = bad["events"][6]["hooks"]
        hs.insert(3, {"e": "ctx.register", "m": hs[0]["m"], "n": 1})
        v, _, _ = E.validate([bad], wd, "self_bad5")
        ok &= _expect("model: a registration while a context resets is rejected",
                      any(any(i.endswith("NoRecordingWhileResetting") for i in x["invs"]) for x in v))
    else:
        print("model: hook events missing (COBRA_VERIF off or hooks removed): mechanism layer not exercised")
    r = C.run_tlc("UndoLog", os.path.join(C.SPECS, "MC_UndoLog_neg.cfg"), wd, timeout=600, expect_violation=True)
    ok &= _expect("UndoLog: re-recording undo entries violate ExitRestores (negative control)", bool(r["error"]))
    return ok


def main():
    wd = C.workdir("selftest")
    ok = dictlist_part(wd)
    ok &= model_part(wd)
    for name in ("gpr_engine", "flux_engine", "flux2_engine", "parallel_engine", "sampler_engine"):
        try:
            mod = __import__("harness." + name, fromlist=["selftest"])
        except ImportError:
            continue
        if hasattr(mod, "selftest"):
            try:
                ok &= bool(mod.selftest(wd))
            except TypeError:
                ok &= bool(mod.selftest())
    import shutil
    shutil.rmtree(wd, ignore_errors=True)
    print("selftest", "passed" if ok else "FAILED")
    return 0 if ok else 2
