"""Engine `flux` (properties C04 C05 C19 C17): FluxLattice.tla / TraceFlux.tla <-> cobra FBA, FVA,
find_blocked_reactions / fastcc, loopless_solution / add_loopless.

1. design check: TLC evaluates the design theorems of the integer-lattice oracle (strong duality with
   integral duals, range inclusions, loop lemmas, blocked-set scale lemma) on a whole instance family and
   runs the FVA protocol machine (SetCoef -> Optimize -> ClearCoef) against the declarative Range; negative
   controls (Bug constant) must be rejected;
2. behaviours: TLC emits (a) whole instance families with the property's call script and (b) seeded
   pseudo-random larger instances followed by pseudo-random calls and model edits, as JSON;
3. driver: every behaviour is replayed into a REAL cobra.Model (forked workers) under several palettes
   (solver interface, id spellings, ways of passing arguments); every call's result is recorded in 10^-6
   fixed point together with the model read back through the public API and re-read Solution snapshots;
4. TLC validates the recorded events against the lattice oracle (TraceFlux) and prints a verdict line per
   failing clause set, with root-cause tags.
"""
import hashlib
import json
import math
import multiprocessing as mp
import os
import signal
import time
import warnings

from . import common as C

# native thread pools (BLAS under numpy's SVD in add_loopless) must not multiply the forked workers
for _k in ("OMP_NUM_THREADS", "OPENBLAS_NUM_THREADS", "MKL_NUM_THREADS"):
    os.environ.setdefault(_k, "1")

INF = 1000000
SCALE = 1000000
OPS_MODULES = ("FluxLatticeOps", "FluxLattice")

PALETTES = [
    {"name": "glpk-plain", "solver": "glpk", "rid": "R{k}", "mid": "{m}", "objstyle": "dict"},
    {"name": "exact-awkward", "solver": "glpk_exact", "rid": "rx_{inv}_p", "mid": "m_{minv}", "objstyle": "coef"},
    {"name": "glpk-awkward", "solver": "glpk", "rid": "rx_{inv}_p", "mid": "m_{minv}", "objstyle": "coef"},
    {"name": "exact-plain", "solver": "glpk_exact", "rid": "R{k}", "mid": "{m}", "objstyle": "dict"},
]

BASE = {"Prop": "C04", "Mode": "family", "NMets": 2, "NRxns": 2, "BPal": "q6", "OPal": "few", "NWalks": 1,
        "Depth": 0, "Seed": 0, "Emit": True, "Bug": "none", "Canon": False, "Thm": set(), "Topo": "all"}

# per property and tier: design runs, behaviour generators (name, constants, palettes per behaviour)
TIERS = {
    "C04": {
        "quick": {
            "design": [{"NRxns": 3, "BPal": "q4", "OPal": "first", "Canon": True, "Thm": {"dual"}}],
            "gens": [("family2x2", {"NRxns": 2, "BPal": "q6", "OPal": "few"}, 1),
                     ("walk", {"Mode": "walk", "NMets": 3, "NRxns": 5, "BPal": "t8", "NWalks": 500, "Depth": 8}, 2)],
        },
        "thorough": {
            "design": [{"NRxns": 3, "BPal": "q6", "OPal": "unit", "Canon": True, "Thm": {"dual", "range"}}],
            "gens": [("family2x2", {"NRxns": 2, "BPal": "t8", "OPal": "rich"}, 1),
                     ("family2x3", {"NRxns": 3, "BPal": "q6", "OPal": "unit", "Canon": True}, 1),
                     ("walk", {"Mode": "walk", "NMets": 4, "NRxns": 6, "BPal": "i9", "NWalks": 5000, "Depth": 10}, 2)],
        },
    },
    "C05": {
        "quick": {
            "design": [{"Mode": "proto", "NRxns": 3, "BPal": "f3", "OPal": "first", "Canon": True},
                       {"NRxns": 3, "BPal": "f3", "OPal": "first", "Canon": True, "Thm": {"range", "loop"}}],
            "gens": [("family2x3", {"NRxns": 3, "BPal": "f3", "OPal": "first", "Canon": True}, 1),
                     ("cycle2", {"Topo": "cyc2", "NMets": 2, "NRxns": 4, "BPal": "f3", "OPal": "unit"}, 1),
                     ("walk", {"Mode": "walk", "NMets": 3, "NRxns": 6, "BPal": "f7", "NWalks": 300, "Depth": 6}, 2)],
        },
        "thorough": {
            "design": [{"Mode": "proto", "NRxns": 3, "BPal": "f4", "OPal": "unit", "Canon": True},
                       {"NRxns": 3, "BPal": "f7", "OPal": "unit", "Canon": True, "Thm": {"range", "loop"}}],
            "gens": [("family2x3", {"NRxns": 3, "BPal": "f4", "OPal": "unit", "Canon": True}, 1),
                     ("cycle2", {"Topo": "cyc2", "NMets": 2, "NRxns": 4, "BPal": "f7", "OPal": "unit"}, 1),
                     ("cycle3", {"Topo": "cyc3", "NMets": 3, "NRxns": 5, "BPal": "f4", "OPal": "unit"}, 1),
                     ("walk", {"Mode": "walk", "NMets": 4, "NRxns": 6, "BPal": "i9", "NWalks": 5000, "Depth": 8}, 2)],
        },
    },
    "C19": {
        "quick": {
            "design": [{"NRxns": 3, "BPal": "z5", "OPal": "first", "Canon": True, "Thm": {"blocked"}}],
            "gens": [("family2x3", {"NRxns": 3, "BPal": "z3", "OPal": "first", "Canon": True}, 1),
                     ("cycle2", {"Topo": "cyc2", "NMets": 2, "NRxns": 4, "BPal": "z3", "OPal": "first"}, 1),
                     ("walk", {"Mode": "walk", "NMets": 3, "NRxns": 6, "BPal": "z5", "NWalks": 350, "Depth": 6}, 2)],
        },
        "thorough": {
            "design": [{"NRxns": 3, "BPal": "z5", "OPal": "unit", "Canon": True, "Thm": {"blocked"}}],
            "gens": [("family2x3", {"NRxns": 3, "BPal": "z5", "OPal": "unit", "Canon": True}, 1),
                     ("cycle2", {"Topo": "cyc2", "NMets": 2, "NRxns": 4, "BPal": "z5", "OPal": "unit"}, 2),
                     ("cycle3", {"Topo": "cyc3", "NMets": 3, "NRxns": 5, "BPal": "z3", "OPal": "first"}, 2),
                     ("walk", {"Mode": "walk", "NMets": 4, "NRxns": 7, "BPal": "z5", "NWalks": 4000, "Depth": 8}, 2)],
        },
    },
    "C17": {
        "quick": {
            "design": [{"NRxns": 3, "BPal": "f4", "OPal": "first", "Canon": True, "Thm": {"loop"}}],
            "gens": [("cycle2", {"Topo": "cyc2", "NMets": 2, "NRxns": 4, "BPal": "f3", "OPal": "unit"}, 1),
                     ("cycle2pinned", {"Topo": "cyc2", "NMets": 2, "NRxns": 4, "BPal": "p3", "OPal": "unit"}, 1),
                     ("walk", {"Mode": "walk", "NMets": 3, "NRxns": 6, "BPal": "f7", "NWalks": 300, "Depth": 6}, 1)],
        },
        "thorough": {
            "design": [{"NRxns": 3, "BPal": "f7", "OPal": "unit", "Canon": True, "Thm": {"loop"}}],
            "gens": [("cycle2", {"Topo": "cyc2", "NMets": 2, "NRxns": 4, "BPal": "f7", "OPal": "unit"}, 2),
                     ("cycle3", {"Topo": "cyc3", "NMets": 3, "NRxns": 5, "BPal": "f4", "OPal": "unit"}, 1),
                     ("cycle2pinned", {"Topo": "cyc2", "NMets": 2, "NRxns": 4, "BPal": "p5", "OPal": "unit"}, 1),
                     ("cycle3pinned", {"Topo": "cyc3", "NMets": 3, "NRxns": 5, "BPal": "p3", "OPal": "unit"}, 1),
                     ("walk", {"Mode": "walk", "NMets": 4, "NRxns": 6, "BPal": "f7", "NWalks": 5000, "Depth": 8}, 1)],
        },
    },
}


def _consts(over, sd=0):
    d = dict(BASE)
    d.update(over)
    if d["Mode"] == "walk":
        d["Seed"] = sd % 60000
    return d


def _ckey(consts):
    return hashlib.sha256(json.dumps({k: (sorted(v) if isinstance(v, (set, frozenset)) else v)
                                      for k, v in consts.items()}, sort_keys=True).encode()).hexdigest()[:16]


def generate(wd, consts, timeout=1500):
    """TLC-generated behaviours, cached by spec hash + constants."""
    key = C.spec_hash(*OPS_MODULES) + "_" + _ckey(consts)
    cpath = os.path.join(C.CACHE, "flux", key + ".json")
    if os.path.exists(cpath):
        with open(cpath) as fh:
            data = json.load(fh)
        return data["behaviours"], data["stats"]
    cfgp = C.write_cfg(os.path.join(wd, "gen_%s.cfg" % key), consts, constraints=["Constr"])
    res = C.run_tlc("FluxLattice", cfgp, wd, timeout=timeout)
    behs = res["printed"]
    # TLC workers print in a nondeterministic order: fix the order so that the same seed gives the same run
    behs.sort(key=lambda b: json.dumps(b, sort_keys=True))
    stats = {"generated": res["generated"], "distinct": res["distinct"], "cmd": res["cmd"], "wall_s": round(res["wall_s"], 1)}
    os.makedirs(os.path.dirname(cpath), exist_ok=True)
    tmp = cpath + ".tmp%d" % os.getpid()
    with open(tmp, "w") as fh:
        json.dump({"behaviours": behs, "stats": stats}, fh)
    os.replace(tmp, cpath)
    return behs, stats


# ------------------------------------------------------------------ design check
NEG_CONTROLS = {
    "C04": [("opt_ignores_dir", {"Mode": "family", "NRxns": 3, "BPal": "f4", "OPal": "first", "Canon": True, "Thm": {"dual"}}, "InvThm")],
    "C05": [("fva_no_clear", {"Mode": "proto", "NRxns": 3, "BPal": "f4", "OPal": "first", "Canon": True}, "InvFvaProto"),
            ("fva_min_uses_lb", {"Mode": "proto", "NRxns": 3, "BPal": "f4", "OPal": "first", "Canon": True}, "InvFvaProto")],
    "C19": [("scale_lemma_out_of_scope", {"Mode": "family", "NRxns": 3, "BPal": "f4", "OPal": "first", "Canon": True, "Thm": {"blocked"}}, "InvThm")],
    "C17": [("loop_removal_ignores_sign", {"Mode": "family", "NRxns": 3, "BPal": "f4", "OPal": "first", "Canon": True, "Thm": {"loop"}}, "InvThm")],
}


def design_check(prop, tier, wd, rep):
    T = TIERS[prop][tier]
    out = []
    for i, over in enumerate(T["design"]):
        consts = _consts(dict(over, Prop=prop, Emit=False))
        inv = ["InvFvaProto"] if consts["Mode"] == "proto" else ["InvThm"]
        cfgp = C.write_cfg(os.path.join(wd, "design_%d.cfg" % i), consts, invariants=inv, constraints=["Constr"])
        res = C.run_tlc("FluxLattice", cfgp, wd, timeout=1500)
        rep.add_design(res)
        out.append({"constants": {k: (sorted(v) if isinstance(v, set) else v) for k, v in consts.items()},
                    "invariants": inv, "states": res["distinct"], "wall_s": round(res["wall_s"], 1)})
    controls = {}
    negs = NEG_CONTROLS[prop]
    for name, over, inv in (negs if tier == "thorough" or not negs else [negs[C.seed() % len(negs)]]):
        consts = _consts(dict(over, Prop=prop, Emit=False, Bug=name))
        cfgp = C.write_cfg(os.path.join(wd, "neg_%s.cfg" % name), consts, invariants=[inv], constraints=["Constr"])
        r = C.run_tlc("FluxLattice", cfgp, wd, timeout=900, expect_violation=True)
        controls[name] = r["error"]
        if not r["error"]:
            raise C.Machinery("negative control %s was NOT rejected by TLC: the design check is vacuous" % name)
    return out, controls


# ------------------------------------------------------------------ driver (runs in forked workers)
def enc(x):
    """solver number -> fixed point record (ints only, no floats / nulls in the JSON TLC reads)"""
    if x is None:
        return {"k": "none", "i": 0}
    try:
        x = float(x)
    except (TypeError, ValueError):
        return {"k": "none", "i": 0}
    if math.isnan(x):
        return {"k": "nan", "i": 0}
    if x == float("inf"):
        return {"k": "pinf", "i": 0}
    if x == float("-inf"):
        return {"k": "ninf", "i": 0}
    if abs(x) >= 2000:
        return {"k": "big", "i": 0}
    return {"k": "num", "i": int(round(x * SCALE))}


def tok(b):
    """model bound / coefficient read back through the API -> integer token"""
    b = float(b)
    if b == float("inf"):
        return INF
    if b == float("-inf"):
        return -INF
    if b != int(b) or abs(b) >= INF:
        raise C.Machinery("non-integral model datum read back: %r" % (b,))
    return int(b)


def untok(t):
    return float("inf") if t >= INF else float("-inf") if t <= -INF else float(t)


NO_DIGEST = {"status": "none", "obj": {"k": "none", "i": 0}, "fluxes": [], "rc": [], "sp": []}


class Driver:
    def __init__(self, palette, M0):
        import cobra
        self.cobra = cobra
        self.pal = palette
        self.n = len(M0["rxns"])
        self.nm = len(M0["mets"])
        names = M0["mets"]
        self.mids = [palette["mid"].format(m=names[j], minv=chr(ord("z") - j)) for j in range(self.nm)]
        self.rids = [palette["rid"].format(k=k + 1, inv=self.n + 7 - k) for k in range(self.n)]
        model = cobra.Model("lattice")
        model.solver = palette["solver"]
        mets = [cobra.Metabolite(mid, compartment="e") for mid in self.mids]
        rxns = []
        for k in range(self.n):
            r = cobra.Reaction(self.rids[k])
            r.add_metabolites({mets[j]: float(M0["S"][k][j]) for j in range(self.nm) if M0["S"][k][j]})
            r.bounds = (untok(M0["lb"][k]), untok(M0["ub"][k]))
            r.gene_reaction_rule = "g%d" % (k + 1)
            rxns.append(r)
        # metabolites that no reaction uses still are rows of the problem
        model.add_metabolites(mets)
        model.add_reactions(rxns)
        self.model = model
        self.rx = [model.reactions.get_by_id(i) for i in self.rids]
        self.mt = [model.metabolites.get_by_id(i) for i in self.mids]
        if palette["objstyle"] == "dict":
            obj = {self.rx[k]: M0["c"][k] for k in range(self.n) if M0["c"][k]}
            if obj:
                model.objective = obj
        else:
            for k in range(self.n):
                if M0["c"][k]:
                    self.rx[k].objective_coefficient = M0["c"][k]
        model.objective_direction = M0["dir"]
        self.solutions = []

    # ---- projections
    def digest(self, sol):
        return {"status": str(sol.status), "obj": enc(sol.objective_value),
                "fluxes": [enc(sol.fluxes[i]) for i in self.rids],
                "rc": [enc(sol.reduced_costs[i]) for i in self.rids],
                "sp": [enc(sol.shadow_prices[i]) for i in self.mids]}

    def readback(self):
        return {"lb": [tok(r.lower_bound) for r in self.rx], "ub": [tok(r.upper_bound) for r in self.rx],
                "c": [tok(r.objective_coefficient) for r in self.rx], "dir": str(self.model.objective_direction)}

    @staticmethod
    def outcome(fn):
        try:
            return {"raises": "none", "val": enc(fn())}
        except Exception as e:     # the outcome of the accessor under test
            return {"raises": type(e).__name__, "val": enc(None)}

    def other_state(self, fn):
        """history, not judged: fn() runs while the first boundary reaction is closed; the bounds are put back"""
        b = [r for r in self.rx if r.boundary]
        if not b:
            return
        old = b[0].bounds
        try:
            b[0].bounds = (0, 0)
            fn()
        except Exception:
            pass
        finally:
            b[0].bounds = old

    # ---- steps
    def step(self, s):
        m = self.model
        op = s["op"]
        if op == "optimize":
            kw = {}
            if s["sense"] != "none":
                kw["objective_sense"] = s["sense"]
            if s["re"]:
                kw["raise_error"] = True
            try:
                if s.get("ctx"):
                    with m:
                        sol = m.optimize(**kw)
                else:
                    sol = m.optimize(**kw)
            except Exception as e:
                return {"raises": type(e).__name__, "sol": NO_DIGEST}
            self.solutions.append(sol)
            return {"raises": "none", "sol": self.digest(sol)}
        if op == "slim":
            try:
                if s["ev"] == "default":
                    ret = m.slim_optimize()
                elif s["ev"] == "num":
                    ret = m.slim_optimize(error_value=-7.0)
                elif s["ev"] == "zero":
                    ret = m.slim_optimize(error_value=0)
                else:
                    ret = m.slim_optimize(error_value=None)
            except Exception as e:
                return {"raises": type(e).__name__, "ret": enc(None), "status": str(m.solver.status)}
            return {"raises": "none", "ret": enc(ret), "status": str(m.solver.status)}
        if op == "access":
            return {"status": str(m.solver.status),
                    "flux": [self.outcome(lambda r=r: r.flux) for r in self.rx],
                    "rc": [self.outcome(lambda r=r: r.reduced_cost) for r in self.rx],
                    "sp": [self.outcome(lambda x=x: x.shadow_price) for x in self.mt]}
        if op == "setbounds":
            self.rx[s["r"] - 1].bounds = (untok(s["lb"]), untok(s["ub"]))
            return {"raises": "none"}
        if op == "setobj":
            self.rx[s["r"] - 1].objective_coefficient = s["k"]
            return {"raises": "none"}
        if op == "setobjdict":
            d = {}
            if s["k"]:
                d[self.rx[s["r"] - 1]] = s["k"]
            if s["k2"] and s["r2"] != s["r"]:
                d[self.rx[s["r2"] - 1]] = s["k2"]
            self._od = getattr(self, "_od", 0) + 1
            m.objective = d if (d or self._od % 2) else []      # the empty objective as {} or []
            return {"raises": "none"}
        if op == "dblcol":
            r = self.rx[s["r"] - 1]
            for mt, c in list(r.metabolites.items()):
                r.add_metabolites({mt.id: c})          # the key is the identifier (text)
            return {"raises": "none"}
        if op == "addrxn":
            import cobra
            src = self.rx[s["r"] - 1]
            k = self.n
            rid = self.pal["rid"].format(k=k + 1, inv=100 + k)
            r = cobra.Reaction(rid)
            r.add_metabolites({mt: -c for mt, c in src.metabolites.items()})
            r.bounds = (0, untok(s["ub"]))
            r.gene_reaction_rule = "g%d" % (k + 1)
            m.add_reactions([r])
            self.rids.append(rid)
            self.rx.append(m.reactions.get_by_id(rid))
            self.n += 1
            return {"raises": "none"}
        if op == "setdir":
            m.objective_direction = s["dir"]
            return {"raises": "none"}
        if op == "fva":
            from cobra.flux_analysis import flux_variability_analysis
            kw = {"processes": 1, "loopless": bool(s["loopless"]),
                  "fraction_of_optimum": 1.0 if s["num"] == s["den"] else s["num"] / float(s["den"])}
            if s["pf"]:
                kw["pfba_factor"] = s["pf"] / 10.0
            if s.get("pre") == "rebuilt":
                # history (not judged): the cycle reaction leaves the model, the same analysis runs, the reaction comes back
                cr = self.rx[s["cr"] - 1]
                coef = cr.objective_coefficient
                m.remove_reactions([cr])
                try:
                    flux_variability_analysis(m, **kw)
                except Exception:
                    pass
                m.add_reactions([cr])
                if coef:
                    cr.objective_coefficient = coef
                self.rx[s["cr"] - 1] = m.reactions.get_by_id(cr.id)
                self.reordered = True
            try:
                df = flux_variability_analysis(m, reaction_list=self.rlist(s), **kw)
            except Exception as e:
                return {"raises": type(e).__name__, "index": [], "min": [], "max": []}
            return {"raises": "none", "index": [self.pos(i) for i in df.index],
                    "min": [enc(x) for x in df["minimum"]], "max": [enc(x) for x in df["maximum"]]}
        if op == "blocked":
            from cobra.flux_analysis import find_blocked_reactions
            if {r.id for r in m.exchanges} != {r.id for r in m.reactions if r.boundary}:
                raise C.Machinery("palette assumption broken: model.exchanges is not the set of boundary reactions")
            if s.get("pre") == "other":
                self.other_state(lambda: find_blocked_reactions(m, open_exchanges=bool(s["open"]), processes=1))
            if s.get("pre") == "failed":
                try:
                    find_blocked_reactions(m, reaction_list=[self.rids[0], "no_such_reaction"], open_exchanges=True, processes=1)
                except Exception:       # KeyError: the rejected call is the history, not what is judged
                    pass
            try:
                ids = find_blocked_reactions(m, reaction_list=self.rlist(s), open_exchanges=bool(s["open"]), processes=1)
            except Exception as e:
                return {"raises": type(e).__name__, "ids": []}
            return {"raises": "none", "ids": [self.pos(getattr(i, "id", i)) for i in ids]}
        if op == "fastcc":
            from cobra.flux_analysis import fastcc
            if s.get("pre") == "other":
                self.other_state(lambda: fastcc(m))
            try:
                res = fastcc(m)
            except Exception as e:
                return {"raises": type(e).__name__, "kept": []}
            kept = []
            for r in res.reactions:
                row, extra = [0] * self.nm, 0
                for met, coef in r.metabolites.items():
                    if met.id in self.mids and float(coef) == int(coef):
                        row[self.mids.index(met.id)] = int(coef)
                    else:
                        extra += 1
                kept.append({"pos": self.pos(r.id), "S": row, "lb": tok(r.lower_bound), "ub": tok(r.upper_bound),
                             "rule": str(r.gene_reaction_rule), "extra": extra})
            return {"raises": "none", "kept": kept}
        if op == "loopless_solution":
            from cobra.flux_analysis.loopless import loopless_solution
            from cobra.util.solver import fix_objective_as_constraint
            start = []
            try:
                if s.get("pre") == "other":
                    self.other_state(lambda: loopless_solution(m))
                if s["start"] == "none":
                    sol = loopless_solution(m)
                else:
                    if s["start"] == "opt":
                        s0 = m.optimize()
                    else:
                        # another optimal vector of the same model: the optimum is fixed and an auxiliary
                        # objective loads the cycles differently
                        with m:
                            fix_objective_as_constraint(m)
                            m.objective = self.rx[s["ar"] - 1]
                            m.objective_direction = s["ad"]
                            s0 = m.optimize()
                    start = [enc(s0.fluxes[i]) for i in self.rids]
                    # the start vector in the shapes a caller may hold it in: the Series of the solution, the same
                    # Series in another order (sorted by label, reversed), a plain dictionary
                    self._lsn = getattr(self, "_lsn", 0) + 1
                    fl = s0.fluxes
                    how = self._lsn % 4
                    if how == 1:
                        fl = fl.sort_index()
                    elif how == 2:
                        fl = fl.iloc[::-1]
                    elif how == 3:
                        fl = {k: float(v) for k, v in reversed(list(fl.items()))}
                    sol = loopless_solution(m, fluxes=fl)
            except Exception as e:
                return {"raises": type(e).__name__, "start": start, "sol": NO_DIGEST}
            return {"raises": "none", "start": start, "sol": self.digest(sol)}
        if op == "add_loopless":
            from cobra.flux_analysis.loopless import add_loopless
            try:
                with m:
                    add_loopless(m)
                    sol = m.optimize()
                    d = self.digest(sol)
            except Exception as e:
                return {"raises": type(e).__name__, "sol": NO_DIGEST}
            return {"raises": "none", "sol": d}
        if op == "add_loopless_ko":
            from cobra.flux_analysis.loopless import add_loopless
            try:
                with m:
                    r = self.rx[s["r"] - 1]
                    orig = r.bounds
                    r.bounds = (0.0, 0.0)
                    add_loopless(m)
                    r.bounds = orig
                    sol = m.optimize()
                    d = self.digest(sol)
            except Exception as e:
                return {"raises": type(e).__name__, "sol": NO_DIGEST}
            return {"raises": "none", "sol": d}
        raise C.Machinery("unknown step %r" % (op,))

    def pos(self, rid):
        return self.rids.index(rid) + 1 if rid in self.rids else 0

    def rlist(self, s):
        if s["by"] == "none":
            # "all reactions" is the model's own order -- unless a history step has moved a reaction to the end
            return list(self.rx) if getattr(self, "reordered", False) else None
        out = []
        for j, k in enumerate(s["rl"]):
            asobj = s["by"] == "obj" or (s["by"] == "mixed" and j % 2 == 0)
            out.append(self.rx[k - 1] if asobj else self.rids[k - 1])
        return out

    def run(self, beh, tid, prop, mark=None):
        events = []
        for k, s in enumerate(beh["steps"]):
            if mark is not None:
                mark(k)
            nsol = len(self.solutions)
            obs = self.step(s)
            snaps = [self.digest(x) for x in self.solutions[:nsol]]
            events.append({"step": s, "obs": obs, "model": self.readback(), "snaps": snaps})
        return {"tid": tid, "prop": prop, "M0": beh["M0"], "events": events}


class _Timeout(Exception):
    pass


def _alarm(signum, frame):
    raise _Timeout()


def _drive_slice(items, path):
    """Worker: drive the items one after the other; every trace is appended to `path` as one JSON line,
    preceded by a marker line naming the behaviour in flight (so that the parent knows which one was
    running if native code kills this process)."""
    warnings.simplefilter("ignore")
    import logging
    logging.disable(logging.CRITICAL)
    signal.signal(signal.SIGALRM, _alarm)
    with open(path, "a") as fh:
        for tid, pal, beh, prop in items:
            def mark(k, tid=tid):
                fh.write(json.dumps({"start": tid, "step": k}) + "\n")
                fh.flush()
            mark(-1)
            signal.alarm(120)
            try:
                tr = Driver(pal, beh["M0"]).run(beh, tid, prop, mark)
            except _Timeout:
                fh.write(json.dumps({"timeout": tid}) + "\n")
                fh.flush()
                os._exit(3)
            finally:
                signal.alarm(0)
            fh.write(json.dumps(tr) + "\n")
            fh.flush()
    os._exit(0)


def _drive_chunk(items):
    """In-process variant (profiling)."""
    warnings.simplefilter("ignore")
    return [Driver(pal, beh["M0"]).run(beh, tid, prop) for tid, pal, beh, prop in items]


def crash_traces(crashed, wd):
    """A behaviour whose call killed the worker: the steps before the fatal one are driven again (fresh
    process) and the fatal call is appended as an event with the outcome `crash`, so that TLC judges it
    like any other outcome (a violation when the call was in scope).  Returns (traces, unplaceable)."""
    out, bad = [], []
    for it, code, k in crashed:
        tid, pal, beh, prop = it
        if k < 0:
            bad.append((it, code))
            continue
        prefix = dict(beh, steps=beh["steps"][:k])
        tr, cr = drive_all([(tid, pal, prefix, prop)], nproc=1, wd=wd) if k > 0 else ([{"tid": tid, "prop": prop, "M0": beh["M0"], "events": []}], [])
        if cr or not tr:
            bad.append((it, code))
            continue
        t = tr[0]
        if t["events"]:
            prev = t["events"][-1]
            model = prev["model"]
            snaps = list(prev["snaps"])
            if prev["step"]["op"] == "optimize" and prev["obs"]["raises"] == "none":
                snaps.append(prev["obs"]["sol"])
        else:
            model = {k2: beh["M0"][k2] for k2 in ("lb", "ub", "c", "dir")}
            snaps = []
        obs = {"raises": "crash", "sol": NO_DIGEST, "ret": enc(None), "status": "crash", "index": [], "min": [], "max": [],
               "ids": [], "kept": [], "start": [], "flux": [], "rc": [], "sp": [], "exitcode": -code if code and code < 0 else (code or 0)}
        t["events"].append({"step": beh["steps"][k], "obs": obs, "model": model, "snaps": snaps})
        out.append(t)
    return out, bad


def drive_all(items, nproc=None, wd=None):
    """items: (tid, palette, behaviour, prop).  Forked workers, one static slice of the items each.  A worker
    killed by native code (GLPK aborts the process on some inputs) or stuck loses only the behaviour in
    flight: that one is reported as crashed and a fresh worker resumes the slice after it."""
    nproc = max(1, min(nproc or C.NCPU, len(items)))
    wd = wd or C.workdir("flux_drive_%d" % os.getpid())
    ctx = mp.get_context("fork")
    slices = [items[w::nproc] for w in range(nproc)]
    traces, crashed = [], []
    gen = 0
    while any(slices):
        gen += 1
        procs = []
        for w, sl in enumerate(slices):
            if not sl:
                continue
            path = os.path.join(wd, "drive_%d_%d_%d.jsonl" % (os.getpid(), gen, w))
            p = ctx.Process(target=_drive_slice, args=(sl, path))
            p.start()
            procs.append((w, p, path))
        for w, p, path in procs:
            p.join()
            done, inflight, instep = set(), None, -1
            if os.path.exists(path):
                with open(path) as fh:
                    for line in fh:
                        try:
                            rec = json.loads(line)
                        except ValueError:      # a line cut short by the abort
                            continue
                        if "start" in rec:
                            inflight = rec["start"]
                            instep = rec["step"]
                        elif "timeout" in rec:
                            pass
                        else:
                            traces.append(rec)
                            done.add(rec["tid"])
                            inflight = None
                os.unlink(path)
            rest = [it for it in slices[w] if it[0] not in done]
            if p.exitcode == 3:
                raise C.Machinery("driver timed out (120 s) on behaviour %s" %
                                  json.dumps([it[2] for it in rest if it[0] == inflight])[:500])
            if p.exitcode == 0 and not rest:
                slices[w] = []
                continue
            if inflight is None and rest:
                inflight, instep = rest[0][0], -1        # died before announcing anything
            crashed.extend([(it, p.exitcode, instep) for it in rest if it[0] == inflight])
            slices[w] = [it for it in rest if it[0] != inflight]
    traces.sort(key=lambda t: t["tid"])
    return traces, crashed


# ------------------------------------------------------------------ validation
def _validate_file(args):
    path, wd = args
    cfgp = C.write_cfg(path + ".cfg", {}, {})
    res = C.run_tlc("TraceFlux", cfgp, wd, workers=2, env={"TRACE_FILE": path}, timeout=3000, heap="3g")
    return {"printed": res["printed"], "distinct": res["distinct"], "generated": res["generated"], "cmd": res["cmd"]}


def validate(traces, wd, tag, max_events=6000):
    files, cur, n = [], [], 0
    for t in traces:
        cur.append(t)
        n += len(t["events"])
        if n >= max_events:
            files.append(cur)
            cur, n = [], 0
    if cur:
        files.append(cur)
    jobs = []
    for i, batch in enumerate(files):
        path = os.path.join(wd, "batch_%s_%d.json" % (tag, i))
        with open(path, "w") as fh:
            json.dump(batch, fh)
        jobs.append((path, wd))
    verdicts, distinct, cmd = [], 0, ""
    if jobs:
        with mp.get_context("fork").Pool(min(len(jobs), max(1, C.NCPU // 2))) as pool:
            for r in pool.imap_unordered(_validate_file, jobs):
                verdicts.extend(r["printed"])
                distinct += r["distinct"]
                cmd = r["cmd"]
    expected = sum(len(t["events"]) + 1 for t in traces)
    if distinct != expected:
        raise C.Machinery("trace validation consumed %d states, expected %d (%s)" % (distinct, expected, tag))
    return verdicts, cmd


# ------------------------------------------------------------------ run
CERT_CLAUSES = {"dual_certificate", "in_bounds", "steady_state", "objective_is_c_dot_v",
                "accessor_dual_certificate", "accessor_in_bounds", "accessor_steady_state"}

REQUIRED_OPS = {
    "C04": ["optimize", "slim", "access", "setbounds", "setobj", "setdir"],
    "C05": ["fva"],
    "C19": ["blocked", "fastcc"],
    "C17": ["loopless_solution", "add_loopless", "add_loopless_ko"],
}


def _palettes_for(bi, k, beh):
    # optlang's glpk_exact interface refuses integer variables: add_loopless needs the MILP-capable interface
    pals = [p for p in PALETTES if p["solver"] == "glpk"] if any(s["op"].startswith("add_loopless") for s in beh["steps"]) else PALETTES
    return [pals[(bi + j) % len(pals)] for j in range(k)]


def run(prop, tier, replay=None):
    if prop not in TIERS:
        raise C.Machinery("flux engine: property %s is not built yet" % prop)
    rep = C.Report(prop, tier)
    wd = C.workdir("flux_%s_%s_%d" % (prop, tier, os.getpid()))     # concurrent runs of the same check do not collide
    rep.cleanup.append(wd)
    if replay is not None:
        return _replay(rep, wd, replay)
    sd = C.seed()
    T = TIERS[prop][tier]
    phases = {}
    t0 = time.time()
    design, controls = design_check(prop, tier, wd, rep)
    phases["design_and_negative_controls"] = round(time.time() - t0, 1)
    total_traces = total_events = 0
    per_action, samples, cases = {}, [], set()
    undecided = ncrash = 0
    und_why = {}
    gen_cov = {}
    for name, over, npal in list(T["gens"]) + [("witnesses", None, 1)]:
        if over is None:
            # the pinned, seed-independent witness behaviour of every open finding of this property
            behs = [{"M0": f["witness"]["M0"], "steps": f["witness"]["steps"], "walk": 0, "finding": f["id"],
                     "palette": f["witness"].get("palette", "glpk-plain")}
                    for f in rep.findings if f.get("status") == "open" and prop in f.get("properties", [])
                    and isinstance(f.get("witness"), dict) and "M0" in f["witness"] and "steps" in f["witness"]]
            consts, stats = {"Mode": "witnesses"}, {"distinct": 0}
        else:
            consts = _consts(dict(over, Prop=prop), sd)
            t0 = time.time()
            behs, stats = generate(wd, consts)
            phases["generate_" + name] = round(time.time() - t0, 1)
        items, meta = [], {}
        tid = 0
        for bi, beh in enumerate(behs):
            for pal in ([p for p in PALETTES if p["name"] == beh["palette"]] if "palette" in beh
                        else _palettes_for(bi + sd, npal, beh)):
                tid += 1
                items.append((tid, pal, beh, prop))
                meta[tid] = (pal["name"], bi)
        t0 = time.time()
        traces, crashed = drive_all(items, wd=wd)
        phases["drive_" + name] = round(time.time() - t0, 1)
        ctr, bad = crash_traces(crashed, wd)
        traces = sorted(traces + ctr, key=lambda t: t["tid"])
        ncrash += len(crashed)
        for it, code in bad:
            # died outside a step (model construction): nothing TLC could judge; the engine reports it
            rep.verdict({"verdict": "MISMATCH", "spec": "TraceFlux", "action": "crash", "clauses": ["worker_crashed"],
                         "tags": ["solver_" + it[1]["solver"]], "exitcode": code, "tid": it[0], "palette": it[1]["name"]},
                        {"engine": "flux", "palette": it[1]["name"], "behaviour": it[2]})
        t0 = time.time()
        verdicts, cmd = validate(traces, wd, name)
        phases["validate_" + name] = round(time.time() - t0, 1)
        by_tid = {t["tid"]: t for t in traces}
        for v in verdicts:
            if v.get("verdict") == "UNDECIDED":
                undecided += 1
                und_why[v.get("why", "?")] = und_why.get(v.get("why", "?"), 0) + 1
                continue
            pal, bi = meta[v["tid"]]
            cl = set(v.get("clauses", []))
            if cl & {"true_optimum", "accessor_true_optimum"} and not cl & CERT_CLAUSES:
                # the implementation's value is certified optimal by its own feasible primal/dual pair:
                # then the lattice oracle is what is wrong -- a machinery failure, not a violation
                raise C.Machinery("oracle self-test: lattice optimum disagrees with a dual-certified optimum: %s / %s"
                                  % (json.dumps(v)[:300], json.dumps(behs[bi])[:400]))
            v2 = dict(v)
            v2["spec"] = "TraceFlux"
            v2["action"] = v["op"]
            v2["palette"] = pal
            rep.verdict(v2, {"engine": "flux", "palette": pal, "behaviour": behs[bi], "trace": by_tid[v["tid"]]})
        total_traces += len(traces)
        for t in traces:
            total_events += len(t["events"])
            for e in t["events"]:
                k = e["step"]["op"]
                per_action[k] = per_action.get(k, 0) + 1
        for bi, beh in enumerate(behs):
            m = json.dumps(beh["M0"], sort_keys=True)
            cur = m
            for s in beh["steps"]:
                cases.add(hash((cur, json.dumps(s, sort_keys=True))))
                if s["op"] in ("setbounds", "setobj", "setdir", "setobjdict", "addrxn", "dblcol"):
                    cur = cur + json.dumps(s, sort_keys=True)
        if traces:
            samples.append(traces[(len(traces) // 2 + sd) % len(traces)])
        gen_cov[name] = {"behaviours": len(behs), "tlc_states": stats["distinct"], "palettes_per_behaviour": npal,
                         "constants": {k: (sorted(v) if isinstance(v, set) else v) for k, v in consts.items()}}
        rep.coverage["trace_checker_cmd"] = cmd
    missing = [k for k in REQUIRED_OPS[prop] if not per_action.get(k)]
    if missing:
        raise C.Machinery("vacuity: actions never exercised: %s" % missing)
    rep.coverage["samples"] = samples
    rep.coverage["exhaustive"] = True
    rep.coverage["behaviour_generation"] = gen_cov
    rep.coverage["design_runs"] = design
    rep.coverage["phase_wall_s"] = phases
    rep.assumptions = ASSUMPTIONS[prop]
    return rep.finish({
        "traces_validated_against_impl": total_traces, "events_validated": total_events,
        "per_action_counts": per_action, "negative_controls": controls,
        "undecided_events": undecided, "undecided_by_reason": und_why, "calls_that_killed_the_worker": ncrash,
        "distinct_pre_state_action_pairs": len(cases),
        "rule": "a case is a distinct (instance incl. the edits applied so far, call with its arguments) pair; "
                "palettes (solver interface, id spelling) multiply the traces, not the cases",
    })


ASSUMPTIONS = {
    "C04": [
        "exhaustive within the stated families (every shape x bound-pair assignment x objective palette x direction); "
        "the pseudo-random larger instances and edit histories are samples",
        "the lattice optimum is the LP optimum on unit-network instances (total unimodularity); TLC re-derives this on "
        "the design family by exhibiting an integral dual certificate for every optimum (ThmDual)",
        "solver outputs are compared in 10^-6 fixed point (tolerance 1e-6 absolute, plus 1/2 unit of rounding per term of a sum)",
        "reaction.flux / reduced_cost / metabolite.shadow_price are read directly after a solve",
    ],
    "C05": [
        "exhaustive within the stated families; pseudo-random larger instances and edit histories are samples; processes=1 "
        "(process counts are the parallel engine's subject)",
        "ranges are compared with the lattice range only where the objective restriction is bound-type or a face "
        "(Decidable): fraction 1, fraction 0 / 1/2 with a single-reaction objective and integral bound, or a vacuous restriction; "
        "otherwise the two-sided bracket lattice range <= reported <= plain range is checked and the event is counted undecided",
        "loopless ranges are judged only when a loop-free vector attains the required objective; pfba_factor exactly when the cap is "
        "vacuous or factor = 1 (argmin face), otherwise by the bracket",
        "requests with an unbounded range are not judged (no number can be the true extreme)",
    ],
    "C19": [
        "exhaustive within the stated families; pseudo-random larger instances are samples",
        "judged on models whose bound intervals all contain 0 and are finite (InScope_C19); every metabolite lives in the "
        "external compartment so that model.exchanges is exactly the set of boundary reactions (asserted by the driver)",
        "open_exchanges is represented inside the lattice box by the scale lemma (ThmBlocked, checked by TLC on the design family)",
    ],
    "C17": [
        "exhaustive within the stated cycle families; pseudo-random larger instances are samples",
        "start vectors are optimal solutions of the same model (the documented precondition), obtained by optimising auxiliary "
        "objectives over the optimal face; a start vector that is not optimal and feasible is not judged",
        "irreducibility is decided when the returned vector is integral (unit step on the lattice)",
    ],
}


def _replay(rep, wd, payload):
    r = payload["replay"]
    pal = [p for p in PALETTES if p["name"] == r["palette"]][0]
    traces, crashed = drive_all([(1, pal, r["behaviour"], rep.prop)], nproc=1, wd=wd)
    if crashed:
        traces, bad = crash_traces(crashed, wd)
        if bad:
            rep.verdict({"verdict": "MISMATCH", "spec": "TraceFlux", "action": "crash", "clauses": ["worker_crashed"],
                         "tags": ["solver_" + pal["solver"]], "exitcode": crashed[0][1], "tid": 1, "palette": pal["name"]},
                        {"engine": "flux", "palette": pal["name"], "behaviour": r["behaviour"]})
            return rep.finish({"traces_validated_against_impl": 0, "events_validated": 0})
    verdicts, cmd = validate(traces, wd, "replay")
    for v in verdicts:
        if v.get("verdict") == "UNDECIDED":
            continue
        v2 = dict(v)
        v2["spec"] = "TraceFlux"
        v2["action"] = v["op"]
        v2["palette"] = pal["name"]
        rep.verdict(v2, {"engine": "flux", "palette": pal["name"], "behaviour": r["behaviour"], "trace": traces[0]})
    rep.coverage["states"] = rep.coverage["transitions"] = 1
    rep.coverage["samples"] = traces[:1]
    return rep.finish({"traces_validated_against_impl": 1, "events_validated": len(traces[0]["events"])})
