"""Engine `gpr` (property C08): GPROps.tla / GPR.tla / TraceGPR.tla <-> cobra.core.gene.GPR,
cobra.manipulation.delete.remove_genes, Reaction.__getstate__/__setstate__.

1. design check: TLC checks the theorems of GPROps (Eval monotone, removal = restriction,
   removal composes, Parse o Print = id, every spelling parses to the same function) on ALL
   trees of the bound and on every reachable gene-removal state; negative controls
   (Bug constant) must be rejected;
2. cases: TLC emits, for every tree (exhaustive) and for seeded pseudo-random larger trees,
   the token sequences of its spellings, partner rules for ==, and the (knock-out set,
   remove_reactions) pairs -- as JSON;
3. driver: tokens -> text under an identifier palette (bijection onto awkward ids) with seeded
   white space; the text goes through the REAL GPR.from_string / eval / genes / to_string /
   str / copy / pickle / Reaction pickle / as_symbolic->from_symbolic / == / remove_genes and
   everything observed is recorded (ids mapped back to abstract genes, text re-tokenised);
4. TLC validates the recorded traces (TraceGPR): every expected truth table / gene set is
   computed by TLC from the tree, every returned text is parsed by TLC.
Python decides nothing: it renders, calls, records.
"""
import copy
import hashlib
import json
import logging
import multiprocessing as mp
import os
import pickle
import random
import re
import warnings
from concurrent.futures import ThreadPoolExecutor

from . import common as C

GENES = ["g1", "g2", "g3", "g4"]

# every palette is a bijection abstract gene -> identifier made only of the characters the
# property lists: letters, digits, leading digits, Python keywords, dots, dashes, colons,
# slashes, quotes, equals signs
PALETTES = [
    {"name": "plain", "ids": ["b0001", "b0002", "G3", "gene4"]},
    {"name": "digit-keyword-dot-dash", "ids": ["2x", "for", "a.b", "c-d"]},
    {"name": "colon-slash-quote-equals", "ids": ["e:f", "g/h", "i'j", "k=l"]},
    {"name": "keywords", "ids": ["None", "in", "lambda", "True"]},
    {"name": "dquote-mixed", "ids": ['m"n', "1.2-3", "if.else:9", "is"]},
    {"name": "operator-substrings", "ids": ["ORF1", "android", "XOR", "band"]},
    {"name": "numbers", "ids": ["1", "007", "3e5", "0x1F"]},
    {"name": "edge-specials", "ids": ["-a", "b.", ":c", "'d'"]},
    {"name": "keyword-combos", "ids": ["not-x", "x.not", "2for", "class=1/2"]},
    {"name": "backslash", "ids": ["a\\b", "x/y\\z", "p.q", "9-1"]},
    # every Python keyword (and soft keyword) as a whole identifier -- `and` / `or` are the operators
    {"name": "kw-class-else-return-as", "ids": ["class", "else", "return", "as"]},
    {"name": "kw-pass-assert-break-continue", "ids": ["pass", "assert", "break", "continue"]},
    {"name": "kw-def-del-elif-except", "ids": ["def", "del", "elif", "except"]},
    {"name": "kw-finally-from-global-import", "ids": ["finally", "from", "global", "import"]},
    {"name": "kw-nonlocal-not-raise-try", "ids": ["nonlocal", "not", "raise", "try"]},
    {"name": "kw-while-with-yield-False", "ids": ["while", "with", "yield", "False"]},
    {"name": "kw-async-await-is-if", "ids": ["async", "await", "is", "if"]},
    {"name": "kw-soft-match-case-type-underscore", "ids": ["match", "case", "type", "_"]},
]

TIERS = {
    "quick": {
        "design": [{"Mode": "full", "D": 2, "W": 2, "ng": 3, "Steps": True}],
        "controls": ["rm_hoist_first", "rm_and_keeps_survivors", "print_no_inner_parens",
                     "spell_mix_unparenthesised"],
        "full": {"D": 2, "W": 2, "ng": 3, "palettes": 1, "style_stride": 2},
        "sample": {"D": 3, "W": 3, "ng": 4, "NSamples": 500, "NSpell": 2, "palettes": 1},
    },
    "thorough": {
        "design": [{"Mode": "full", "D": 2, "W": 2, "ng": 3, "Steps": True},
                   {"Mode": "full", "D": 2, "W": 3, "ng": 3, "Steps": False}],
        "controls": ["rm_hoist_first", "rm_and_keeps_survivors", "print_no_inner_parens",
                     "spell_mix_unparenthesised"],
        "full": {"D": 2, "W": 2, "ng": 3, "palettes": 3},
        "sample": {"D": 3, "W": 3, "ng": 4, "NSamples": 10000, "NSpell": 3, "palettes": 1},
    },
}

# the token parser / printer of GPROps are recursive: a 27-operand `&` chain prints as 27 nested parentheses, and
# TLC's interpreter needs a few hundred Java frames per TLA+ level -- the default 1 MB thread stack overflows
# (non-deterministically, depending on the JIT) on the larger sampled trees
JVM_ENV = {"JAVA_TOOL_OPTIONS": "-Xss64m"}
JVM_ENV_TRACE = {"JAVA_TOOL_OPTIONS": "-Xss64m -XX:ParallelGCThreads=2 -XX:CICompilerCount=2"}

DERIVED = ["roundtrip", "copy", "copy2", "pickle", "rpickle", "symbolic", "setter"]
PRE_TOUCH = ["symbolic", "eq", "eval", "text", "genes"]
RM_DERIVED = ["symbolic", "copy", "roundtrip", "pickle", "modelcopy"]
KO_FORMS = ["set", "frozenset", "list", "tuple", "dictlist"]
ABSENT = {"k": "none", "id": "", "ch": []}


# ------------------------------------------------------------------ TLC side
def _consts(mode, p, sd, emit, bug="none", steps=False):
    return ({"Bug": bug, "Mode": mode, "D": p["D"], "W": p["W"], "NSamples": p.get("NSamples", 1),
             "Seed": sd % 60000, "NSpell": p.get("NSpell", 1), "Steps": steps, "Emit": emit},
            {"GeneSeq": "GeneSeq%d" % p["ng"]})


def design_check(wd, rep, tier):
    T = TIERS[tier]
    runs = []
    for i, d in enumerate(T["design"]):
        consts, subst = _consts(d["Mode"], d, 0, emit=False, steps=d["Steps"])
        cfgp = C.write_cfg(os.path.join(wd, "design_%d.cfg" % i), consts, subst,
                           invariants=["InvTheorems", "InvRemoved"], constraints=["Constr"])
        res = C.run_tlc("GPR", cfgp, wd, timeout=2400 if tier == "thorough" else 300, env=JVM_ENV)
        rep.add_design(res)
        runs.append({"constants": {k: v for k, v in consts.items()}, "genes": d["ng"],
                     "states": res["distinct"], "transitions": res["generated"], "wall_s": round(res["wall_s"], 1)})

    def control(b):
        consts, subst = _consts("full", {"D": 2, "W": 2, "ng": 3}, 0, emit=False, bug=b, steps=True)
        cfgp = C.write_cfg(os.path.join(wd, "neg_%s.cfg" % b), consts, subst,
                           invariants=["InvTheorems", "InvRemoved"], constraints=["Constr"])
        r = C.run_tlc("GPR", cfgp, wd, workers=4, timeout=300, expect_violation=True, heap="2g", env=JVM_ENV)
        return b, r["error"]

    controls = {}
    with ThreadPoolExecutor(4) as ex:
        for b, err in ex.map(control, T["controls"]):
            controls[b] = err
            if not err:
                raise C.Machinery("negative control %s was NOT rejected by TLC: the design check is vacuous" % b)
    return runs, controls


def generate(wd, mode, p, sd):
    consts, subst = _consts(mode, p, sd if mode == "sample" else 0, emit=True)
    key = C.spec_hash("GPROps", "GPR") + "_" + hashlib.sha256(
        json.dumps([mode, consts, subst], sort_keys=True).encode()).hexdigest()[:16]
    cpath = os.path.join(C.CACHE, "gpr", key + ".json")
    if os.path.exists(cpath):
        with open(cpath) as fh:
            data = json.load(fh)
        return data["cases"], data["stats"]
    cfgp = C.write_cfg(os.path.join(wd, "gen_%s.cfg" % mode), consts, subst, constraints=["Constr"])
    res = C.run_tlc("GPR", cfgp, wd, timeout=1800, env=JVM_ENV)
    cases = res["printed"]
    # TLC's workers print in any order: fix the order so that a run depends on (spec, seed) only
    cases.sort(key=lambda c: (c["walk"], json.dumps(c["tree"], sort_keys=True)))
    stats = {"generated": res["generated"], "distinct": res["distinct"], "cmd": res["cmd"],
             "wall_s": round(res["wall_s"], 1)}
    os.makedirs(os.path.dirname(cpath), exist_ok=True)
    tmp = cpath + ".tmp%d" % os.getpid()
    with open(tmp, "w") as fh:
        json.dump({"cases": cases, "stats": stats}, fh)
    os.replace(tmp, cpath)
    return cases, stats


# ------------------------------------------------------------------ driver (runs in forked workers)
PUNCT = {"(", ")", "&", "|"}
_LEX = re.compile(r"[()]|[^\s()]+")


def render(toks, conc, rnd):
    """Token sequence -> text: identifiers from the palette, seeded white space.  Two adjacent
    word tokens need white space between them; next to ( ) & | it is optional."""
    out = [rnd.choice(["", "", " ", "\t "])]
    prev = None
    for tk in toks:
        if prev is not None:
            if prev in PUNCT or tk in PUNCT:
                out.append(rnd.choice(["", " ", " ", "  ", "\t"]))
            else:
                out.append(rnd.choice([" ", " ", "  ", "\t", " \t "]))
        out.append(conc.get(tk, tk))
        prev = tk
    out.append(rnd.choice(["", "", " ", " \t"]))
    return "".join(out)


class Driver:
    def __init__(self, palette, ng, all_pairs=True):
        self.all_pairs = all_pairs
        import cobra  # noqa: F401  (the real library, from /repo through the editable install)
        self.genes = GENES[:ng]
        self.conc = {g: palette["ids"][i] for i, g in enumerate(self.genes)}
        self.inv = {v: k for k, v in self.conc.items()}
        if len(self.inv) != len(self.conc):
            raise C.Machinery("palette %s is not a bijection" % palette["name"])
        self.ng = ng

    # ---- projection helpers
    def lex(self, text):
        out = []
        for tk in _LEX.findall(text):
            if tk in ("(", ")", "and", "or", "AND", "OR", "&", "|"):
                out.append(tk)
            else:
                out.append(self.inv.get(tk, "?" + tk))
        return out

    def absgenes(self, ids):
        return sorted(self.inv.get(i, "?" + str(i)) for i in ids)

    def kset(self, mask, form):
        from cobra import Gene
        from cobra.core.dictlist import DictList
        ids = [self.conc[g] for i, g in enumerate(self.genes) if (mask >> i) & 1]
        if form == "set":
            return set(ids)
        if form == "frozenset":
            return frozenset(ids)
        if form == "list":
            return list(ids)
        if form == "tuple":
            return tuple(ids)
        return DictList(Gene(i) for i in ids)

    def table(self, g, form):
        return [bool(g.eval(self.kset(m, form))) for m in range(2 ** self.ng)]

    @staticmethod
    def obs(**kw):
        o = {"raises": "none", "tt": [], "genes": [], "toks": [], "toks2": [], "eq": "na", "eq2": "na",
             "present": True, "pre": [], "dhow": [], "dtt": [], "dgenes": [], "deq": []}
        o.update(kw)
        return o

    @staticmethod
    def ev(kind, obs, how="", tree2=None, toks2=(), K=(), rr=False):
        return {"kind": kind, "how": how, "tree2": tree2 or ABSENT, "toks2": list(toks2), "K": list(K), "rr": rr,
                "obs": obs}

    @staticmethod
    def tf(b):
        return "T" if b is True else ("F" if b is False else "?" + repr(b))

    # ---- one case
    def run(self, case, j, tid, sd):
        from cobra.core.gene import GPR
        rnd = random.Random(sd * 1000003 + tid * 7919 + j)
        toks = case["spells"][j]["toks"]
        text = render(toks, self.conc, rnd)
        var = rnd.randrange(1 << 16)        # seeded choice among equivalent call forms
        form = KO_FORMS[var % len(KO_FORMS)]
        events = []
        g = None
        try:
            g = GPR.from_string(text)
            o = self.obs(tt=self.table(g, form), genes=self.absgenes(g.genes), toks=self.lex(g.to_string()),
                         toks2=self.lex(str(g)))
        except Exception as e:      # the outcome of the call under test
            o = self.obs(raises=type(e).__name__)
        events.append(self.ev("parse", o, how=form))
        if g is not None and o["raises"] == "none":
            for how in DERIVED:
                events.append(self.ev("derived", self.derived(g, text, how, var + len(events)), how=how))
            # == partners: on every second spelling of a tree in the quick tier (the partners belong to the tree)
            for p in (case["pairs"] if self.all_pairs or tid % 2 == 0 else []):
                try:
                    h = GPR.from_string(render(p["toks"], self.conc, rnd))
                    # one direction per pair (alternating); the other stays "na"
                    o = self.obs(eq=self.tf(g == h)) if (var + len(events)) % 2 else self.obs(eq2=self.tf(h == g))
                except Exception as e:
                    o = self.obs(raises=type(e).__name__)
                events.append(self.ev("eqpair", o, tree2=p["tree"], toks2=p["toks"]))
        for k, rm in enumerate(case["rms"]):
            events.append(self.ev("remove", self.remove(text, rm["K"], rm["rr"], var + k), K=rm["K"], rr=rm["rr"],
                                  how=["ids", "genes", "geneset"][(var + k) % 3]))
        return {"tid": tid, "tree": case["tree"], "toks": toks, "text": text, "events": events}

    def derived(self, g, text, how, variant):
        from cobra import Reaction
        from cobra.core.gene import GPR
        try:
            toks = None
            if how == "roundtrip":
                d = GPR.from_string(g.to_string() if variant % 2 else str(g))
            elif how == "copy":
                d = g.copy()
            elif how == "copy2":
                d = copy.copy(g) if variant % 2 else copy.deepcopy(g)
            elif how == "pickle":
                d = pickle.loads(pickle.dumps(g, protocol=2 + variant % 4))
            elif how == "rpickle":      # Reaction.__getstate__ stores the rule as text
                r = Reaction("R1")
                r.gene_reaction_rule = text
                r2 = pickle.loads(pickle.dumps(r, protocol=2 + variant % 4))
                d = r2.gpr
                toks = self.lex(r2.gene_reaction_rule)
            elif how == "symbolic":
                d = GPR.from_symbolic(g.as_symbolic())
            elif how == "setter":
                r = Reaction("R1")
                if variant % 2:
                    r.gene_reaction_rule = text
                else:
                    r.gpr = GPR.from_string(text)
                d = r.gpr
                toks = self.lex(r.gene_reaction_rule)
            else:
                raise C.Machinery("unknown derivation %r" % how)
            return self.obs(tt=self.table(d, "set"), genes=self.absgenes(d.genes),
                            toks=toks if toks is not None else self.lex(d.to_string()), toks2=self.lex(str(d)),
                            **({"eq": self.tf(d == g)} if variant % 2 else {"eq2": self.tf(g == d)}))
        except C.Machinery:
            raise
        except Exception as e:
            return self.obs(raises=type(e).__name__)

    def remove(self, text, K, rr, variant):
        import cobra
        from cobra.core.gene import GPR
        from cobra.manipulation.delete import remove_genes
        try:        # building the model is not the call under test
            m = cobra.Model("m")
            r = cobra.Reaction("R1")
            r2 = cobra.Reaction("R2")
            m.add_reactions([r, r2])
            r.gene_reaction_rule = text
            r2.gene_reaction_rule = " or ".join(self.conc[x] for x in self.genes)   # every gene is in the model
            ids = [self.conc[x] for x in K]
            if not all(m.genes.has_id(i) for i in ids):
                return self.obs(raises="setup:gene-missing")
            if variant % 3 == 0:
                arg = ids
            elif variant % 3 == 1:
                arg = [m.genes.get_by_id(i) for i in ids]
            else:
                arg = {m.genes.get_by_id(i) for i in ids}
        except Exception as e:
            return self.obs(raises="setup:" + type(e).__name__)
        # the rule object has a history before the removal: which of its read-only views were used
        # (a seeded subset; reading a rule must not change what a later edit in place leaves behind)
        pre = [n for i, n in enumerate(PRE_TOUCH) if (variant >> (2 + i)) & 1]
        try:
            g0 = r.gpr
            for n in pre:
                if n == "symbolic":
                    g0.as_symbolic()
                elif n == "eq":
                    g0 == g0.copy()
                elif n == "eval":
                    g0.eval(set(ids))
                elif n == "text":
                    g0.to_string()
                elif n == "genes":
                    g0.genes
        except Exception as e:
            return self.obs(raises="setup:" + type(e).__name__)
        try:
            remove_genes(m, arg, remove_reactions=rr)
            present = bool(m.reactions.has_id("R1")) and m.reactions.get_by_id("R1") is r
            o = self.obs(present=present, tt=self.table(r.gpr, "set"), genes=self.absgenes(r.gpr.genes),
                         toks=self.lex(r.gene_reaction_rule), toks2=self.absgenes(x.id for x in r.genes), pre=pre)
        except Exception as e:
            return self.obs(raises=type(e).__name__)
        if not present:
            return o
        # the rule that the edit in place left behind is a rule like any other: its derived forms
        for how in RM_DERIVED:
            try:
                g = r.gpr
                if how == "symbolic":
                    d = GPR.from_symbolic(g.as_symbolic())
                elif how == "copy":
                    d = g.copy()
                elif how == "roundtrip":
                    d = GPR.from_string(g.to_string())
                elif how == "pickle":
                    d = pickle.loads(pickle.dumps(g))
                elif how == "modelcopy":
                    d = m.copy().reactions.get_by_id("R1").gpr
                o["dhow"].append(how)
                o["dtt"].append(self.table(d, "set"))
                o["dgenes"].append(self.absgenes(d.genes))
                o["deq"].append(self.tf(d == g) if variant % 2 else self.tf(g == d))
            except Exception as e:
                o["dhow"].append(how)
                o["dtt"].append([])
                o["dgenes"].append(["?raises:" + type(e).__name__])
                o["deq"].append("?raises")
        return o


def _quiet():
    logging.disable(logging.CRITICAL)
    warnings.simplefilter("ignore")


def _drive_chunk(args):
    ng, sd, all_pairs, items = args
    _quiet()
    out = []
    for tid, pal, case, j in items:
        out.append(Driver(pal, ng, all_pairs).run(case, j, tid, sd))
    return out


def drive_all(cases, ng, npal, sd, pool, tid0, all_pairs=True, ci0=0, stride=1):
    """every (case, spelling) under `npal` palettes: a fixed rotation through all palettes plus
    seed-dependent further ones"""
    items, meta = [], {}
    tid = tid0
    P = len(PALETTES)
    for ci, case in enumerate(cases):
        for j in range(len(case["spells"])):
            if (ci0 + ci + j) % stride:     # quick tier: every `stride`-th style, shifted from tree to tree
                continue
            first = ((ci0 + ci + j) // stride) % P
            step = 1 + sd % (P - 1)
            chosen = list(range(P)) if npal >= P else [first]
            q = 1
            while len(chosen) < min(npal, P):
                pi = (first + q * step) % P
                if pi not in chosen:
                    chosen.append(pi)
                q += 1
            for pi in chosen:
                tid += 1
                items.append((tid, PALETTES[pi], case, j))
                meta[tid] = (PALETTES[pi]["name"], ci, j)
    jobs = [(ng, sd, all_pairs, ch) for ch in C.chunks(items, max(20, len(items) // (C.NCPU * 6) + 1))]
    traces = []
    it = pool.imap_unordered(_drive_chunk, jobs)
    for _ in jobs:
        try:
            traces.extend(it.next(timeout=900))
        except mp.TimeoutError:
            raise C.Machinery("a driver worker was lost or hung (no result for 900 s)")
    traces.sort(key=lambda t: t["tid"])
    return traces, meta


# ------------------------------------------------------------------ validation
def _validate_file(args):
    path, ng, wd = args
    cfgp = C.write_cfg(path + ".cfg", {"Bug": "none"}, {"GeneSeq": "GeneSeq%d" % ng})
    res = C.run_tlc("TraceGPR", cfgp, wd, workers=2, timeout=3000, heap="3g",
                    env=dict(JVM_ENV_TRACE, TRACE_FILE=path))
    return {"printed": res["printed"], "distinct": res["distinct"], "generated": res["generated"], "cmd": res["cmd"]}


def validate(traces, ng, wd, tag):
    total = sum(len(t["events"]) for t in traces)
    # about one batch file per two cores, but no JVM for fewer than ~6000 events
    per_file = max(6000, total // max(1, C.NCPU // 2) + 1)
    files, cur, n = [], [], 0
    for t in traces:
        cur.append(t)
        n += len(t["events"])
        if n >= per_file:
            files.append(cur)
            cur, n = [], 0
    if cur:
        files.append(cur)
    jobs = []
    for i, batch in enumerate(files):
        path = os.path.join(wd, "batch_%s_%d.json" % (tag, i))
        with open(path, "w") as fh:
            json.dump([{k: v for k, v in t.items() if k != "text"} for t in batch], fh)
        jobs.append((path, ng, wd))
    verdicts, distinct, cmd = [], 0, ""
    with mp.get_context("fork").Pool(min(len(jobs), max(1, C.NCPU // 2))) as pool:
        for r in pool.imap_unordered(_validate_file, jobs):
            verdicts.extend(r["printed"])
            distinct += r["distinct"]
            cmd = r["cmd"]
    expected = sum(len(t["events"]) + 1 for t in traces)
    if distinct != expected:
        raise C.Machinery("trace validation consumed %d states, expected %d (%s)" % (distinct, expected, tag))
    for v in verdicts:
        if v.get("verdict") == "MACHINERY":
            raise C.Machinery("trace spec rejected a generated case: %s" % json.dumps(v)[:300])
    return verdicts, cmd


def _report(rep, verdicts, traces, meta, cases, ng, notes):
    by_tid = {t["tid"]: t for t in traces}
    for v in verdicts:
        if v.get("verdict") == "NOTE":
            notes[v.get("what", "note")] = notes.get(v.get("what", "note"), 0) + 1
            continue
        t = by_tid[v["tid"]]
        pal, ci, j = meta[v["tid"]]
        v2 = dict(v)
        v2["palette"] = pal
        v2["style"] = cases[ci]["spells"][j]["style"]
        v2["text"] = t["text"]
        rep.verdict(v2, {"engine": "gpr", "palette": pal, "ng": ng, "case": cases[ci], "spell": j,
                         "tid": v["tid"], "event": t["events"][v["l"] - 1]})


def run(prop, tier, replay=None):
    assert prop == "C08"
    rep = C.Report(prop, tier)
    wd = C.workdir("C08_" + ("replay" if replay is not None else tier))
    rep.cleanup.append(wd)
    sd = C.seed()
    T = TIERS[tier]
    if replay is not None:
        return _replay(rep, wd, replay)
    import time
    phases = {}
    t0 = time.time()
    runs, controls = design_check(wd, rep, tier)
    phases["design+controls"] = round(time.time() - t0, 1)
    rep.coverage["design_runs"] = runs
    total_traces = total_events = 0
    per_action, per_style, per_palette = {}, {}, {}
    stats = {"eq_true": 0, "eq_false": 0, "removals_catalysable_rule_changed": 0, "removals_rule_emptied": 0,
             "removals_reaction_removed": 0, "ko_forms": {}}
    notes = {}
    samples = []
    distinct_cases = set()
    tid0 = 0
    import cobra  # noqa: F401  imported once here, inherited by the forked workers
    with mp.get_context("fork").Pool(C.NCPU) as pool:
        for mode in ("full", "sample"):
            p = T[mode]
            t0 = time.time()
            cases, gstats = generate(wd, mode, p, sd)
            phases[mode + ":generate"] = round(time.time() - t0, 1)
            if mode == "sample" and len(cases) != p["NSamples"]:
                raise C.Machinery("generator emitted %d sampled cases, expected %d" % (len(cases), p["NSamples"]))
            # slices bound the memory held at a time (a trace is ~25-40 events)
            per_case = len(cases[0]["spells"]) * min(p["palettes"], len(PALETTES)) // p.get("style_stride", 1)
            step = max(1, 9000 // per_case)
            phases[mode + ":drive"] = phases[mode + ":validate"] = 0.0
            for a in range(0, len(cases), step):
                sub = cases[a:a + step]
                t0 = time.time()
                traces, meta = drive_all(sub, p["ng"], p["palettes"], sd, pool, tid0, all_pairs=(tier == "thorough"),
                                         ci0=a, stride=p.get("style_stride", 1))
                tid0 += len(traces)
                phases[mode + ":drive"] = round(phases[mode + ":drive"] + time.time() - t0, 1)
                t0 = time.time()
                verdicts, cmd = validate(traces, p["ng"], wd, "%s_%d" % (mode, a))
                phases[mode + ":validate"] = round(phases[mode + ":validate"] + time.time() - t0, 1)
                _report(rep, verdicts, traces, meta, sub, p["ng"], notes)
                total_traces += len(traces)
                for t in traces:
                    pal, ci, j = meta[t["tid"]]
                    st = sub[ci]["spells"][j]["style"]
                    sk = st["ops"] + "/" + st["par"]
                    per_style[sk] = per_style.get(sk, 0) + 1
                    per_palette[pal] = per_palette.get(pal, 0) + 1
                    total_events += len(t["events"])
                    tk = " ".join(t["toks"])
                    for e in t["events"]:
                        k = e["kind"] if e["kind"] != "derived" else "derived:" + e["how"]
                        per_action[k] = per_action.get(k, 0) + 1
                        o = e["obs"]
                        distinct_cases.add(hash((tk, e["kind"], e["how"] if e["kind"] == "derived" else "",
                                                 " ".join(e["toks2"]), tuple(e["K"]), e["rr"])))
                        if e["kind"] == "eqpair":
                            stats["eq_true" if "T" in (o["eq"], o["eq2"]) else "eq_false"] += 1
                        elif e["kind"] == "parse":
                            stats["ko_forms"][e["how"]] = stats["ko_forms"].get(e["how"], 0) + 1
                        elif e["kind"] == "remove" and o["raises"] == "none":
                            if not o["present"]:
                                stats["removals_reaction_removed"] += 1
                            elif not o["toks"]:
                                stats["removals_rule_emptied"] += 1
                            elif e["K"] and o["toks"] != t["events"][0]["obs"]["toks"]:
                                stats["removals_catalysable_rule_changed"] += 1
                if traces and a == 0:
                    samples.append(traces[len(traces) // 2])
                for f in os.listdir(wd):        # the batch files of this slice have been judged
                    if f.startswith("batch_"):
                        os.unlink(os.path.join(wd, f))
            rep.coverage.setdefault("case_generation", {})[mode] = {
                "trees": len(cases), "tlc_states": gstats["distinct"], "genes": p["ng"],
                "constants": _consts(mode, p, sd if mode == "sample" else 0, True)[0],
                "spellings_per_tree": (len(cases[0]["spells"]) if cases else 0) // p.get("style_stride", 1),
                "palettes_per_spelling": p["palettes"]}
            rep.coverage["trace_checker_cmd"] = cmd
    need = ["parse", "eqpair", "remove"] + ["derived:" + h for h in DERIVED]
    missing = [k for k in need if not per_action.get(k)]
    for k in ("eq_true", "eq_false", "removals_catalysable_rule_changed", "removals_rule_emptied",
              "removals_reaction_removed"):
        if not stats[k]:
            missing.append(k)
    if len(per_style) < 10:
        missing.append("styles:%d" % len(per_style))
    if missing:
        raise C.Machinery("vacuity: never exercised: %s" % missing)
    rep.coverage["samples"] = samples
    rep.coverage["exhaustive"] = True
    rep.assumptions = [
        "exhaustive within the stated constants: every tree of Trees(D, W) on 3 genes x every knock-out set x "
        "every style of GPROps!StyleSeq (mode full); the larger trees on 4 genes are seeded samples",
        "identifiers come from the palettes listed in harness/gpr_engine.py (bijections onto ids built from the "
        "character classes the property lists); unicode letters and malformed text are not generated",
        "a reaction removed by remove_genes(remove_reactions=True) is not judged (the property speaks of "
        "reactions that can still be catalysed)",
        "== is judged in one direction only, as the property states it: equal => same truth table",
    ]
    return rep.finish({
        "traces_validated_against_impl": total_traces, "events_validated": total_events,
        "per_action_counts": per_action, "per_style_counts": per_style, "per_palette_counts": per_palette,
        "negative_controls": controls, "observation_stats": stats, "phase_wall_s": phases,
        "model_fidelity_notes": {"to_string_differs_from_PrintToks": notes.get("print_shape", 0)},
        "distinct_pre_state_action_pairs": len(distinct_cases),
        "rule": "a case is a distinct (spelling token sequence, call, arguments) tuple: parse, each derivation, each == "
                "partner, each (knock-out set, remove_reactions) removal",
    })


def _replay(rep, wd, payload):
    r = payload["replay"]
    pal = [p for p in PALETTES if p["name"] == r["palette"]][0]
    _quiet()
    t = Driver(pal, r["ng"], payload.get("tier") == "thorough").run(r["case"], r["spell"], r["tid"], payload.get("seed", 0))
    verdicts, cmd = validate([t], r["ng"], wd, "replay")
    notes = {}
    _report(rep, verdicts, [t], {t["tid"]: (pal["name"], 0, r["spell"])}, [r["case"]], r["ng"], notes)
    rep.coverage["states"] = rep.coverage["transitions"] = 1
    rep.coverage["samples"] = [t]
    return rep.finish({"traces_validated_against_impl": 1, "events_validated": len(t["events"])})


def selftest():
    """Binding check used by ./check --selftest: a few cases are driven for real, ONE recorded field of one
    event is corrupted (a truth-table entry of the parse event, a reported gene, the rule text after a removal),
    and TraceGPR must print a MISMATCH for exactly that event; the uncorrupted traces must give only
    verdicts of open known findings."""
    wd = C.workdir("C08_selftest")
    try:
        _quiet()
        cases, _ = generate(wd, "full", TIERS["quick"]["full"], 0)
        picked = [c for c in cases if c["depth"] == 2][100:103]
        traces = [Driver(PALETTES[1 + i], 3).run(c, 3, i + 1, 0) for i, c in enumerate(picked)]   # style lower/min
        base, _ = validate(traces, 3, wd, "self0")
        if [v for v in base if v.get("verdict") == "MISMATCH"]:
            raise C.Machinery("selftest: word-spelled traces are expected to be clean: %s" % json.dumps(base)[:300])
        bad = json.loads(json.dumps(traces))
        bad[0]["events"][0]["obs"]["tt"][0] = not bad[0]["events"][0]["obs"]["tt"][0]
        bad[1]["events"][0]["obs"]["genes"] = bad[1]["events"][0]["obs"]["genes"][1:]
        rm = [k for k, e in enumerate(bad[2]["events"]) if e["kind"] == "remove" and e["obs"]["toks"] and e["obs"]["present"]][-1]
        bad[2]["events"][rm]["obs"]["toks"] = []
        got, _ = validate(bad, 3, wd, "self1")
        seen = {(v["tid"], v["l"], tuple(sorted(v["fields"]))) for v in got if v.get("verdict") == "MISMATCH"}
        want = {(1, 1, ("tt",)), (2, 1, ("genes",))}
        if not want <= seen or not any(t == 3 and l == rm + 1 for t, l, _ in seen):
            raise C.Machinery("selftest: corrupted fields were not all rejected: %s" % sorted(seen))
        return {"corrupted": 3, "rejected": sorted(seen)}
    finally:
        if not os.environ.get("VERIF_KEEP_WORK"):
            import shutil
            shutil.rmtree(wd, ignore_errors=True)
