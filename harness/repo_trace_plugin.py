"""pytest plugin (kept in /verif, not a repository change): records what the repository's OWN tests do to cobra
models, so that TLC can evaluate the specification's invariants on every implementation state the test suite
reaches (specs/TraceRepo.tla).

Usage (harness/repo_engine.py does this):
    cd /repo && VERIF_TRACE_OUT=<dir> PYTHONPATH=/verif/harness:/repo/src python -m pytest -p repo_trace_plugin tests/...

The public mutators / analyses are wrapped from the outside (nothing in /repo changes).  A depth counter skips
nested calls: one event per OUTERMOST public call, logged after it returned or raised (`finally`).
Event kinds:
  mut      a public mutator returned: full generic projection of the model (content, cross references, raw GLPK)
  enter    Model.__enter__: digest of content + raw problem
  exit     Model.__exit__: digest; `tainted` = an operation that is not documented as reversible ran inside
  stutter  an analysis / read-only call: digest before and after, context depth before and after
Nothing here decides anything: the events are judged by TLC.
"""
import functools
import hashlib
import json
import math
import os
import threading

OUT = os.environ.get("VERIF_TRACE_OUT")
MAX_RXNS = int(os.environ.get("VERIF_TRACE_MAX_RXNS", "110"))
MAX_PER_TEST = int(os.environ.get("VERIF_TRACE_MAX_PER_TEST", "60"))

_state = threading.local()
_current_test = ["?"]
_events = []
_per_test = {}
_model_keys = {}
_ctx_taint = {}          # model key -> list (one flag per open context)
_PID = os.getpid()


def _depth():
    return getattr(_state, "depth", 0)


def _mkey(model):
    k = id(model)
    if k not in _model_keys:
        _model_keys[k] = len(_model_keys) + 1
    return _model_keys[k]


def num(x):
    """a number as a token TLC can compare and negate: [sign, magnitude text]"""
    try:
        x = float(x)
    except (TypeError, ValueError):
        return {"s": 0, "m": "nan"}
    if math.isnan(x):
        return {"s": 0, "m": "nan"}
    if x == 0:
        return {"s": 0, "m": "0"}
    return {"s": 1 if x > 0 else -1, "m": "inf" if math.isinf(x) else "%.12g" % abs(x)}


def _glpk(model):
    from swiglpk import (GLP_DB, GLP_FR, GLP_LO, GLP_MAX, GLP_UP, doubleArray, glp_get_col_lb, glp_get_col_name,
                         glp_get_col_type, glp_get_col_ub, glp_get_mat_row, glp_get_num_cols, glp_get_num_rows,
                         glp_get_obj_coef, glp_get_obj_dir, glp_get_row_lb, glp_get_row_name, glp_get_row_type,
                         glp_get_row_ub, intArray, glp_get_col_kind)
    model.solver.update()
    prob = model.solver.problem
    ncols, nrows = glp_get_num_cols(prob), glp_get_num_rows(prob)

    def bounds(typ, l, u):
        if typ == GLP_FR:
            return float("-inf"), float("inf")
        if typ == GLP_LO:
            return l, float("inf")
        if typ == GLP_UP:
            return float("-inf"), u
        if typ == GLP_DB:
            return l, u
        return l, l
    cols = []
    for j in range(1, ncols + 1):
        l, u = bounds(glp_get_col_type(prob, j), glp_get_col_lb(prob, j), glp_get_col_ub(prob, j))
        cols.append((glp_get_col_name(prob, j), l, u, glp_get_obj_coef(prob, j), glp_get_col_kind(prob, j)))
    rows = []
    ind, val = intArray(ncols + 1), doubleArray(ncols + 1)
    for i in range(1, nrows + 1):
        l, u = bounds(glp_get_row_type(prob, i), glp_get_row_lb(prob, i), glp_get_row_ub(prob, i))
        k = glp_get_mat_row(prob, i, ind, val)
        rows.append((glp_get_row_name(prob, i), l, u, {cols[ind[t] - 1][0]: val[t] for t in range(1, k + 1) if val[t] != 0}))
    return cols, rows, "max" if glp_get_obj_dir(prob) == GLP_MAX else "min"


def digest(model):
    """content + raw problem, canonical (sorted, 9 significant digits); auxiliary names that carry a random uuid are
    normalised"""
    import re
    canon = []
    for r in model.reactions:
        canon.append("R|%s|%.9g|%.9g|%s|%s" % (r.id, r.lower_bound, r.upper_bound, r.gene_reaction_rule,
                                               ",".join(sorted("%s:%.9g" % (m.id, c) for m, c in r.metabolites.items()))))
    for m in model.metabolites:
        canon.append("M|%s|%s" % (m.id, ",".join(sorted(r.id for r in m.reactions))))
    for g in model.genes:
        canon.append("G|%s|%s|%s" % (g.id, g.functional, ",".join(sorted(r.id for r in g.reactions))))
    for g in model.groups:
        canon.append("Gr|%s|%s" % (g.id, ",".join(sorted(str(getattr(x, "id", x)) for x in g.members))))
    cols, rows, d = _glpk(model)
    norm = lambda n: re.sub(r"[0-9a-f]{8}-[0-9a-f]{4}-[0-9a-f]{4}-[0-9a-f]{4}-[0-9a-f]{12}", "UUID", n)  # noqa: E731
    for n, l, u, oc, kind in cols:
        canon.append("c|%s|%.9g|%.9g|%.9g|%d" % (norm(n), l, u, oc + 0.0, kind))
    for n, l, u, cf in rows:
        canon.append("r|%s|%.9g|%.9g|%s" % (norm(n), l, u, ",".join(sorted("%s:%.9g" % (norm(k), v) for k, v in cf.items()))))
    canon.sort()
    canon.append("dir|" + d)
    return hashlib.md5("\n".join(canon).encode("utf-8", "replace")).hexdigest()[:16]


def project(model):
    """generic projection: identifiers are whatever the model holds"""
    from cobra import Reaction
    rx = [r.id for r in model.reactions]
    mets = [m.id for m in model.metabolites]
    genes = [g.id for g in model.genes]
    o = {"rx": rx, "mets": mets, "genes": genes, "lb": {}, "ub": {}, "S": {}, "rgenes": {}, "gprgenes": {},
         "metRxns": {}, "geneRxns": {}, "bad": []}
    bad = o["bad"]
    for lst, name in ((model.reactions, "reactions"), (model.metabolites, "metabolites"), (model.genes, "genes")):
        for i, x in enumerate(lst):
            try:
                if lst.get_by_id(x.id) is not x or lst.index(x.id) != i or not lst.has_id(x.id):
                    bad.append("lookup:%s:%s" % (name, x.id))
            except Exception:
                bad.append("lookup:%s:%s" % (name, x.id))
            if getattr(x, "_model", None) is not model:
                bad.append("owner:%s:%s" % (name, x.id))
    for r in model.reactions:
        o["lb"][r.id] = num(r.lower_bound)
        o["ub"][r.id] = num(r.upper_bound)
        o["S"][r.id] = {m.id: num(c) for m, c in r.metabolites.items()}
        for m, c in r.metabolites.items():
            if c == 0:
                bad.append("zero-coefficient:%s:%s" % (r.id, m.id))
            if m.id not in model.metabolites or model.metabolites.get_by_id(m.id) is not m:
                bad.append("foreign-metabolite:%s:%s" % (r.id, m.id))
        o["rgenes"][r.id] = sorted(g.id for g in r.genes)
        try:
            o["gprgenes"][r.id] = sorted(r.gpr.genes)
        except Exception:
            o["gprgenes"][r.id] = ["?"]
        for g in r.genes:
            if g.id not in model.genes or model.genes.get_by_id(g.id) is not g:
                bad.append("foreign-gene:%s:%s" % (r.id, g.id))
    for m in model.metabolites:
        o["metRxns"][m.id] = sorted(r.id for r in m.reactions)
    for g in model.genes:
        o["geneRxns"][g.id] = sorted(r.id for r in g.reactions)
    cols, rows, d = _glpk(model)
    role = {}
    for rid in rx:
        fresh = Reaction(rid)
        role[fresh.id] = (rid, "f")
        role[fresh.reverse_id] = (rid, "r")
    lpc = {rid: {"f": 0, "r": 0, "fl": num(0), "fu": num(0), "rl": num(0), "ru": num(0), "of": num(0), "or": num(0)} for rid in rx}
    xcols = []
    for n, l, u, oc, kind in cols:
        if n in role:
            rid, fr = role[n]
            c = lpc[rid]
            c[fr] += 1
            c[fr + "l"], c[fr + "u"], c["o" + fr] = num(l), num(u), num(oc)
        else:
            xcols.append(n)
    lpr = {}
    xrows = 0
    metset = set(mets)
    for n, l, u, cf in rows:
        if n not in metset:
            xrows += 1
            continue
        row = {"n": 1 + lpr.get(n, {}).get("n", 0), "lb": num(l), "ub": num(u), "cf": {}, "cr": {}, "other": 0}
        for cn, v in cf.items():
            if cn in role:
                rid, fr = role[cn]
                row["c" + fr][rid] = num(v)
            else:
                row["other"] += 1
        lpr[n] = row
    o["lp"] = {"cols": lpc, "rows": lpr, "dir": d, "nx": len(xcols), "nxr": xrows}
    o["dir"] = str(model.objective_direction)
    return o


def _log(ev):
    t = _current_test[0]
    n = _per_test.get(t, 0)
    if n >= MAX_PER_TEST:
        return
    _per_test[t] = n + 1
    ev["test"] = t
    _events.append(ev)


def _model_of(obj):
    from cobra import Model
    if isinstance(obj, Model):
        return obj
    return getattr(obj, "_model", None)


NOT_REVERSIBLE = {"Object.id", "Model.repair", "Model.tolerance", "Model.solver"}


def _wrap_mut(cls, name, label, kind="method"):
    orig = cls.__dict__[name]

    def around(call, self, *a, **kw):
        if _depth() > 0 or OUT is None or os.getpid() != _PID:
            return call(self, *a, **kw)
        m0 = _model_of(self)
        _state.depth = 1
        raised = "none"
        try:
            return call(self, *a, **kw)
        except BaseException as e:
            raised = type(e).__name__
            raise
        finally:
            _state.depth = 0
            try:
                m1 = _model_of(self)
                for m in ([m0] if m0 is m1 or m1 is None else [m0, m1]):
                    if m is None:
                        continue
                    if label in NOT_REVERSIBLE and m._contexts:
                        for k in range(len(_ctx_taint.get(_mkey(m), []))):
                            _ctx_taint[_mkey(m)][k] = True
                    if len(m.reactions) <= MAX_RXNS:
                        _log({"k": "mut", "a": label, "raised": raised, "mid": _mkey(m), "ctx": len(m._contexts),
                              "o": project(m)})
            except Exception as e:        # the recorder must never change the outcome of a test
                _log({"k": "recorder-error", "a": label, "msg": "%s: %s" % (type(e).__name__, e)})
    if kind == "property":
        fset = orig.fset

        def setter(self, value):
            return around(fset, self, value)
        setattr(cls, name, property(orig.fget, setter, orig.fdel, orig.__doc__))
    else:
        @functools.wraps(orig)
        def method(self, *a, **kw):
            return around(orig, self, *a, **kw)
        setattr(cls, name, method)


def _wrap_fn(module, name, label, model_arg=0, stutter=False, holders=()):
    orig = getattr(module, name)

    @functools.wraps(orig)
    def fn(*a, **kw):
        from cobra import Model
        if _depth() > 0 or OUT is None or os.getpid() != _PID:
            return orig(*a, **kw)
        m = a[model_arg] if len(a) > model_arg else kw.get("model")
        if not isinstance(m, Model):
            return orig(*a, **kw)
        pre = pre_ctx = None
        if stutter:
            try:
                pre, pre_ctx = digest(m), len(m._contexts)
            except Exception:
                pre = None
        _state.depth = 1
        raised = "none"
        try:
            return orig(*a, **kw)
        except BaseException as e:
            raised = type(e).__name__
            raise
        finally:
            _state.depth = 0
            try:
                if stutter:
                    if pre is not None:
                        _log({"k": "stutter", "a": label, "raised": raised, "mid": _mkey(m), "pre": pre, "post": digest(m),
                              "ctx0": pre_ctx, "ctx1": len(m._contexts), "nrx": len(m.reactions)})
                elif len(m.reactions) <= MAX_RXNS:
                    _log({"k": "mut", "a": label, "raised": raised, "mid": _mkey(m), "ctx": len(m._contexts), "o": project(m)})
            except Exception as e:
                _log({"k": "recorder-error", "a": label, "msg": "%s: %s" % (type(e).__name__, e)})
    setattr(module, name, fn)
    for h in holders:         # modules that imported the function by name
        if getattr(h, name, None) is orig:
            setattr(h, name, fn)


def _install():
    import cobra
    import cobra.flux_analysis as fa
    import cobra.manipulation as mp
    from cobra.core.object import Object
    M, R, Met, G = cobra.Model, cobra.Reaction, cobra.Metabolite, cobra.Gene
    for n in ("add_metabolites", "remove_metabolites", "add_reactions", "remove_reactions", "add_boundary", "add_groups",
              "remove_groups", "add_cons_vars", "remove_cons_vars", "merge", "repair"):
        _wrap_mut(M, n, "Model." + n)
    for n in ("objective", "objective_direction", "medium", "solver", "tolerance"):
        _wrap_mut(M, n, "Model." + n, "property")
    for n in ("add_metabolites", "subtract_metabolites", "__iadd__", "__isub__", "__imul__", "knock_out", "remove_from_model",
              "build_reaction_from_string"):
        _wrap_mut(R, n, "Reaction." + n)
    for n in ("bounds", "lower_bound", "upper_bound", "gene_reaction_rule", "gpr", "objective_coefficient"):
        _wrap_mut(R, n, "Reaction." + n, "property")
    _wrap_mut(Met, "remove_from_model", "Metabolite.remove_from_model")
    _wrap_mut(G, "knock_out", "Gene.knock_out")
    _wrap_mut(G, "functional", "Gene.functional", "property")
    _wrap_mut(Object, "id", "Object.id", "property")
    import importlib
    import sys
    importlib.import_module("cobra.manipulation.delete")
    importlib.import_module("cobra.manipulation.modify")
    md, mm = sys.modules["cobra.manipulation.delete"], sys.modules["cobra.manipulation.modify"]
    for mod, n in ((md, "remove_genes"), (md, "knock_out_model_genes"), (mm, "rename_genes")):
        _wrap_fn(mod, n, "manipulation." + n, holders=(mp, cobra.manipulation))
    # analyses and read-only calls: the model must come back as it was (C13)
    import importlib
    import sys

    def _m(name):
        importlib.import_module(name)
        return sys.modules[name]        # (`import a.b.c as x` would find the FUNCTION a.b.c re-exported by a.b)
    fv, fd, fp = _m("cobra.flux_analysis.variability"), _m("cobra.flux_analysis.deletion"), _m("cobra.flux_analysis.parsimonious")
    fmo, fro, fl = _m("cobra.flux_analysis.moma"), _m("cobra.flux_analysis.room"), _m("cobra.flux_analysis.loopless")
    fg, fc = _m("cobra.flux_analysis.geometric"), _m("cobra.flux_analysis.fastcc")
    fpp, fr = _m("cobra.flux_analysis.phenotype_phase_plane"), _m("cobra.flux_analysis.reaction")
    mmm, med = _m("cobra.medium.minimal_medium"), _m("cobra.medium")
    for mod, names in ((fv, ("flux_variability_analysis", "find_blocked_reactions", "find_essential_genes", "find_essential_reactions")),
                       (fd, ("single_gene_deletion", "single_reaction_deletion", "double_gene_deletion", "double_reaction_deletion")),
                       (fp, ("pfba",)), (fmo, ("moma",)), (fro, ("room",)), (fl, ("loopless_solution",)), (fg, ("geometric_fba",)),
                       (fc, ("fastcc",)), (fpp, ("production_envelope",)), (fr, ("assess",)), (mmm, ("minimal_medium",))):
        for n in names:
            _wrap_fn(mod, n, n, stutter=True, holders=(fa, med))
    for n in ("optimize", "slim_optimize", "summary", "copy"):
        orig = M.__dict__[n]

        def make(orig, n):
            @functools.wraps(orig)
            def method(self, *a, **kw):
                if _depth() > 0 or OUT is None or os.getpid() != _PID:
                    return orig(self, *a, **kw)
                try:
                    pre, pre_ctx = digest(self), len(self._contexts)
                except Exception:
                    return orig(self, *a, **kw)
                _state.depth = 1
                raised = "none"
                try:
                    return orig(self, *a, **kw)
                except BaseException as e:
                    raised = type(e).__name__
                    raise
                finally:
                    _state.depth = 0
                    try:
                        _log({"k": "stutter", "a": "Model." + n, "raised": raised, "mid": _mkey(self), "pre": pre,
                              "post": digest(self), "ctx0": pre_ctx, "ctx1": len(self._contexts), "nrx": len(self.reactions)})
                    except Exception as e:
                        _log({"k": "recorder-error", "a": n, "msg": "%s: %s" % (type(e).__name__, e)})
            return method
        setattr(M, n, make(orig, n))
    # contexts
    oenter, oexit = M.__enter__, M.__exit__

    def enter(self):
        r = oenter(self)
        if _depth() == 0 and OUT is not None and os.getpid() == _PID:
            try:
                _ctx_taint.setdefault(_mkey(self), []).append(False)
                _log({"k": "enter", "a": "Model.__enter__", "mid": _mkey(self), "ctx": len(self._contexts), "dig": digest(self)})
            except Exception as e:
                _log({"k": "recorder-error", "a": "enter", "msg": "%s: %s" % (type(e).__name__, e)})
        return r

    def exit_(self, typ=None, value=None, tb=None):
        top = _depth() == 0 and OUT is not None and os.getpid() == _PID
        raised = "none"
        if top:
            _state.depth = 1
        try:
            return oexit(self, typ, value, tb)
        except BaseException as e:
            raised = type(e).__name__
            raise
        finally:
            if top:
                _state.depth = 0
                try:
                    st = _ctx_taint.get(_mkey(self), [])
                    tainted = st.pop() if st else True
                    _log({"k": "exit", "a": "Model.__exit__", "raised": raised, "mid": _mkey(self), "ctx": len(self._contexts),
                          "dig": digest(self), "tainted": bool(tainted)})
                except Exception as e:
                    _log({"k": "recorder-error", "a": "exit", "msg": "%s: %s" % (type(e).__name__, e)})
    M.__enter__ = enter
    M.__exit__ = exit_


def pytest_configure(config):
    if OUT is not None:
        _install()


def pytest_runtest_setup(item):
    _current_test[0] = item.nodeid


def pytest_runtest_teardown(item):
    _current_test[0] = item.nodeid + "::teardown"


def pytest_sessionfinish(session, exitstatus):
    if OUT is None or os.getpid() != _PID:
        return
    os.makedirs(OUT, exist_ok=True)
    with open(os.path.join(OUT, "events.json"), "w") as fh:
        json.dump(_events, fh)
