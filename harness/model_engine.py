"""Engine `model` (C01 C02 C03 C07 C10 C11 C12 C13): CobraModel.tla / TraceCobraModel.tla <-> cobra.Model.

TLC generates seeded walks over the public mutators (profile = action mix per property) and checks
the design invariants on them; the driver applies every walk to real models under several palettes
and records the full observable state after every call; TLC validates the recorded traces.
Each verdict is attributed to the properties it concerns; a check reports only its own property."""
import json
import multiprocessing as mp
import os

from . import common as C
from .model_driver import PALETTES, ModelDriver

CONSTS = {"Bug": "none"}
SUBST = {"RxSeq": "RxSeq8", "MetSeq": "MetSeq4", "GeneSeq": "GeneSeq4", "GrpSeq": "GrpSeq1"}

# "full:N" = every sequence of N operations of the small context vocabulary (exhaustive), closed by exits
PROFILE = {"C01": ["fullbounds", "fulldet0", "edit"], "C02": ["fullcopy", "fullren", "edit"], "C03": ["full", "fullmid", "fullbounds", "fulldet", "fullobjp", "fullobjc", "fullfail", "ctx"], "C07": ["fullko", "ko"], "C12": ["fullcopy", "copy"],
           "C13": ["fullanalyze", "analyze"], "C10": ["fulliox", "io"], "C11": ["fullio", "io"]}
TIERS = {
    "quick": {"full": (0, 2), "fullmid": (0, 0), "fullbounds": (0, 3), "fullio": (0, 3), "fulliox": (0, 3), "fullren": (0, 3), "fullfail": (0, 3), "fullcopy": (0, 2), "fullanalyze": (0, 3), "fulldet": (0, 3), "fullko": (0, 3), "fulldet0": (0, 3), "fullobjp": (0, 3), "fullobjc": (0, 0), "edit": (700, 14), "ctx": (250, 16), "ko": (700, 12), "copy": (600, 14), "analyze": (220, 9),
              "io": (300, 12), "palettes": 2},
    "thorough": {"full": (0, 2), "fullmid": (0, 3), "fullbounds": (0, 4), "fullio": (0, 4), "fulliox": (0, 4), "fullren": (0, 4), "fullfail": (0, 4), "fullcopy": (0, 3), "fullanalyze": (0, 4), "fulldet": (0, 4), "fullko": (0, 4), "fulldet0": (0, 5), "fullobjp": (0, 4), "fullobjc": (0, 4), "edit": (5000, 18), "ctx": (4000, 20),
                 "ko": (5000, 14), "copy": (6000, 16), "analyze": (1200, 10), "io": (3000, 12), "palettes": 3},
}
KO_ACTIONS = {"GeneKnockOut", "KnockOutModelGenes", "RxnKnockOut"}
SBML_FMTS = {"sbml", "sbml_file", "sbml_freplace_off"}


def attribute(v):
    a = v["action"]
    op = v["op"]
    fields, invs, tags = v["fields"], v["invs"], v["tags"]
    s = op.get("s", 1)
    other = "s2:" if s == 1 else "s1:"
    props = set()
    if any(i.endswith("LPMirrors") for i in invs) or any(f.split(":")[-1] in ("xcols", "xrows", "solver") for f in fields):
        props.add("C01")
    if any(i.endswith("CrossRefOK") for i in invs):
        props.add("C02")
    if any(i.endswith("RFunc") for i in invs):
        props.add("C07")
    if any(i.split(":")[-1] in ("NoRecordingWhileResetting", "ResetRunsAllEntries", "EnterPushesOne", "ExitResetsTop",
                               "RecordsIntoTop", "ExitRestoresLP") for i in invs):
        props.add("C03")
    if any(i.endswith("AnalysisLeavesLP") for i in invs):
        props.add("C13")
    if any(i.endswith("SlotsIndependentLP") for i in invs):
        props.add("C12")
    if any(i.endswith("ReadOnlyLeavesLP") for i in invs):
        props.update({"C01", "C12"} if a in ("RxnArith", "SaveDoc") else {"C01"})
    if any(i.endswith("AnalysisRecordsNothingInCallerContext") for i in invs):
        props.update({"C13", "C03"})
    if any(i.endswith("Exact") for i in invs):
        toks = v.get("inexact", [])
        if any(t.startswith(("col:", "row:", "obj:", "objective:")) for t in toks):
            props.add("C01")
        if any(not t.startswith(("col:", "row:", "obj:", "objective:")) for t in toks) or not toks:
            props.add("C02")
    anything = bool(fields) or bool(invs)
    if "crash" in fields:
        return {"C13"} if a in ("Analyze", "Helper") else {"C01", "C02"}
    if a == "Exit" and anything:
        props.add("C03")
    if a == "Enter" and fields:
        props.add("C03")
    if a in KO_ACTIONS and fields:
        props.add("C07")
    # the truth table of a rule, as cobra evaluates it, is not the Boolean function of the rule that was set: the
    # evaluation knock-outs rely on is wrong ("bounds zero iff the rule evaluates to false", reaction.functional)
    if any(f.split(":")[-1] == "rule" for f in fields):
        props.add("C07")
    if a == "RoundTrip" and anything:
        props.add("C10" if op.get("fmt") in SBML_FMTS else "C11")
    if a == "SaveDoc" and anything:
        props.add("C10" if op.get("fmt") in SBML_FMTS else "C11")
    if a == "LoadDoc" and anything:
        props.add("C10" if "doc_sbml" in tags else "C11")
    if a == "Copy" and anything:
        props.add("C12")
    if a in ("Analyze", "Helper") and anything:
        props.add("C13")
    if a in ("RxnArith", "AddArith") and anything:
        props.add("C12")
    if a not in ("Exit", "Enter", "RoundTrip", "Copy", "Analyze", "Helper", "RxnArith", "AddArith", "SaveDoc", "LoadDoc") and fields:
        props.add("C02")
        if "in_context" in tags and any(f.endswith(":ctx") for f in fields):
            props.add("C03")
    if a != "Copy" and any(f.startswith(other) for f in list(fields) + list(invs)):
        props.add("C12")
    return props


def _subst(fullset):
    """the rename vocabulary runs over the universe with the spare metabolite identifier m5"""
    return dict(SUBST, MetSeq="MetSeq5") if fullset == "ren" else SUBST


def tlc_walks(wd, rep, profile, nwalks, depth, sd, emit=True, bug="none", expect_violation=False, mode="walk",
              fullset="all"):
    consts = dict(CONSTS, Profile=profile, Depth=depth, NWalks=nwalks, Seed=sd % 60000, Emit=emit, Bug=bug, Mode=mode,
                  FullSet=fullset)
    cfgp = C.write_cfg(os.path.join(wd, "%s_%s_%s_%s.cfg" % (mode, profile, bug, fullset)), consts, _subst(fullset),
                       invariants=["InvWellFormed", "InvKOOrder"], constraints=["Constr"],
                       extra=["ASSUME_PLACEHOLDER"] if False else [])
    return C.run_tlc("CobraModel", cfgp, wd, timeout=3000, expect_violation=expect_violation)


def _drive_one(item, progress):
    pal, tid, beh = item
    d = ModelDriver(pal)
    orig = d.apply

    def traced(op, _n=[0]):
        _n[0] += 1
        progress(_n[0])
        return orig(op)
    d.apply = traced
    return d.run(beh, tid)


def drive_all(behs, palettes, wd, tag):
    """Every behaviour runs under the plain palette and under one other palette (the exhaustive family:
    alternating palettes)."""
    items, meta = [], {}
    tid = 0
    for pi, pal in enumerate(palettes):
        for bi, beh in enumerate(behs):
            if pi > 0 and len(palettes) > 2 and (bi % (len(palettes) - 1)) + 1 != pi:
                continue
            if tag.startswith("full") and bi % len(palettes) != pi:
                continue
            tid += 1
            items.append((pal, tid, beh))
            meta[tid] = (pal["name"], bi)
    import cobra  # noqa: F401  (imported once here; every behaviour then runs in a fork of this process)
    import cobra.io  # noqa: F401
    import cobra.flux_analysis  # noqa: F401
    import cobra.sampling  # noqa: F401
    import swiglpk  # noqa: F401
    from . import model_driver as MD
    MD.MET = ["m1", "m2", "m3", "m4"] + (["m5"] if tag == "fullren" else [])      # (inherited by the forked drivers)
    try:
        results = C.isolated_map(_drive_one, items, C.NCPU, wd, "drv_" + tag)
    finally:
        MD.MET = ["m1", "m2", "m3", "m4"]
    traces, crashes = [], []
    for (pal, tid, beh), r in zip(items, results):
        if r is None:
            raise C.Machinery("driver lost a behaviour")
        if "crash" in r:
            k = (r.get("progress") or 1) - 1
            crashes.append({"tid": tid, "palette": pal["name"], "crash": r["crash"], "l": k + 1,
                            "op": beh["ops"][min(k, len(beh["ops"]) - 1)]})
        else:
            traces.append(r)
    return traces, meta, crashes


def _validate_file(args):
    path, wd = args
    cfgp = C.write_cfg(path + ".cfg", dict(CONSTS), _subst("ren" if "_fullren_" in os.path.basename(path) else "all"))
    res = C.run_tlc("TraceCobraModel", cfgp, wd, workers=2, env={"TRACE_FILE": path}, timeout=3000, heap="4g")
    return {"printed": res["printed"], "distinct": res["distinct"], "cmd": res["cmd"]}


def validate(traces, wd, tag, max_events=2500):
    files, cur, n = [], [], 0
    for t in traces:
        cur.append(t)
        n += len(t["events"])
        if n >= max_events:
            files.append(cur)
            cur, n = [], 0
    if cur:
        files.append(cur)
    jobs = []
    for i, batch in enumerate(files):
        path = os.path.join(wd, "batch_%s_%d.json" % (tag, i))
        with open(path, "w") as fh:
            json.dump(batch, fh)
        jobs.append((path, wd))
    verdicts, distinct, cmd = [], 0, ""
    with mp.get_context("fork").Pool(min(len(jobs), max(1, C.NCPU // 2))) as pool:
        for r in pool.imap_unordered(_validate_file, jobs):
            verdicts.extend(r["printed"])
            distinct += r["distinct"]
            cmd = r["cmd"]
    return verdicts, distinct, cmd


def run(prop, tier, replay=None):
    rep = C.Report(prop, tier)
    wd = C.workdir("%s_%s" % (prop, tier))
    rep.cleanup.append(wd)
    sd = C.seed()
    T = TIERS[tier]
    palettes = PALETTES[:T["palettes"]]
    if replay is not None:
        return _replay(rep, wd, replay)
    per_action, samples, nontrivial = {}, [], set()
    total_traces = total_events = skipped = 0
    attributed_elsewhere = 0
    only = os.environ.get("VERIF_ONLY_PROFILE")       # debugging aid: one profile of the property (no evidence)
    if only:
        os.environ["VERIF_NO_EVIDENCE"] = "1"
    for profile in PROFILE[prop]:
        if only and profile != only:
            continue
        nwalks, depth = T[profile]
        if profile in ("fullmid", "fullobjc") and depth == 0:       # thorough tier only
            continue
        if profile in ("full", "fullmid", "fullbounds", "fullio", "fullcopy", "fullanalyze", "fulldet", "fullko", "fulldet0", "fullobjp", "fullobjc", "fulliox", "fullren", "fullfail"):
            res = tlc_walks(wd, rep, "ctx", 1, depth, sd, mode="full",
                            fullset={"full": "all", "fullmid": "mid", "fullbounds": "bounds", "fullio": "io", "fullcopy": "copy",
                                     "fullanalyze": "analyze", "fulldet": "det", "fullko": "ko", "fulldet0": "det0",
                                     "fullobjp": "objp", "fullobjc": "objc", "fulliox": "iox", "fullren": "ren", "fullfail": "fail"}[profile])
            for b in res["printed"]:        # close every context that is still open
                opened = sum(1 for o in b["ops"] if o["a"] == "Enter") - sum(1 for o in b["ops"] if o["a"] == "Exit")
                b["ops"] = b["ops"] + [{"a": "Exit", "s": 1}] * (max(1, opened) if profile in ("full", "fullmid", "fullbounds", "fulldet", "fullobjp", "fullobjc", "fullfail") else max(0, opened))
        else:
            res = tlc_walks(wd, rep, profile, nwalks, depth, sd)
        rep.add_design(res)
        behs = res["printed"]
        if len(behs) < nwalks * 0.9:
            raise C.Machinery("TLC emitted %d behaviours, expected about %d" % (len(behs), nwalks))
        if profile == PROFILE[prop][0]:
            # pinned witnesses of the open findings of this property: replayed on every run
            for f in rep.findings:
                if f.get("status") == "open" and prop in f.get("witness_props", []) and f.get("witness_ops"):
                    behs.append({"walk": 0, "witness": f["id"], "ops": f["witness_ops"]})
        traces, meta, crashes = drive_all(behs, palettes, wd, profile)
        verdicts, distinct, cmd = validate(traces, wd, profile)
        for c in crashes:
            # native code aborted the interpreter (or hung) inside the call in flight: an outcome like any other
            a = c["op"]["a"]
            v = {"verdict": "CRASH", "tid": c["tid"], "l": c["l"], "action": a, "op": c["op"], "fields": ["crash"],
                 "invs": [], "tags": [], "expraises": "none", "obsraises": "crash:" + c["crash"], "inexact": []}
            verdicts.append(v)
        by_tid = {t["tid"]: t for t in traces}
        consumed = sum(len(t["events"]) + 1 for t in traces)
        if distinct > consumed or distinct < len(traces):
            raise C.Machinery("trace validation consumed %d states, recorded %d" % (distinct, consumed))
        for v in verdicts:
            props = attribute(v)
            if prop not in props:
                attributed_elsewhere += 1
                continue
            t = by_tid.get(v["tid"], {"tid": v["tid"], "events": []})
            pal, bi = meta[v["tid"]]
            v2 = dict(v)
            v2["spec"] = "CobraModel"
            v2["profile"] = profile
            v2["palette"] = pal
            v2["fmt"] = v["op"].get("fmt", "")
            v2["kind"] = v["op"].get("kind", "")
            v2["fieldnames"] = sorted({f.split(":", 1)[1] for f in v["fields"] if ":" in f} | {f for f in v["fields"] if ":" not in f})
            v2["invnames"] = sorted({f.split(":", 1)[1] for f in v["invs"]})
            v2["inexact_kinds"] = sorted({t.split(":")[-1] for t in v.get("inexact", [])})
            short = {"tid": t["tid"], "palette": pal, "events": t["events"][:v["l"]]}
            rep.verdict(v2, {"engine": "model", "palette": pal, "behaviour": {"ops": behs[bi]["ops"][:v["l"]]},
                             "trace_tail": short["events"][-2:]})
        total_traces += len(traces)
        for t in traces:
            total_events += len(t["events"])
            for e in t["events"]:
                k = e["op"]["a"]
                per_action[k] = per_action.get(k, 0) + 1
                if e["raises"] == "skip":
                    skipped += 1
                else:
                    nontrivial.add(hash(json.dumps(e["op"], sort_keys=True)) ^ hash(json.dumps(e["obs"][0].get("S", 0), sort_keys=True)))
        if traces:
            t = traces[len(traces) // 2]
            samples.append({"tid": t["tid"], "palette": t["palette"],
                            "ops": [e["op"] for e in t["events"]], "raises": [e["raises"] for e in t["events"]],
                            "last_obs": t["events"][-1]["obs"][0]})
        rep.coverage["trace_checker_cmd"] = cmd
        rep.coverage.setdefault("profiles", {})[profile] = {"walks": nwalks, "depth": depth, "behaviours": len(behs),
                                                            "tlc_states": res["distinct"]}
    # the repository's own tests as a source of traces (TraceRepo.tla): every state the suite reaches is judged by the
    # invariants of this property (thorough tier); the tests that witness an open finding run in every tier
    if prop in ("C01", "C02", "C03", "C13"):
        from . import repo_engine
        wit = sorted({t for f in rep.findings if f.get("status") == "open" and prop in f.get("witness_props", [])
                      for t in f.get("witness_tests", [])})
        if wit and not only:
            total_events += repo_engine.run_stage(prop, rep, wd, tests=wit)
        if tier == "thorough" and not only:
            total_events += repo_engine.run_stage(prop, rep, wd)
    # negative control (design level): a knock-out rule that zeroes every reaction of the gene must violate
    # the order/batch theorem
    controls = {}
    if prop == "C03":
        # design level: the undo-log mechanism refines "exit restores the snapshot" for every history with
        # nesting <= 3 (UndoLog.tla); the pinned tree's behaviour (undo functions recording into the enclosing
        # context) is the negative control and must be rejected
        r = C.run_tlc("UndoLog", os.path.join(C.SPECS, "MC_UndoLog.cfg"), wd, timeout=900)
        rep.add_design(r)
        r = C.run_tlc("UndoLog", os.path.join(C.SPECS, "MC_UndoLog_neg.cfg"), wd, timeout=900, expect_violation=True)
        controls["undo_rerecords_into_enclosing_context"] = r["error"]
        if not r["error"]:
            raise C.Machinery("negative control UndoLog(Hide=FALSE) not rejected")
        # the same theorem without the bound on the history length: EVERY state of the inductive invariant
        # (at most D open contexts of at most R undo records) is an initial state and one step preserves it
        # (UndoLogInd.tla); with Hide = FALSE the step must fail
        d_, r_ = (2, 3) if tier == "thorough" else (2, 2)
        ind = {"Vars": {"a", "b"}, "Vals": {0, 1}, "MaxDepth": 9, "MaxOps": 1, "D": d_, "R": r_}
        cfgp = C.write_cfg(os.path.join(wd, "undolog_ind.cfg"), dict(ind, Hide=True), init="IndInit",
                           invariants=["IndInv", "ExitRestores"])
        r = C.run_tlc("UndoLogInd", cfgp, wd, timeout=1800)
        rep.add_design(r)
        rep.coverage["undolog_inductive_step"] = {"D": d_, "R": r_, "states": r["distinct"],
                                                  "meaning": "IndInit => IndInv by construction, IndInv /\\ Next => IndInv' "
                                                             "checked on every state of IndInv within D, R"}
        cfgp = C.write_cfg(os.path.join(wd, "undolog_ind_neg.cfg"), dict(ind, Hide=False, D=2, R=1), init="IndInit",
                           invariants=["IndInv", "ExitRestores"])
        r = C.run_tlc("UndoLogInd", cfgp, wd, timeout=900, expect_violation=True)
        controls["undo_rerecords_breaks_inductive_step"] = r["error"]
        if not r["error"]:
            raise C.Machinery("negative control UndoLogInd(Hide=FALSE) not rejected")
    if prop in ("C07",):
        r = tlc_walks(wd, rep, "ko", 200, 10, sd, emit=False, bug="ko_any_gene", expect_violation=True)
        controls["ko_any_gene"] = r["error"]
        if not r["error"]:
            raise C.Machinery("negative control ko_any_gene not rejected")
    need = {"C03": ["Enter", "Exit"], "C07": ["GeneKnockOut", "KnockOutModelGenes", "RxnKnockOut"], "C12": ["Copy"],
            "C13": ["Analyze"], "C10": ["RoundTrip"], "C11": ["RoundTrip"],
            "C01": ["AddReactions", "RemoveReactions", "RxnAddMetabolites", "SetBounds", "SwitchSolver", "Copy"],
            "C02": ["AddReactions", "RemoveReactions", "RemoveMetabolites", "SetRule", "RemoveGenes", "RenameGene"]}[prop]
    missing = [k for k in need if not per_action.get(k)]
    if missing:
        raise C.Machinery("vacuity: actions never exercised: %s" % missing)
    rep.coverage["samples"] = samples
    rep.assumptions = [
        "walks are seeded samples of the action vocabulary (not exhaustive); design invariants are checked by TLC "
        "on every generated state",
        "projection through the public API and raw GLPK (after model.solver.update())",
        "lists are compared as sets (order is DictList's business, C15)",
        "argument combinations the specification marks out of scope (skip) are not judged",
    ]
    return rep.finish({
        "traces_validated_against_impl": total_traces, "events_validated": total_events,
        "events_skipped_out_of_scope": skipped, "verdicts_attributed_to_other_properties": attributed_elsewhere,
        "per_action_counts": per_action, "negative_controls": controls,
        "distinct_pre_state_action_pairs": len(nontrivial),
        "rule": "a case is a distinct (operation with arguments, stoichiometry of the state it was applied to) pair "
                "that was not skipped as out of scope",
        "exhaustive": any(p.startswith("full") for p in PROFILE[prop]),     # the full* families are complete enumerations; walks are samples
    })


def _replay(rep, wd, payload):
    r = payload["replay"]
    pal = [p for p in PALETTES if p["name"] == r["palette"]][0]
    d = ModelDriver(pal)
    t = d.run(r["behaviour"], 1)
    verdicts, distinct, cmd = validate([t], wd, "replay")
    for v in verdicts:
        if rep.prop not in attribute(v):
            continue
        v2 = dict(v)
        v2.update(spec="CobraModel", palette=pal["name"], fmt=v["op"].get("fmt", ""), kind=v["op"].get("kind", ""),
                  fieldnames=sorted({f.split(":", 1)[1] for f in v["fields"] if ":" in f} | {f for f in v["fields"] if ":" not in f}),
                  invnames=sorted({f.split(":", 1)[1] for f in v["invs"]}),
                  inexact_kinds=sorted({t.split(":")[-1] for t in v.get("inexact", [])}))
        rep.verdict(v2, {"engine": "model", "palette": pal["name"], "behaviour": r["behaviour"]})
    rep.coverage["states"] = rep.coverage["transitions"] = distinct
    rep.coverage["samples"] = [{"ops": r["behaviour"]["ops"]}]
    return rep.finish({"traces_validated_against_impl": 1, "events_validated": len(t["events"])})
