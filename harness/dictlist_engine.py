"""Engine `dictlist` (property C15): DictList.tla / TraceDictList.tla <-> cobra.core.DictList.

1. design check: TLC explores every operation of the bounded vocabulary from every
   reachable list (InvCoherent, StepProp) + negative controls that must fail;
2. behaviours: TLC emits (a) every (start list, operation) pair and (b) seeded
   pseudo-random walks as JSON;
3. driver: each behaviour is applied to a real DictList under several palettes
   (identifier spellings, element classes) and the full observable state is recorded
   after every operation;
4. TLC validates the recorded traces against the specification (TraceDictList).
"""
import copy
import json
import multiprocessing as mp
import os
import pickle
import re
import time

from . import common as C

MISSING = -1000
NONE_IDX = 99

PALETTES = [
    {"name": "plain", "ids": {"a": "a", "b": "b", "c": "c", "d": "d"}, "cls": "Object"},
    {"name": "awkward", "ids": {"a": "2x.y", "b": "a-b", "c": "for", "d": "p:q"}, "cls": "Metabolite"},
    {"name": "unicode", "ids": {"a": "A b", "b": "é", "c": "ñ/x", "d": "ü=1"}, "cls": "Gene"},
]

TIERS = {
    # ids, (full: maxlen, maxarg, idxspan, slicespan), walks, depth
    "quick": {"full": {"ids": 3, "MaxLen": 3, "MaxArg": 2, "IdxSpan": 4, "SliceSpan": 4, "Depth": 1,
                       "DerStarts": ["none", "copy"]},
              "walk": {"ids": 4, "MaxLen": 4, "MaxArg": 3, "IdxSpan": 6, "SliceSpan": 5, "Depth": 12, "NWalks": 1500},
              "palettes": 2},
    "thorough": {"full": {"ids": 4, "MaxLen": 4, "MaxArg": 2, "IdxSpan": 5, "SliceSpan": 5, "Depth": 1,
                          "DerStarts": ["none", "copy", "swapped"]},
                 "walk": {"ids": 4, "MaxLen": 4, "MaxArg": 3, "IdxSpan": 6, "SliceSpan": 5, "Depth": 14, "NWalks": 40000},
                 "palettes": 3},
}
IDS = ["a", "b", "c", "d"]


def _consts(mode, p, sd, emit=True, bug="none"):
    ids = IDS[:p["ids"]]
    return ({"Ids": set(ids), "Mode": mode, "Depth": p["Depth"], "MaxLen": p["MaxLen"], "MaxArg": p["MaxArg"],
             "IdxSpan": p["IdxSpan"], "SliceSpan": p["SliceSpan"], "NWalks": p.get("NWalks", 1),
             "Seed": sd % 60000, "Emit": emit, "Bug": bug, "DerStarts": set(p.get("DerStarts", ["none"]))},
            {"IdSeq": "IdSeq%d" % len(ids)})


def design_check(wd, rep, tier):
    cfg = os.path.join(C.SPECS, "MC_DictList_design.cfg")
    res = C.run_tlc("DictList", cfg, wd, timeout=900)
    rep.add_design(res)
    controls = {}
    bugs = ["insert_raw_index", "del_raw_index", "extend_no_rollback"]
    for b in (bugs if tier == "thorough" else bugs[:1 + C.seed() % 1]):
        consts, subst = _consts("full", {"ids": 3, "MaxLen": 3, "MaxArg": 2, "IdxSpan": 4, "SliceSpan": 4,
                                         "Depth": 1000}, 0, emit=False, bug=b)
        cfgp = C.write_cfg(os.path.join(wd, "neg_%s.cfg" % b), consts, subst, invariants=["InvCoherent"],
                           properties=["StepProp"], constraints=["Constr"], view="View")
        r = C.run_tlc("DictList", cfgp, wd, timeout=600, expect_violation=True)
        controls[b] = r["error"]
        if not r["error"]:
            raise C.Machinery("negative control %s was NOT rejected by TLC: the design check is vacuous" % b)
    return res, controls


def generate(wd, mode, p, sd):
    consts, subst = _consts(mode, p, sd)
    key = C.spec_hash("DictListOps", "DictList") + "_" + \
        re.sub(r"[^A-Za-z0-9]", "", json.dumps([mode, sorted(consts.items(), key=str)], default=sorted))[-60:]
    import hashlib
    key = C.spec_hash("DictListOps", "DictList") + "_" + hashlib.sha256(
        json.dumps([mode, {k: (sorted(v) if isinstance(v, set) else v) for k, v in consts.items()}],
                   sort_keys=True).encode()).hexdigest()[:16]
    cpath = os.path.join(C.CACHE, "dictlist", key + ".json")
    if os.path.exists(cpath):
        with open(cpath) as fh:
            data = json.load(fh)
        return data["behaviours"], data["stats"]
    sets = mode == "full" and p["Depth"] == 1
    cfgp = C.write_cfg(os.path.join(wd, "gen_%s.cfg" % mode), consts, subst, constraints=["ConstrSets" if sets else "Constr"],
                       view="View")
    res = C.run_tlc("DictList", cfgp, wd, timeout=1800)
    if sets:        # one line per start state with the set of its enabled operations -> the one-step behaviours
        behs = [{"start": line["start"], "der0": line["der0"], "walk": 0, "ops": [op]}
                for line in res["printed"] for op in line["opset"]]
    else:
        behs = res["printed"]
    stats = {"generated": res["generated"], "distinct": res["distinct"], "cmd": res["cmd"], "wall_s": res["wall_s"]}
    os.makedirs(os.path.dirname(cpath), exist_ok=True)
    tmp = cpath + ".tmp%d" % os.getpid()
    with open(tmp, "w") as fh:
        json.dump({"behaviours": behs, "stats": stats}, fh)
    os.replace(tmp, cpath)
    return behs, stats


# ------------------------------------------------------------------ driver (runs in workers)
def _mk_class(name):
    import cobra
    from cobra.core.object import Object
    return {"Object": Object, "Metabolite": cobra.Metabolite, "Gene": cobra.Gene}[name]


class Driver:
    def __init__(self, palette, ids):
        from cobra.core.dictlist import DictList
        self.DictList = DictList
        self.cls = _mk_class(palette["cls"])
        self.conc = {k: palette["ids"][k] for k in ids}
        self.ids = ids
        self.objs = {}

    def O(self, o):
        key = (o["id"], o["v"])
        if key not in self.objs:
            ob = self.cls(self.conc[o["id"]])
            ob._vv = o["v"]
            self.objs[key] = ob
        return self.objs[key]

    def _adopt(self, l):
        """the operations now go to list l: its element objects are THE objects of their (id, version) -- a pickled or
        deep-copied list holds copies of the elements, and remove(obj) / -= [obj] are by object"""
        for ob in list.__iter__(l):
            a = self.abs_obj(ob)
            if a["v"] != -7 and not a["id"].startswith("?"):
                self.objs[(a["id"], a["v"])] = ob

    def abs_obj(self, ob):
        cid = ob.id
        for k, v in self.conc.items():
            if v == cid:
                return {"id": k, "v": getattr(ob, "_vv", -7)}
        return {"id": "?" + str(cid), "v": -7}

    def project(self, l):
        items = [self.abs_obj(o) for o in list.__iter__(l)]
        lk = {}
        for x in self.ids:
            c = self.conc[x]
            try:
                has = bool(l.has_id(c))
            except Exception:
                has = False
            try:
                cin = bool(c in l) and bool(self.cls(c) in l)
                cin_alt = bool(c in l) or bool(self.cls(c) in l)
                if cin != cin_alt:      # string and object membership disagree: not a coherent answer
                    cin = not has
            except Exception:
                cin = not has
            try:
                pos = l.index(c)
                if not isinstance(pos, int) or isinstance(pos, bool):
                    pos = -4000
            except ValueError:
                pos = MISSING
            except Exception:
                pos = -2000
            try:
                g = l.get_by_id(c)
                get = getattr(g, "_vv", -7) if g.id == c else -3000
            except KeyError:
                get = MISSING
            except Exception:
                get = -2000
            lk[x] = {"has": has, "cin": cin, "pos": pos, "get": get}
        return {"items": items, "lk": lk}

    def noret(self):
        return {"items": [], "lk": {x: {"has": False, "cin": False, "pos": MISSING, "get": MISSING} for x in self.ids},
                "n": 0}

    def ret_list(self, r):
        self._last = r          # the returned list object becomes the derived list
        p = self.project(r)
        p["n"] = len(r)
        return p

    def ret_obj(self, o):
        r = self.noret()
        r["items"] = [self.abs_obj(o)]
        return r

    def run(self, beh, tid, variant):
        DictList = self.DictList
        start = [self.O(o) for o in beh["start"]]
        if variant % 2 == 0:
            l = DictList(start)
        else:
            l = DictList()
            for o in start:
                l.append(o)
        # the derived list of the start state (DictList.tla: der0): a copy of the start list made in one of the
        # documented ways; "swapped": the operations go to the copy and the original is the derived list
        der = None
        der0 = beh.get("der0", "none")
        if der0 != "none":
            how = variant % 5
            der = (copy.copy(l) if how == 0 else DictList(l) if how == 1 else l[:] if how == 2
                   else pickle.loads(pickle.dumps(l)) if how == 3 else copy.deepcopy(l))
            if how >= 3:        # pickle / deepcopy copy the elements as well: keep their version marks
                for o in list.__iter__(der):
                    if not hasattr(o, "_vv"):
                        o._vv = -7
            if der0 == "swapped":
                l, der = der, l
                self._adopt(l)
        events = []
        ops = [{"op": "init"}] + list(beh["ops"])
        for k, op in enumerate(ops):
            ret = self.noret()
            raises = "none"
            try:
                kind = op["op"]
                sl = None
                if "a" in op:
                    sl = slice(None if op["a"] == NONE_IDX else op["a"], None if op["b"] == NONE_IDX else op["b"])
                if kind == "init":
                    pass
                elif kind == "swap":
                    if der is None:
                        raises = "skip"
                    else:
                        l, der = der, l
                        self._adopt(l)
                elif kind == "deepcopy":
                    ret = self.ret_list(copy.deepcopy(l))
                    der = self._last
                elif kind == "append":
                    l.append(self.O(op["x"]))
                elif kind == "add":
                    l.add(self.O(op["x"]))
                elif kind == "extend":
                    xs = [self.O(o) for o in op["xs"]]
                    l.extend(xs if (k + variant) % 2 else iter(xs))
                elif kind == "iadd":
                    l2 = l
                    l2 += [self.O(o) for o in op["xs"]]
                    if l2 is not l:
                        raises = "rebinds"
                elif kind == "union":
                    l.union([self.O(o) for o in op["xs"]])
                elif kind == "insert":
                    l.insert(op["i"], self.O(op["x"]))
                elif kind == "pop":
                    ret = self.ret_obj(l.pop(op["i"]))
                elif kind == "poplast":
                    ret = self.ret_obj(l.pop())
                elif kind == "delitem":
                    del l[op["i"]]
                elif kind == "remove":
                    l.remove(self.O(op["x"]))
                elif kind == "removeid":
                    l.remove(self.conc[op["x"]["id"]])
                elif kind == "isub":
                    l2 = l
                    l2 -= [self.O(o) for o in op["xs"]]
                    if l2 is not l:
                        raises = "rebinds"
                elif kind == "setitem":
                    l[op["i"]] = self.O(op["x"])
                elif kind == "setslice":
                    l[sl] = [self.O(o) for o in op["xs"]]
                elif kind == "setslice2":
                    l[slice(sl.start, sl.stop, 2)] = [self.O(o) for o in op["xs"]]
                elif kind == "delslice":
                    del l[sl]
                elif kind == "sort":
                    l.sort()
                elif kind == "sortrev":
                    l.sort(reverse=True)
                elif kind == "reverse":
                    l.reverse()
                elif kind == "getslice":
                    ret = self.ret_list(l[sl])
                    der = self._last
                elif kind == "query":
                    want = {self.conc[q] for q in op["qs"]}
                    if want and (k + variant) % 2:
                        rx = re.compile("^(?:" + "|".join(re.escape(w) for w in sorted(want)) + ")$")
                        ret = self.ret_list(l.query(rx, "id") if variant % 3 else l.query(rx))
                    else:
                        ret = self.ret_list(l.query(lambda o: o.id in want))
                    der = self._last
                elif kind == "copy":
                    r = copy.copy(l) if (k + variant) % 2 else DictList(l)
                    ret = self.ret_list(r)
                    der = self._last
                elif kind == "pickle":
                    ret = self.ret_list(pickle.loads(pickle.dumps(l, protocol=(k + variant) % 3 + 2)))
                    der = self._last
                elif kind == "addop":
                    ret = self.ret_list(l + [self.O(o) for o in op["xs"]])
                    der = self._last
                elif kind == "subop":
                    ret = self.ret_list(l - [self.O(o) for o in op["xs"]])
                    der = self._last
                elif kind == "getitem":
                    ret = self.ret_obj(l[op["i"]])
                elif kind == "rename":
                    n = len(l)
                    i = op["i"]
                    p = i + n if i < 0 else i
                    new = self.conc[op["nid"]]
                    if not (0 <= p < n) or any(o.id == new for o in list.__iter__(l)):
                        raises = "skip"
                    else:
                        ob = list.__getitem__(l, p)
                        old_key = [kk for kk, vv in self.objs.items() if vv is ob]
                        ob.id = new
                        ob._vv = ob._vv + 2
                        for kk in old_key:
                            del self.objs[kk]
                        self.objs[(op["nid"], ob._vv)] = ob
                        l._generate_index()
                        der = None      # the renamed object is shared with the derived list: given up
                else:
                    raise C.Machinery("unknown op %r" % (kind,))
            except C.Machinery:
                raise
            except Exception as e:      # the outcome of the call under test
                raises = type(e).__name__
                ret = self.noret()
            dp = self.project(der) if der is not None else self.noret()
            dp["present"] = der is not None
            events.append({"op": op, "raises": raises, "post": self.project(l), "ret": ret, "der": dp})
        return {"tid": tid, "start": beh["start"], "der0": der0, "events": events}


def _drive_chunk(args):
    palette, ids, items = args
    out = []
    for tid, variant, beh in items:
        d = Driver(palette, ids)
        out.append(d.run(beh, tid, variant))
    return out


def drive_all(behs, ids, palettes, pool):
    jobs = []
    tid = 0
    meta = {}
    for pi, pal in enumerate(palettes):
        items = []
        for bi, beh in enumerate(behs):
            tid += 1
            items.append((tid, bi + pi, beh))
            meta[tid] = (pal["name"], bi)
        for ch in C.chunks(items, max(50, len(items) // (C.NCPU * 2) + 1)):
            jobs.append((pal, ids, ch))
    traces = []
    for part in pool.imap_unordered(_drive_chunk, jobs):
        traces.extend(part)
    traces.sort(key=lambda t: t["tid"])
    return traces, meta


# ------------------------------------------------------------------ validation
def _validate_file(args):
    path, nids, wd = args
    ids = IDS[:nids]
    cfgp = C.write_cfg(path + ".cfg", {"Ids": set(ids), "Bug": "none"}, {"IdSeq": "IdSeq%d" % nids})
    res = C.run_tlc("TraceDictList", cfgp, wd, workers=2, env={"TRACE_FILE": path}, timeout=3000, heap="3g")
    return {"printed": res["printed"], "distinct": res["distinct"], "generated": res["generated"], "cmd": res["cmd"]}


def validate(traces, nids, wd, tag, max_events=20000):
    files = []
    cur, n = [], 0
    for t in traces:
        cur.append(t)
        n += len(t["events"])
        if n >= max_events:
            files.append(cur)
            cur, n = [], 0
    if cur:
        files.append(cur)
    jobs = []
    for i, batch in enumerate(files):
        path = os.path.join(wd, "batch_%s_%d.json" % (tag, i))
        with open(path, "w") as fh:
            json.dump(batch, fh)
        jobs.append((path, nids, wd))
    verdicts = []
    distinct = 0
    cmd = ""
    with mp.get_context("fork").Pool(min(len(jobs), max(1, C.NCPU // 2))) as pool:
        for r in pool.imap_unordered(_validate_file, jobs):
            verdicts.extend(r["printed"])
            distinct += r["distinct"]
            cmd = r["cmd"]
    # acceptance: one TLC state per consumed event (+ the initial one); a trace stops being
    # consumed after an event whose logged state is not Coherent
    stop = {}
    for v in verdicts:
        if "Coherent" in v.get("invs", []):
            stop[v["tid"]] = min(stop.get(v["tid"], 10 ** 9), v["l"])
    expected = sum(min(len(t["events"]), stop.get(t["tid"], 10 ** 9)) + 1 for t in traces)
    if distinct != expected:
        raise C.Machinery("trace validation consumed %d states, expected %d (%s)" % (distinct, expected, tag))
    return verdicts, cmd


def run(prop, tier, replay=None):
    assert prop == "C15"
    rep = C.Report(prop, tier)
    wd = C.workdir("C15_" + tier)
    rep.cleanup.append(wd)
    sd = C.seed()
    T = TIERS[tier]
    if replay is not None:
        return _replay(rep, wd, replay)
    res, controls = design_check(wd, rep, tier)
    palettes = PALETTES[:T["palettes"]]
    total_traces = total_events = 0
    per_action = {}
    samples = []
    nontrivial = set()
    with mp.get_context("fork").Pool(C.NCPU) as pool:
        for mode in ("full", "walk"):
            p = T[mode]
            behs, stats = generate(wd, mode, p, sd)
            ids = IDS[:p["ids"]]
            pals = palettes if mode == "walk" else palettes[:1 + (1 if tier == "thorough" else 0)]
            traces, meta = drive_all(behs, ids, pals, pool)
            verdicts, cmd = validate(traces, p["ids"], wd, mode)
            by_tid = {t["tid"]: t for t in traces}
            for v in verdicts:
                t = by_tid[v["tid"]]
                pal, bi = meta[v["tid"]]
                v2 = dict(v)
                v2["spec"] = "DictList"
                v2["action"] = v["op"]["op"]
                rep.verdict(v2, {"engine": "dictlist", "palette": pal, "nids": p["ids"], "behaviour": behs[bi],
                                 "trace": t})
            total_traces += len(traces)
            for t in traces:
                total_events += len(t["events"])
                pre = json.dumps(t["start"], sort_keys=True)
                for e in t["events"]:
                    k = e["op"]["op"]
                    per_action[k] = per_action.get(k, 0) + 1
                    post = json.dumps(e["post"]["items"], sort_keys=True)
                    if k != "init" and (post != pre or e["raises"] != "none" or e["ret"]["items"] or e["ret"]["n"]):
                        nontrivial.add(hash((pre, json.dumps(e["op"], sort_keys=True))))
                    pre = post
            if traces:
                samples.append(traces[len(traces) // 2])
            rep.coverage.setdefault("behaviour_generation", {})[mode] = {
                "behaviours": len(behs), "tlc_states": stats["distinct"], "constants": {k: (sorted(v) if isinstance(v, set) else v) for k, v in _consts(mode, p, sd)[0].items()}}
            rep.coverage["trace_checker_cmd"] = cmd
    missing = [k for k in ["append", "add", "extend", "iadd", "union", "insert", "pop", "poplast", "delitem", "remove",
                           "removeid", "isub", "setitem", "setslice", "delslice", "sort", "sortrev", "reverse",
                           "getslice", "query", "copy", "pickle", "addop", "subop", "getitem", "rename", "swap", "deepcopy", "setslice2"]
               if not per_action.get(k)]
    if missing:
        raise C.Machinery("vacuity: actions never exercised: %s" % missing)
    rep.coverage["samples"] = samples
    rep.coverage["exhaustive"] = True
    rep.assumptions = [
        "exhaustive within the stated constants: every operation of the vocabulary from every duplicate-free "
        "start list (full mode); pseudo-random walks are samples",
        "the projection uses only has_id / in / index / get_by_id / iteration / len",
        "palette maps are order-preserving bijections, so sort() has a unique expected outcome",
    ]
    return rep.finish({
        "traces_validated_against_impl": total_traces, "events_validated": total_events,
        "per_action_counts": per_action, "negative_controls": controls,
        "distinct_pre_state_action_pairs": len(nontrivial),
        "rule": "a case is a distinct (abstract pre-state, operation, arguments) triple whose step changed the list, "
                "raised, or returned a value",
    })


def _replay(rep, wd, payload):
    r = payload["replay"]
    pal = [p for p in PALETTES if p["name"] == r["palette"]][0]
    ids = IDS[:r["nids"]]
    d = Driver(pal, ids)
    t = d.run(r["behaviour"], 1, 0)
    verdicts, cmd = validate([t], r["nids"], wd, "replay")
    for v in verdicts:
        v2 = dict(v)
        v2["spec"] = "DictList"
        v2["action"] = v["op"]["op"]
        rep.verdict(v2, {"engine": "dictlist", "palette": pal["name"], "nids": r["nids"],
                         "behaviour": r["behaviour"], "trace": t})
    rep.coverage["states"] = rep.coverage["transitions"] = 1
    rep.coverage["samples"] = [t]
    return rep.finish({"traces_validated_against_impl": 1, "events_validated": len(t["events"])})
