"""Engine `flux2` (properties C09, C06, C18, C20): Flux2.tla / TraceFlux2.tla <-> cobra's
secondary analyses (pFBA, linear MOMA, ROOM, deletions, medium, summaries).

1. design check: TLC checks the design theorems of Flux2.tla (the formulation cobrapy builds
   has the documented optimum, sanity relations between the oracles) on every instance of the
   small family + negative controls (`Bug`) that TLC must reject;
2. instances: TLC emits (a) every in-scope instance of the small family and (b) seeded LCG-drawn
   larger instances, each with the list of calls (arguments, knock-out states, reference
   solutions chosen by the specification) as JSON;
3. driver: every call is made on a REAL cobra model (forked workers; a worker killed by native
   code records `crash:<signal>` for the call in flight and the batch resumes after it) and
   the returned numbers are recorded as fixed-point integers;
4. TLC (TraceFlux2) recomputes the expected values on the integer lattice and prints one verdict
   line per mismatching clause set.
"""
import hashlib
import json
import math
import multiprocessing as mp
import os
import signal
import sys
import time
import traceback
import warnings

from . import common as C

INF = 1000000
SCALE = 10 ** 6
BIG = 1999                      # |value| must stay below 2000 (fixed point in 32 bits)

PALETTES = [
    {"name": "glpk", "solver": "glpk", "rx": "{}", "mx": "{}", "gx": "{}"},
    {"name": "exact-awkward", "solver": "glpk_exact", "rx": "R.{}-x", "mx": "2{}[m]", "gx": "{}.1"},
]

# ---------------------------------------------------------------------------------- tiers
# families: constants of Flux2.tla; "rand" families take Seed from VERIF_SEED
TIERS = {
    "C09": {
        "quick": {
            "design": {"Mode": "full", "NMets": 2, "NRxns": 3, "Pal": "PalS", "Dirs": "DirsMax"},
            "controls": 1,
            "families": [
                {"Mode": "full", "NMets": 2, "NRxns": 3, "Pal": "PalS", "Dirs": "DirsMax"},
                {"Mode": "rand", "NMets": 3, "NRxns": 5, "Pal": "PalB", "Dirs": "DirsMax", "NWalks": 260},
                {"Mode": "rand", "NMets": 2, "NRxns": 4, "Pal": "PalInf", "Dirs": "DirsMax", "NWalks": 120},
            ],
            "exact_every": 4,
        },
        "thorough": {
            "design": {"Mode": "full", "NMets": 2, "NRxns": 3, "Pal": "PalA", "Dirs": "DirsBoth"},
            "controls": 99,
            "families": [
                {"Mode": "full", "NMets": 2, "NRxns": 3, "Pal": "PalA", "Dirs": "DirsBoth"},
                {"Mode": "rand", "NMets": 3, "NRxns": 5, "Pal": "PalB", "Dirs": "DirsMax", "NWalks": 6000},
                {"Mode": "rand", "NMets": 3, "NRxns": 6, "Pal": "PalA", "Dirs": "DirsMax", "NWalks": 1500},
                {"Mode": "rand", "NMets": 2, "NRxns": 4, "Pal": "PalInf", "Dirs": "DirsMax", "NWalks": 2500},
            ],
            "exact_every": 3,
        },
    },
}
THEOREMS = {
    "C09": ["ThmPfbaFormulation", "ThmPfbaMonotone", "ThmMomaFormulation", "ThmRoomFormulation", "ThmAdjustSanity",
            "ThmRefsInScope"],
}
CONTROLS = {      # Bug -> the theorem TLC must reject
    "C09": [("pfba_forward_only", "ThmPfbaFormulation"), ("room_no_abs", "ThmRoomFormulation"),
            ("moma_difference_sign", "ThmMomaFormulation")],
}
ACTIONS = {
    "C09": ["pfba", "moma", "room", "linroom", "roomdef"],
}
SPEC_MODULES = ("FluxLatticeOps", "Flux2Ops", "Flux2")


def _consts(prop, fam, sd, emit, bug="none"):
    consts = {"Prop": prop, "Mode": fam["Mode"], "NMets": fam["NMets"], "NRxns": fam["NRxns"],
              "NWalks": fam.get("NWalks", 1), "Seed": (sd % 60000) if fam["Mode"] == "rand" else 0,
              "Emit": emit, "Bug": bug}
    subst = {"Pal": fam["Pal"], "Dirs": fam["Dirs"]}
    return consts, subst


# ---------------------------------------------------------------------------------- TLC: design, generation
def design_check(prop, tier, wd, rep):
    T = TIERS[prop][tier]
    consts, subst = _consts(prop, T["design"], 0, emit=False)
    cfg = C.write_cfg(os.path.join(wd, "design.cfg"), consts, subst, invariants=THEOREMS[prop], constraints=["Constr"])
    res = C.run_tlc("Flux2", cfg, wd, timeout=1500)
    rep.add_design(res)
    controls = {}
    todo = CONTROLS[prop]
    if T["controls"] < len(todo):
        k = C.seed() % len(todo)
        todo = [todo[(k + i) % len(todo)] for i in range(T["controls"])]
    for bug, thm in todo:
        consts, subst = _consts(prop, T["design"], 0, emit=False, bug=bug)
        cfgp = C.write_cfg(os.path.join(wd, "neg_%s.cfg" % bug), consts, subst, invariants=[thm], constraints=["Constr"])
        r = C.run_tlc("Flux2", cfgp, wd, timeout=900, expect_violation=True)
        controls[bug] = r["error"]
        if r["error"] != "invariant:" + thm:
            raise C.Machinery("negative control %s was NOT rejected by TLC (%r): the design check is vacuous"
                              % (bug, r["error"]))
    return controls


def generate(prop, fam, sd, wd):
    consts, subst = _consts(prop, fam, sd, emit=True)
    key = C.spec_hash(*SPEC_MODULES) + "_" + hashlib.sha256(
        json.dumps([consts, subst], sort_keys=True).encode()).hexdigest()[:16]
    cpath = os.path.join(C.CACHE, "flux2", key + ".json")
    if os.path.exists(cpath):
        try:
            with open(cpath) as fh:
                data = json.load(fh)
            return data["instances"], data["stats"]
        except ValueError:
            pass
    cfgp = C.write_cfg(os.path.join(wd, "gen_%s.cfg" % key), consts, subst, constraints=["Constr"])
    res = C.run_tlc("Flux2", cfgp, wd, timeout=2400)
    insts = res["printed"]
    # TLC workers print in any order: fix the order (same seed => same run)
    insts.sort(key=lambda d: json.dumps(d, sort_keys=True))
    stats = {"generated": res["generated"], "distinct": res["distinct"], "cmd": res["cmd"],
             "wall_s": round(res["wall_s"], 1), "constants": consts, "subst": subst}
    os.makedirs(os.path.dirname(cpath), exist_ok=True)
    tmp = cpath + ".tmp%d" % os.getpid()
    with open(tmp, "w") as fh:
        json.dump({"instances": insts, "stats": stats}, fh)
    os.replace(tmp, cpath)
    return insts, stats


# ---------------------------------------------------------------------------------- driver helpers (in workers)
def fx(x):
    """float -> (kind, fixed point int).  kind: 'num', 'nan' (None / nan / inf / too large)."""
    try:
        x = float(x)
    except (TypeError, ValueError):
        return "nan", 0
    if math.isnan(x) or math.isinf(x) or abs(x) > BIG:
        return "nan", 0
    return "num", int(round(x * SCALE))


def build_model(M, pal, extra=None):
    import cobra
    model = cobra.Model("m")
    model.solver = pal["solver"]
    mets = [cobra.Metabolite(pal["mx"].format(x), compartment=(M.get("comp") or ["c"] * len(M["mets"]))[i])
            for i, x in enumerate(M["mets"])]
    rxns = []
    for i, rid in enumerate(M["rxns"]):
        r = cobra.Reaction(pal["rx"].format(rid))
        lb, ub = M["lb"][i], M["ub"][i]
        r.bounds = (-math.inf if lb <= -INF else lb, math.inf if ub >= INF else ub)
        r.add_metabolites({mets[j]: M["S"][i][j] for j in range(len(mets)) if M["S"][i][j]})
        rxns.append(r)
    model.add_reactions(rxns)
    if M.get("rules"):
        for i, rule in enumerate(M["rules"]):
            if rule:
                rxns[i].gene_reaction_rule = rule
    model.objective = {rxns[i]: M["c"][i] for i in range(len(rxns)) if M["c"][i]}
    model.objective_direction = M["dir"]
    return model, rxns, mets


class Recorder:
    """Writes a `begin` marker before every call (so that the parent knows which call was in
    flight when native code killed the worker) and answers with the recorded crash outcome
    when the call is one that killed an earlier worker."""

    def __init__(self, fh, tid, skip):
        self.fh, self.tid, self.skip = fh, tid, skip

    def begin(self, j):
        key = "%d:%d" % (self.tid, j)
        if key in self.skip:
            return self.skip[key]
        self.fh.write(json.dumps({"begin": [self.tid, j]}) + "\n")
        self.fh.flush()
        return None


def _solution_fields(sol, ids, sub):
    kind, obj = fx(sol.objective_value)
    v = []
    ok = True
    for i, rid in enumerate(ids):
        if sub[i]:
            k2, val = fx(sol.fluxes[rid])
            ok = ok and k2 == "num"
            v.append(val)
        else:
            v.append(0)
    return {"status": str(sol.status), "objk": kind if ok else "nan", "obj": obj, "v": v}


def drive_c09(item, rec):
    import cobra
    import pandas as pd
    from cobra.flux_analysis import moma, pfba, room
    inst, pal = item["inst"], item["pal"]
    M = inst["M"]
    n = len(M["rxns"])
    model, rxns, mets = build_model(M, pal)
    ids = [r.id for r in rxns]
    events = []
    for j, cl in enumerate(inst["calls"]):
        if pal["solver"] == "glpk_exact" and cl["k"] in ("room", "roomdef"):
            continue        # the exact solver refuses MILPs by design
        ev = dict(cl)
        ev.update({"outcome": "ok", "status": "none", "objk": "nan", "obj": 0, "v": [0] * n})
        crash = rec.begin(j)
        if crash:
            ev["outcome"] = crash
            events.append(ev)
            continue
        try:
            with model:
                for r in range(n):
                    if cl["ko"][r]:
                        rxns[r].knock_out()
                ref = None
                if cl["refgiven"]:
                    ref = cobra.Solution(float(cl["refobj"]), "optimal",
                                         fluxes=pd.Series([float(x) for x in cl["ref"]], index=ids))
                k = cl["k"]
                if k == "pfba":
                    kw = {"fraction_of_optimum": cl["num"] / cl["den"]}
                    if cl["useobj"]:
                        kw["objective"] = {rxns[r]: cl["objc"][r] for r in range(n) if cl["objc"][r]}
                    if not all(cl["sub"]):
                        sel = [rxns[r] if (r + j) % 2 else ids[r] for r in range(n) if cl["sub"][r]]
                        kw["reactions"] = sel
                    sol = pfba(model, **kw)
                elif k == "moma":
                    sol = moma(model, solution=ref, linear=True)
                elif k == "room":
                    sol = room(model, solution=ref, linear=False, delta=cl["delta"], epsilon=cl["eps"])
                elif k == "roomdef":
                    sol = room(model, solution=ref)
                elif k == "linroom":
                    sol = room(model, solution=ref, linear=True)
                else:
                    raise C.Machinery("unknown call %r" % (k,))
            ev.update(_solution_fields(sol, ids, cl["sub"]))
        except C.Machinery:
            raise
        except Exception as e:              # the outcome of the call under test
            ev["outcome"] = "exc:" + type(e).__name__
        events.append(ev)
    return {"tid": item["tid"], "prop": "C09", "M": M, "events": events}


DRIVERS = {"C09": drive_c09}


# ---------------------------------------------------------------------------------- forked workers
def _child_main(prop, chunk, path, skip):
    warnings.simplefilter("ignore")
    import logging
    logging.disable(logging.CRITICAL)
    try:
        with open(path, "a") as fh:
            for item in chunk:
                rec = Recorder(fh, item["tid"], skip)
                t = DRIVERS[prop](item, rec)
                fh.write(json.dumps({"trace": t}) + "\n")
                fh.flush()
    except BaseException:
        with open(path, "a") as fh:
            fh.write(json.dumps({"error": traceback.format_exc()}) + "\n")
        os._exit(3)
    os._exit(0)


def drive_all(prop, items, wd, nproc, chunk_timeout):
    """Run the driver over all items in forked workers.  Returns (traces sorted by tid, crashes)."""
    import cobra  # noqa: F401  (imported before forking: the children inherit it)
    import pandas  # noqa: F401
    per = max(4, min(60, len(items) // (nproc * 3) + 1))
    pending = [{"items": ch, "skip": {}, "n": i, "gen": 0} for i, ch in enumerate(C.chunks(items, per))]
    running = {}
    traces = {}
    crashes = []
    while pending or running:
        while pending and len(running) < nproc:
            job = pending.pop(0)
            path = os.path.join(wd, "drv_%d_%d.jsonl" % (job["n"], job["gen"]))
            sys.stdout.flush()
            pid = os.fork()
            if pid == 0:
                _child_main(prop, job["items"], path, job["skip"])
            running[pid] = (job, path, time.time())
        done = None
        for pid, (job, path, t0) in list(running.items()):
            r, status = os.waitpid(pid, os.WNOHANG)
            if r == pid:
                done = (pid, status, None)
                break
            if time.time() - t0 > chunk_timeout:
                os.kill(pid, signal.SIGKILL)
                os.waitpid(pid, 0)
                done = (pid, None, "timeout")
                break
        if done is None:
            time.sleep(0.02)
            continue
        pid, status, forced = done
        job, path, t0 = running.pop(pid)
        finished = set()
        last_begin = None
        err = None
        if os.path.exists(path):
            with open(path) as fh:
                for line in fh:
                    try:
                        d = json.loads(line)
                    except ValueError:
                        continue            # a line cut short by the crash
                    if "trace" in d:
                        traces[d["trace"]["tid"]] = d["trace"]
                        finished.add(d["trace"]["tid"])
                    elif "begin" in d:
                        last_begin = d["begin"]
                    elif "error" in d:
                        err = d["error"]
        if err is not None:
            raise C.Machinery("driver failed outside the API under test:\n%s" % err)
        if forced is None and os.WIFEXITED(status) and os.WEXITSTATUS(status) == 0:
            missing = [it["tid"] for it in job["items"] if it["tid"] not in finished]
            if missing:
                raise C.Machinery("driver worker exited without finishing traces %s" % missing[:5])
            continue
        # the worker died: name the call in flight and resume after it in a fresh worker
        if forced:
            what = "crash:" + forced
        elif os.WIFSIGNALED(status):
            try:
                what = "crash:" + signal.Signals(os.WTERMSIG(status)).name
            except ValueError:
                what = "crash:SIG%d" % os.WTERMSIG(status)
        else:
            what = "crash:exit%d" % os.WEXITSTATUS(status)
        if last_begin is None or last_begin[0] in finished:
            raise C.Machinery("driver worker died (%s) outside a recorded call" % what)
        if job["gen"] > 200:
            raise C.Machinery("driver worker keeps dying (%s)" % what)
        skip = dict(job["skip"])
        skip["%d:%d" % (last_begin[0], last_begin[1])] = what
        crashes.append({"tid": last_begin[0], "call": last_begin[1], "what": what})
        rest = [it for it in job["items"] if it["tid"] not in finished]
        pending.insert(0, {"items": rest, "skip": skip, "n": job["n"], "gen": job["gen"] + 1})
    return [traces[k] for k in sorted(traces)], crashes


# ---------------------------------------------------------------------------------- validation
def _validate_file(args):
    path, wd = args
    cfgp = C.write_cfg(path + ".cfg", {"Bug": "none"})
    res = C.run_tlc("TraceFlux2", cfgp, wd, workers=4, env={"TRACE_FILE": path}, timeout=3000, heap="3g")
    return {"printed": res["printed"], "distinct": res["distinct"], "generated": res["generated"], "cmd": res["cmd"]}


def validate(traces, wd, tag, max_events=6000):
    files, cur, n = [], [], 0
    for t in traces:
        cur.append(t)
        n += len(t["events"])
        if n >= max_events:
            files.append(cur)
            cur, n = [], 0
    if cur:
        files.append(cur)
    jobs = []
    for i, batch in enumerate(files):
        path = os.path.join(wd, "batch_%s_%d.json" % (tag, i))
        with open(path, "w") as fh:
            json.dump(batch, fh)
        jobs.append((path, wd))
    verdicts, distinct, cmd = [], 0, ""
    if jobs:
        with mp.get_context("fork").Pool(min(len(jobs), max(1, C.NCPU // 4))) as pool:
            for r in pool.imap_unordered(_validate_file, jobs):
                verdicts.extend(r["printed"])
                distinct += r["distinct"]
                cmd = r["cmd"]
    expected = sum(len(t["events"]) + 1 for t in traces)
    if distinct != expected:
        raise C.Machinery("trace validation consumed %d states, expected %d (%s)" % (distinct, expected, tag))
    return verdicts, cmd


# ---------------------------------------------------------------------------------- run
def _items_for(prop, tier, insts_by_family):
    """(tid, instance, palette): the default palette on everything, the exact solver / awkward ids on
    every k-th instance."""
    T = TIERS[prop][tier]
    items = []
    tid = 0
    for fi, insts in enumerate(insts_by_family):
        for ii, inst in enumerate(insts):
            tid += 1
            items.append({"tid": tid, "inst": inst, "pal": PALETTES[0], "fam": fi, "idx": ii})
            if T.get("exact_every") and ii % T["exact_every"] == 0:
                tid += 1
                items.append({"tid": tid, "inst": inst, "pal": PALETTES[1], "fam": fi, "idx": ii})
    return items


def _report_verdicts(rep, prop, verdicts, traces, items):
    by_tid = {t["tid"]: t for t in traces}
    item_by_tid = {it["tid"]: it for it in items}
    counts = {"MISMATCH": 0, "UNDECIDED": 0, "OUTSCOPE": 0}
    for v in verdicts:
        counts[v["verdict"]] = counts.get(v["verdict"], 0) + 1
        if v["verdict"] != "MISMATCH":
            continue
        it = item_by_tid[v["tid"]]
        t = by_tid[v["tid"]]
        v2 = dict(v)
        v2["spec"] = "Flux2"
        v2["palette"] = it["pal"]["name"]
        v2["event"] = t["events"][v["l"] - 1]
        rep.verdict(v2, {"engine": "flux2", "prop": prop, "palette": it["pal"]["name"], "instance": it["inst"]})
    return counts


def run(prop, tier, replay=None):
    if prop not in TIERS:
        raise C.Machinery("flux2 engine: property %s is not built" % prop)
    rep = C.Report(prop, tier)
    wd = C.workdir("flux2_%s_%s" % (prop, tier))
    rep.cleanup.append(wd)
    if replay is not None:
        return _replay(rep, wd, prop, replay)
    sd = C.seed()
    T = TIERS[prop][tier]
    t0 = time.time()
    controls = design_check(prop, tier, wd, rep)
    t1 = time.time()
    fams, gen_cov = [], []
    for fam in T["families"]:
        insts, stats = generate(prop, fam, sd, wd)
        fams.append(insts)
        gen_cov.append({"family": fam, "instances": len(insts), "tlc_states": stats["distinct"],
                        "tlc_wall_s": stats["wall_s"], "constants": stats["constants"]})
    t2 = time.time()
    items = _items_for(prop, tier, fams)
    nproc = max(2, min(C.NCPU - 2, 14))
    traces, crashes = drive_all(prop, items, wd, nproc, chunk_timeout=600 if tier == "thorough" else 100)
    t3 = time.time()
    verdicts, cmd = validate(traces, wd, prop)
    t4 = time.time()
    counts = _report_verdicts(rep, prop, verdicts, traces, items)
    per_action = {}
    nevents = 0
    outcomes = {}
    distinct_cases = set()
    for t in traces:
        for e in t["events"]:
            nevents += 1
            per_action[e["k"]] = per_action.get(e["k"], 0) + 1
            outcomes[e["outcome"]] = outcomes.get(e["outcome"], 0) + 1
            distinct_cases.add(hash(json.dumps([t["M"], {k: e[k] for k in e if k not in
                                                         ("outcome", "status", "objk", "obj", "v")}], sort_keys=True)))
    missing = [k for k in ACTIONS[prop] if not per_action.get(k)]
    if missing:
        raise C.Machinery("vacuity: actions never exercised: %s" % missing)
    if nevents and counts["UNDECIDED"] + counts["OUTSCOPE"] > 0.25 * nevents:
        raise C.Machinery("vacuity: %d of %d events undecided or out of scope" % (
            counts["UNDECIDED"] + counts["OUTSCOPE"], nevents))
    rep.coverage["behaviour_generation"] = gen_cov
    rep.coverage["trace_checker_cmd"] = cmd
    rep.coverage["samples"] = [traces[len(traces) // 3], traces[(2 * len(traces)) // 3]] if traces else []
    rep.coverage["exhaustive"] = True
    rep.coverage["phase_wall_s"] = {"design": round(t1 - t0, 1), "generate": round(t2 - t1, 1),
                                    "drive": round(t3 - t2, 1), "validate": round(t4 - t3, 1)}
    rep.assumptions = ASSUMPTIONS[prop]
    return rep.finish({
        "traces_validated_against_impl": len(traces), "events_validated": nevents,
        "per_action_counts": per_action, "negative_controls": controls,
        "distinct_pre_state_action_pairs": len(distinct_cases),
        "rule": "a case is a distinct (instance, call, arguments) triple; the same triple under another palette "
                "(solver / id spelling) is not counted again",
        "verdict_counts": counts, "outcomes": outcomes, "worker_crashes": crashes[:20],
    })


ASSUMPTIONS = {
    "C09": [
        "exhaustive within the constants of the `full` family (every in-scope instance with 2 metabolites, 3 "
        "reactions, the bound palette, every objective reaction, every single knock-out); the `rand` families are samples",
        "the integer lattice is the LP/MILP optimum on unit-network instances with integer bounds (total "
        "unimodularity; separable convex objectives with integer breakpoints; binaries fixed => bound-type) -- "
        "stated in Flux2Ops.tla / FluxLatticeOps.tla, Decidable_* guards every numeric clause",
        "references are optimal lattice points of the model before knock-out chosen by the specification; default "
        "references (pFBA of the same model state) only pin the optimum 0",
        "ROOM with the default delta/epsilon is bracketed by the integer bands, not pinned; quadratic MOMA not reached",
        "solver outputs compared with tolerance 1e-6 absolute",
    ],
}


def _replay(rep, wd, prop, payload):
    r = payload["replay"]
    pal = [p for p in PALETTES if p["name"] == r["palette"]][0]
    items = [{"tid": 1, "inst": r["instance"], "pal": pal, "fam": 0, "idx": 0}]
    traces, crashes = drive_all(prop, items, wd, 1, chunk_timeout=300)
    verdicts, cmd = validate(traces, wd, "replay")
    _report_verdicts(rep, prop, verdicts, traces, items)
    rep.coverage["states"] = rep.coverage["transitions"] = 1
    rep.coverage["samples"] = traces[:1]
    return rep.finish({"traces_validated_against_impl": 1, "events_validated": len(traces[0]["events"])})
