"""Engine `flux2` (properties C09, C06, C18, C20): Flux2.tla / TraceFlux2.tla <-> cobra's
secondary analyses (pFBA, linear MOMA, ROOM, deletions, medium, summaries).

1. design check: TLC checks the design theorems of Flux2.tla (the formulation cobrapy builds
   has the documented optimum, sanity relations between the oracles) on every instance of the
   small family + negative controls (`Bug`) that TLC must reject;
2. instances: TLC emits (a) every in-scope instance of the small family and (b) seeded LCG-drawn
   larger instances, each with the list of calls (arguments, knock-out states, reference
   solutions chosen by the specification) as JSON;
3. driver: every call is made on a REAL cobra model (forked workers; a worker killed by native
   code records `crash:<signal>` for the call in flight and the batch resumes after it) and
   the returned numbers are recorded as fixed-point integers;
4. TLC (TraceFlux2) recomputes the expected values on the integer lattice and prints one verdict
   line per mismatching clause set.
"""
import hashlib
import json
import math
import multiprocessing as mp
import os
import signal
import sys
import time
import traceback
import warnings

from . import common as C

RESULT_FIELDS = ("outcome", "status", "objk", "obj", "v", "rows", "accessor", "ess", "lb", "ub", "med", "none", "cols",
                 "suff", "plus", "minus", "fluxk", "flux", "lo", "hi", "rendered", "rexc")
INF = 1000000
SCALE = 10 ** 6
BIG = 1999                      # |value| must stay below 2000 (fixed point in 32 bits)

PALETTES = [
    {"name": "glpk", "solver": "glpk", "rx": "{}", "mx": "{}", "gx": "{}"},
    {"name": "exact-awkward", "solver": "glpk_exact", "rx": "R.{}-x", "mx": "2{}[m]", "gx": "{}.1"},
]

# ---------------------------------------------------------------------------------- tiers
# families: constants of Flux2.tla; "rand" families take Seed from VERIF_SEED
TIERS = {
    "C09": {
        "quick": {
            "design": {"Mode": "full", "NMets": 2, "NRxns": 3, "Pal": "PalS", "Dirs": "DirsMax"},
            "controls": 1,
            "families": [
                {"Mode": "full", "NMets": 2, "NRxns": 3, "Pal": "PalS", "Dirs": "DirsMax"},
                {"Mode": "rand", "NMets": 3, "NRxns": 5, "Pal": "PalB", "Dirs": "DirsMax", "NWalks": 200},
                {"Mode": "rand", "NMets": 2, "NRxns": 4, "Pal": "PalInf", "Dirs": "DirsMax", "NWalks": 80},
            ],
            "exact_every": 8,
        },
        "thorough": {
            "design": {"Mode": "full", "NMets": 2, "NRxns": 3, "Pal": "PalA", "Dirs": "DirsBoth"},
            "controls": 99,
            "families": [
                {"Mode": "full", "NMets": 2, "NRxns": 3, "Pal": "PalA", "Dirs": "DirsBoth"},
                {"Mode": "rand", "NMets": 3, "NRxns": 5, "Pal": "PalB", "Dirs": "DirsMax", "NWalks": 4500},
                {"Mode": "rand", "NMets": 3, "NRxns": 6, "Pal": "PalA", "Dirs": "DirsMax", "NWalks": 1000},
                {"Mode": "rand", "NMets": 2, "NRxns": 4, "Pal": "PalInf", "Dirs": "DirsMax", "NWalks": 2000},
            ],
            "exact_every": 3,
        },
    },
}
TIERS["C06"] = {
    "quick": {
        "design": {"Mode": "full", "NMets": 2, "NRxns": 3, "Pal": "PalS", "Dirs": "DirsMax"},
        "controls": 1,
        "families": [
            {"Mode": "full", "NMets": 2, "NRxns": 3, "Pal": "PalS", "Dirs": "DirsMax"},
            {"Mode": "rand", "NMets": 3, "NRxns": 5, "Pal": "PalB", "Dirs": "DirsMax", "NWalks": 150},
            {"Mode": "rand", "NMets": 2, "NRxns": 4, "Pal": "PalInf", "Dirs": "DirsMax", "NWalks": 60},
        ],
        "exact_every": 8,
    },
    "thorough": {
        "design": {"Mode": "full", "NMets": 2, "NRxns": 3, "Pal": "PalA", "Dirs": "DirsBoth"},
        "controls": 99,
        "families": [
            {"Mode": "full", "NMets": 2, "NRxns": 3, "Pal": "PalA", "Dirs": "DirsBoth"},
            {"Mode": "rand", "NMets": 3, "NRxns": 5, "Pal": "PalB", "Dirs": "DirsMax", "NWalks": 2500},
            {"Mode": "rand", "NMets": 3, "NRxns": 6, "Pal": "PalA", "Dirs": "DirsMax", "NWalks": 700},
            {"Mode": "rand", "NMets": 2, "NRxns": 4, "Pal": "PalInf", "Dirs": "DirsMax", "NWalks": 1000},
        ],
        "exact_every": 4,
    },
}
TIERS["C18"] = {
    "quick": {
        "design": {"Mode": "full", "NMets": 2, "NRxns": 3, "Pal": "PalS", "Dirs": "DirsMax"},
        "controls": 1,
        "families": [
            {"Mode": "full", "NMets": 2, "NRxns": 3, "Pal": "PalS", "Dirs": "DirsMax"},
            {"Mode": "rand", "NMets": 3, "NRxns": 5, "Pal": "PalMed", "Dirs": "DirsMax", "NWalks": 200},
            {"Mode": "rand", "NMets": 2, "NRxns": 4, "Pal": "PalInf", "Dirs": "DirsMax", "NWalks": 60},
        ],
        "exact_every": 0,
    },
    "thorough": {
        "design": {"Mode": "full", "NMets": 2, "NRxns": 3, "Pal": "PalMed", "Dirs": "DirsMax"},
        "controls": 99,
        "families": [
            {"Mode": "full", "NMets": 2, "NRxns": 3, "Pal": "PalMed", "Dirs": "DirsMax"},
            {"Mode": "rand", "NMets": 2, "NRxns": 4, "Pal": "PalS", "Dirs": "DirsMax", "NWalks": 1500},
            {"Mode": "rand", "NMets": 3, "NRxns": 5, "Pal": "PalMed", "Dirs": "DirsMax", "NWalks": 3000},
            {"Mode": "rand", "NMets": 3, "NRxns": 6, "Pal": "PalS", "Dirs": "DirsMax", "NWalks": 1000},
            {"Mode": "rand", "NMets": 2, "NRxns": 4, "Pal": "PalInf", "Dirs": "DirsMax", "NWalks": 500},
        ],
        "exact_every": 0,
    },
}
TIERS["C20"] = {
    "quick": {
        "design": {"Mode": "full", "NMets": 2, "NRxns": 3, "Pal": "PalS", "Dirs": "DirsMax"},
        "controls": 1,
        "families": [
            {"Mode": "full", "NMets": 2, "NRxns": 3, "Pal": "PalS", "Dirs": "DirsMax"},
            {"Mode": "rand", "NMets": 3, "NRxns": 5, "Pal": "PalB", "Dirs": "DirsMax", "NWalks": 50},
        ],
        "exact_every": 0,
    },
    "thorough": {
        "design": {"Mode": "full", "NMets": 2, "NRxns": 3, "Pal": "PalA", "Dirs": "DirsBoth"},
        "controls": 99,
        "families": [
            {"Mode": "full", "NMets": 2, "NRxns": 3, "Pal": "PalA", "Dirs": "DirsBoth"},
            {"Mode": "rand", "NMets": 3, "NRxns": 5, "Pal": "PalB", "Dirs": "DirsMax", "NWalks": 1800},
        ],
        "exact_every": 0,
    },
}
THEOREMS = {
    "C09": ["ThmPfbaFormulation", "ThmPfbaMonotone", "ThmMomaFormulation", "ThmRoomFormulation", "ThmAdjustSanity",
            "ThmRefsInScope"],
    "C06": ["ThmGeneKOProtocol", "ThmGeneDeletionPrior", "ThmRuleEval", "ThmCombinations", "ThmEssential"],
    "C18": ["ThmMediumInverse", "ThmMinMedium"],
    "C20": ["ThmSummary", "ThmSummaryObjective"],
}
CONTROLS = {      # Bug -> the theorem TLC must reject
    "C09": [("pfba_forward_only", "ThmPfbaFormulation"), ("room_no_abs", "ThmRoomFormulation"),
            ("moma_difference_sign", "ThmMomaFormulation")],
    "C06": [("rule_and_as_any", "ThmRuleEval"), ("gene_ko_zeroes_all_associated", "ThmGeneKOProtocol"),
            ("combinations_drop_diagonal", "ThmCombinations"),
            ("gene_deletion_ignores_prior", "ThmGeneDeletionPrior")],
    "C18": [("medium_is_export_inverted", "ThmMediumInverse"), ("components_counts_exports", "ThmMinMedium")],
    "C20": [("summary_no_minmax_swap", "ThmSummary"), ("summary_trusts_objective_value", "ThmSummaryObjective")],
}
ACTIONS = {
    "C09": ["pfba", "moma", "room", "linroom", "roomdef"],
    "C06": ["srd", "sgd", "drd", "dgd", "ess_r", "ess_g"],
    "C18": ["getmed", "setmed", "setcur", "minmed"],
    "C20": ["model", "met", "rxn"],
}
SPEC_MODULES = ("FluxLatticeOps", "Flux2Ops", "Flux2")


def _consts(prop, fam, sd, emit, bug="none"):
    consts = {"Prop": prop, "Mode": fam["Mode"], "NMets": fam["NMets"], "NRxns": fam["NRxns"],
              "NWalks": fam.get("NWalks", 1), "Seed": (sd % 60000) if fam["Mode"] == "rand" else 0,
              "Emit": emit, "Bug": bug}
    subst = {"Pal": fam["Pal"], "Dirs": fam["Dirs"]}
    return consts, subst


# ---------------------------------------------------------------------------------- TLC: design, generation
def design_check(prop, tier, wd, rep):
    T = TIERS[prop][tier]
    consts, subst = _consts(prop, T["design"], 0, emit=False)
    cfg = C.write_cfg(os.path.join(wd, "design.cfg"), consts, subst, invariants=THEOREMS[prop], constraints=["Constr"])
    res = C.run_tlc("Flux2", cfg, wd, timeout=1500)
    rep.add_design(res)
    controls = {}
    todo = CONTROLS[prop]
    if T["controls"] < len(todo):
        k = C.seed() % len(todo)
        todo = [todo[(k + i) % len(todo)] for i in range(T["controls"])]
    for bug, thm in todo:
        consts, subst = _consts(prop, T["design"], 0, emit=False, bug=bug)
        cfgp = C.write_cfg(os.path.join(wd, "neg_%s.cfg" % bug), consts, subst, invariants=[thm], constraints=["Constr"])
        r = C.run_tlc("Flux2", cfgp, wd, timeout=900, expect_violation=True)
        controls[bug] = r["error"]
        if r["error"] != "invariant:" + thm:
            raise C.Machinery("negative control %s was NOT rejected by TLC (%r): the design check is vacuous"
                              % (bug, r["error"]))
    return controls


def generate(prop, fam, sd, wd):
    consts, subst = _consts(prop, fam, sd, emit=True)
    key = C.spec_hash(*SPEC_MODULES) + "_" + hashlib.sha256(
        json.dumps([consts, subst], sort_keys=True).encode()).hexdigest()[:16]
    cpath = os.path.join(C.CACHE, "flux2", key + ".json")
    if os.path.exists(cpath):
        try:
            with open(cpath) as fh:
                data = json.load(fh)
            return data["instances"], data["stats"]
        except ValueError:
            pass
    cfgp = C.write_cfg(os.path.join(wd, "gen_%s.cfg" % key), consts, subst, constraints=["Constr"])
    res = C.run_tlc("Flux2", cfgp, wd, timeout=2400)
    insts = res["printed"]
    # TLC workers print in any order: fix the order (same seed => same run)
    insts.sort(key=lambda d: json.dumps(d, sort_keys=True))
    stats = {"generated": res["generated"], "distinct": res["distinct"], "cmd": res["cmd"],
             "wall_s": round(res["wall_s"], 1), "constants": consts, "subst": subst}
    os.makedirs(os.path.dirname(cpath), exist_ok=True)
    tmp = cpath + ".tmp%d" % os.getpid()
    with open(tmp, "w") as fh:
        json.dump({"instances": insts, "stats": stats}, fh)
    os.replace(tmp, cpath)
    return insts, stats


# ---------------------------------------------------------------------------------- driver helpers (in workers)
def fx(x):
    """float -> (kind, fixed point int).  kind: 'num', 'nan' (None / nan / inf / too large)."""
    try:
        x = float(x)
    except (TypeError, ValueError):
        return "nan", 0
    if math.isnan(x) or math.isinf(x) or abs(x) > BIG:
        return "nan", 0
    return "num", int(round(x * SCALE))


def build_model(M, pal, extra=None):
    import cobra
    model = cobra.Model("m")
    model.solver = pal["solver"]
    mets = [cobra.Metabolite(pal["mx"].format(x), compartment=(M.get("comp") or ["c"] * len(M["mets"]))[i])
            for i, x in enumerate(M["mets"])]
    rxns = []
    for i, rid in enumerate(M["rxns"]):
        r = cobra.Reaction(pal["rx"].format(rid))
        lb, ub = M["lb"][i], M["ub"][i]
        r.bounds = (-math.inf if lb <= -INF else lb, math.inf if ub >= INF else ub)
        r.add_metabolites({mets[j]: M["S"][i][j] for j in range(len(mets)) if M["S"][i][j]})
        rxns.append(r)
    model.add_reactions(rxns)
    if M.get("rules"):
        for i, rule in enumerate(M["rules"]):
            if rule:
                rxns[i].gene_reaction_rule = rule
    model.objective = {rxns[i]: M["c"][i] for i in range(len(rxns)) if M["c"][i]}
    model.objective_direction = M["dir"]
    return model, rxns, mets


class Recorder:
    """Writes a `begin` marker before every call (so that the parent knows which call was in
    flight when native code killed the worker) and answers with the recorded crash outcome
    when the call is one that killed an earlier worker."""

    def __init__(self, fh, tid, skip):
        self.fh, self.tid, self.skip = fh, tid, skip

    def begin(self, j):
        key = "%d:%d" % (self.tid, j)
        if key in self.skip:
            return self.skip[key]
        self.fh.write(json.dumps({"begin": [self.tid, j]}) + "\n")
        self.fh.flush()
        return None


def _solution_fields(sol, ids, sub):
    kind, obj = fx(sol.objective_value)
    v = []
    ok = True
    for i, rid in enumerate(ids):
        if sub[i]:
            k2, val = fx(sol.fluxes[rid])
            ok = ok and k2 == "num"
            v.append(val)
        else:
            v.append(0)
    return {"status": str(sol.status), "objk": kind if ok else "nan", "obj": obj, "v": v}


def drive_c09(item, rec):
    import cobra
    import pandas as pd
    from cobra.flux_analysis import moma, pfba, room
    inst, pal = item["inst"], item["pal"]
    M = inst["M"]
    n = len(M["rxns"])
    model, rxns, mets = build_model(M, pal)
    ids = [r.id for r in rxns]
    events = []
    for j, cl in enumerate(inst["calls"]):
        if pal["solver"] == "glpk_exact" and cl["k"] in ("room", "roomdef"):
            continue        # the exact solver refuses MILPs by design
        ev = dict(cl)
        ev.update({"outcome": "ok", "status": "none", "objk": "nan", "obj": 0, "v": [0] * n})
        crash = rec.begin(j)
        if crash:
            ev["outcome"] = crash
            events.append(ev)
            continue
        try:
            with model:
                for r in range(n):
                    if cl["ko"][r]:
                        rxns[r].knock_out()
                ref = None
                if cl["refgiven"]:
                    ref = cobra.Solution(float(cl["refobj"]), "optimal",
                                         fluxes=pd.Series([float(x) for x in cl["ref"]], index=ids))
                k = cl["k"]
                if k == "pfba":
                    kw = {"fraction_of_optimum": cl["num"] / cl["den"]}
                    if cl.get("hist", "none") == "fixobj":
                        # history: the old objective was fixed as a constraint, then the objective was
                        # edited in place (same objective object, same constraint name)
                        from cobra.util.solver import fix_objective_as_constraint
                        fix_objective_as_constraint(model)
                        for r in range(n):
                            rxns[r].objective_coefficient = cl["objc"][r]
                    elif cl["useobj"]:
                        kw["objective"] = {rxns[r]: cl["objc"][r] for r in range(n) if cl["objc"][r]}
                    if not all(cl["sub"]):
                        sel = [rxns[r] if (r + j) % 2 else ids[r] for r in range(n) if cl["sub"][r]]
                        kw["reactions"] = sel
                    sol = pfba(model, **kw)
                elif k == "moma":
                    sol = moma(model, solution=ref, linear=True)
                elif k == "room":
                    sol = room(model, solution=ref, linear=False, delta=cl["delta"], epsilon=cl["eps"])
                elif k == "roomdef":
                    sol = room(model, solution=ref)
                elif k == "linroom":
                    sol = room(model, solution=ref, linear=True)
                else:
                    raise C.Machinery("unknown call %r" % (k,))
            ev.update(_solution_fields(sol, ids, cl["sub"]))
        except C.Machinery:
            raise
        except Exception as e:              # the outcome of the call under test
            ev["outcome"] = "exc:" + type(e).__name__
        events.append(ev)
    return {"tid": item["tid"], "prop": "C09", "M": M, "events": events}


def _gene_text(text, M, pal):
    import re
    return re.sub(r"\bg(\d)\b", lambda m: pal["gx"].format("g" + m.group(1)), text)


def drive_c06(item, rec):
    import contextlib
    import cobra
    import pandas as pd
    from cobra.flux_analysis import (double_gene_deletion, double_reaction_deletion, find_essential_genes,
                                     find_essential_reactions, single_gene_deletion, single_reaction_deletion)
    inst, pal = item["inst"], item["pal"]
    MB = dict(inst["M"])
    MB["rules"] = [_gene_text(t, MB, pal) for t in inst["M"]["ruletext"]]
    M = inst["M"]

    def fresh():
        model, rxns, mets = build_model(MB, pal)
        genes = [model.genes.get_by_id(pal["gx"].format(g)) for g in M["genes"]]
        if len(model.genes) != len(genes):
            raise C.Machinery("gene list of the built model differs from the instance")
        return model, rxns, genes

    def rewritten():
        """the same model reached through history: richer rules ("(rule) or gX"), a complete gene deletion on them,
        then remove_genes(model, [gX], remove_reactions=False) rewrites every rule in place"""
        from cobra.manipulation import remove_genes
        MB2 = dict(MB)
        gx = pal["gx"].format("gX")
        MB2["rules"] = [("(%s) or %s" % (t, gx)) if t else t for t in MB["rules"]]
        model, rxns, mets = build_model(MB2, pal)
        single_gene_deletion(model, processes=1)
        remove_genes(model, [gx], remove_reactions=False)
        genes = [model.genes.get_by_id(pal["gx"].format(g)) for g in M["genes"]]
        if len(model.genes) != len(genes):
            raise C.Machinery("gene list of the rewritten model differs from the instance")
        return model, rxns, genes

    shared = fresh()
    events = []
    for j, cl in enumerate(inst["calls"]):
        ev = dict(cl)
        ev.update({"outcome": "ok", "rows": [], "accessor": True, "ess": []})
        crash = rec.begin(j)
        if crash:
            ev["outcome"] = crash
            events.append(ev)
            continue
        k = cl["k"]
        isr = k in ("srd", "drd", "ess_r")
        # calls from a prior knock-out state get their own model object (the state may be permanent)
        model, rxns, genes = shared if cl["pmode"] == "none" else (rewritten() if cl["pmode"] == "rewritten" else fresh())
        ids = [r.id for r in rxns]
        rpos = {r.id: i + 1 for i, r in enumerate(rxns)}
        gpos = {g.id: i + 1 for i, g in enumerate(genes)}
        pool, pos = (rxns, rpos) if isr else (genes, gpos)

        def mk(lst):
            return [pool[i - 1] if cl["byobj"] else pool[i - 1].id for i in lst]
        try:
            with (model if cl["pctx"] else contextlib.nullcontext()):
                for g in cl["prior"]:
                    if cl["pmode"] == "ko":
                        genes[g - 1].knock_out()
                    elif cl["pmode"] == "flag":
                        genes[g - 1].functional = False
                if k in ("ess_r", "ess_g"):
                    thr = None if cl["tdefault"] else cl["tnum"] / cl["tden"]
                    fn = find_essential_reactions if isr else find_essential_genes
                    res = fn(model, threshold=thr, processes=1)
                    ev["ess"] = sorted(pos.get(x.id, 0) for x in res)
                else:
                    kw = {"method": "fba" if cl["method"] == "fba" else "linear moma", "processes": 1}
                    if cl["refgiven"]:
                        kw["solution"] = cobra.Solution(float(cl["refobj"]), "optimal",
                                                        fluxes=pd.Series([float(x) for x in cl["ref"]], index=ids))
                    a = mk(cl["l1"]) if cl["l1given"] else None
                    b = mk(cl["l2"]) if cl["l2given"] else None
                    if k == "srd":
                        df = single_reaction_deletion(model, a, **kw)
                    elif k == "sgd":
                        df = single_gene_deletion(model, a, **kw)
                    elif k == "drd":
                        df = double_reaction_deletion(model, a, b, **kw)
                    elif k == "dgd":
                        df = double_gene_deletion(model, a, b, **kw)
                    else:
                        raise C.Machinery("unknown call %r" % (k,))
                    rows = []
                    acc = True
                    for _, row in df.iterrows():
                        gk, g = fx(row["growth"])
                        rows.append({"ids": sorted(pos.get(x, 0) for x in row["ids"]), "gk": gk, "growth": g,
                                     "status": str(row["status"])})
                        try:
                            sub = df.knockout[set(row["ids"])]
                            same = len(sub) >= 1 and all(set(x) == set(row["ids"]) for x in sub["ids"])
                            n_same = sum(1 for x in df["ids"] if set(x) == set(row["ids"]))
                            acc = acc and same and len(sub) == n_same
                        except Exception:
                            acc = False
                    rows.sort(key=lambda r: r["ids"])
                    ev["rows"], ev["accessor"] = rows, bool(acc)
        except C.Machinery:
            raise
        except Exception as e:
            ev["outcome"] = "exc:" + type(e).__name__
        events.append(ev)
    return {"tid": item["tid"], "prop": "C06", "M": M, "events": events}


def _tok(x):
    """a bound / medium value as an integer token (the instances only have integer bounds)"""
    x = float(x)
    if math.isinf(x):
        return INF if x > 0 else -INF
    if x != int(x) or abs(x) >= INF:
        raise C.Machinery("non-integer bound %r in a medium trace" % (x,))
    return int(x)


def drive_c18(item, rec):
    import cobra
    from cobra.medium import minimal_medium
    inst, pal = item["inst"], item["pal"]
    M = inst["M"]
    n = len(M["rxns"])
    model, rxns, mets = build_model(M, pal)
    ids = [r.id for r in rxns]
    pos = {r.id: i for i, r in enumerate(rxns)}
    S = M["S"]
    exch = [i for i in range(n) if sum(1 for x in S[i] if x) == 1
            and M["comp"][[j for j, x in enumerate(S[i]) if x][0]] == "e"]
    if sorted(pos[r.id] for r in model.exchanges) != exch:
        raise C.Machinery("exchange set of the built model differs from the instance: %s vs %s"
                          % (sorted(r.id for r in model.exchanges), exch))
    events = []

    def observe(m, rs):
        med = [-1] * n
        for k, v in m.medium.items():
            med[pos[k]] = _tok(v)
        return {"lb": [_tok(r.lower_bound) for r in rs], "ub": [_tok(r.upper_bound) for r in rs], "med": med}

    for j, cl in enumerate(inst["calls"]):
        ev = dict(cl)
        ev.update({"outcome": "ok", "lb": list(M["lb"]), "ub": list(M["ub"]), "med": [-1] * n, "none": False,
                   "cols": [], "suff": []})
        crash = rec.begin(j)
        if crash:
            ev["outcome"] = crash
            events.append(ev)
            continue
        k = cl["k"]
        try:
            if k == "getmed":
                ev.update(observe(model, rxns))
            elif k in ("setmed", "setcur"):
                try:
                    if k == "setcur":
                        model.medium = model.medium
                    else:
                        model.medium = {ids[r]: cl["d"][r] for r in range(n) if cl["d"][r] != -1}
                finally:
                    ev.update(observe(model, rxns))
            elif k == "minmed":
                fresh, frx, _ = build_model(M, pal)
                op = True if cl["opentrue"] else (cl["open"] if cl["open"] else False)
                mc = False if cl["mc"] == 0 else (True if cl["mc"] == 1 else cl["mc"])
                if cl.get("hist") == "flipped":
                    # the same model object reached through history: every exchange written the other way round, one
                    # (unjudged) call, every exchange flipped back in place
                    exs = list(fresh.exchanges)
                    for r in exs:
                        r *= -1
                    try:
                        minimal_medium(fresh, cl["g"], exports=cl["exports"], minimize_components=mc, open_exchanges=op)
                    except Exception:
                        pass
                    for r in exs:
                        r *= -1
                res = minimal_medium(fresh, cl["g"], exports=cl["exports"], minimize_components=mc, open_exchanges=op)
                if res is None:
                    ev["none"] = True
                else:
                    cols = [res] if res.ndim == 1 else [res[c] for c in res.columns]
                    for col in cols:
                        vec = [0] * n
                        for rid, val in col.items():
                            kind, f = fx(val)
                            if kind != "num":
                                raise C.Machinery("non-numeric medium entry %r" % (val,))
                            vec[pos[rid]] = f
                        ev["cols"].append(vec)
                        # sufficiency: apply as medium to a copy (with the same opening) and maximise
                        chk, crx, _ = build_model(M, pal)
                        if op:
                            ob = 1000 if op is True else op
                            for r in chk.exchanges:
                                r.bounds = (-ob, ob)
                        chk.medium = {rid: float(val) for rid, val in col.items() if val > 0}
                        chk.objective_direction = "max"
                        val = chk.slim_optimize()
                        st = chk.solver.status
                        if st == "optimal":
                            kind, f = fx(val)
                            ev["suff"].append({"sk": kind if kind == "num" else "unb", "sv": f})
                        elif st == "unbounded":
                            ev["suff"].append({"sk": "unb", "sv": 0})
                        else:
                            ev["suff"].append({"sk": "inf", "sv": 0})
            else:
                raise C.Machinery("unknown call %r" % (k,))
        except C.Machinery:
            raise
        except Exception as e:
            ev["outcome"] = "exc:" + type(e).__name__
        events.append(ev)
    return {"tid": item["tid"], "prop": "C18", "M": M, "events": events}


def _rows(frame, rpos, mpos, has_met, has_rng, has_pct):
    out = []
    for _, row in frame.iterrows():
        k, f = fx(row["flux"])
        if k != "num":
            raise C.Machinery("non-numeric summary flux %r" % (row["flux"],))
        lo = hi = 0
        if has_rng:
            k1, lo = fx(row["minimum"])
            k2, hi = fx(row["maximum"])
            if k1 != "num" or k2 != "num":
                lo = hi = -1999 * SCALE
        pk, pct = ("none", 0)
        if has_pct:
            pk, pct = fx(row["percent"])
        out.append({"rxn": rpos.get(row["reaction"], 0), "met": mpos.get(row["metabolite"], 0) if has_met else 0,
                    "flux": f, "lo": lo, "hi": hi, "pk": pk, "pct": pct})
    out.sort(key=lambda r: r["rxn"])
    return out


def drive_c20(item, rec):
    import cobra
    import pandas as pd
    cobra.Configuration().processes = 1
    inst, pal = item["inst"], item["pal"]
    models = {}
    events = []
    for j, cl in enumerate(inst["calls"]):
        M = inst["MS"] if cl["scaled"] else inst["M"]
        key = bool(cl["scaled"])
        if key not in models:
            models[key] = build_model(M, pal)
        model, rxns, mets = models[key]
        n = len(rxns)
        ids = [r.id for r in rxns]
        rpos = {r.id: i + 1 for i, r in enumerate(rxns)}
        mpos = {m.id: i + 1 for i, m in enumerate(mets)}
        ev = dict(cl)
        ev.update({"outcome": "ok", "plus": [], "minus": [], "objk": "nan", "obj": 0, "fluxk": "nan", "flux": 0,
                   "lo": 0, "hi": 0, "rendered": True, "rexc": "none"})
        crash = rec.begin(j)
        if crash:
            ev["outcome"] = crash
            events.append(ev)
            continue
        try:
            sol = None
            if cl["solgiven"]:
                sol = cobra.Solution(float(sum(a * b for a, b in zip(M["c"], cl["sol"]))), "optimal",
                                     fluxes=pd.Series([float(x) for x in cl["sol"]], index=ids))
            fva = None
            if cl["fvak"] == "float":
                fva = cl["fnum"] / cl["fden"]
            elif cl["fvak"] == "frame":
                fva = pd.DataFrame({"minimum": [float(a) for a, b in cl["frame"]],
                                    "maximum": [float(b) for a, b in cl["frame"]]}, index=ids)
                if cl.get("fsub"):      # rows for a subset of the reactions only
                    fva = fva.loc[[ids[i] for i in range(n) if cl["fsub"][i]]]
            has_rng = fva is not None
            k = cl["k"]
            if cl["passpfba"]:
                from cobra.flux_analysis import pfba
                sol = pfba(model)           # objective_value of this Solution is the total flux
            if k == "model" and cl["stale"]:
                # the solution (objective_value = old objective) is older than the model's objective
                with model:
                    model.objective = {rxns[r]: cl["c2"][r] for r in range(n) if cl["c2"][r]}
                    s = model.summary(solution=sol, fva=fva)
            elif k == "model":
                s = model.summary(solution=sol, fva=fva)
            if k == "model":
                ev["plus"] = _rows(s.uptake_flux, rpos, mpos, True, has_rng, False)
                ev["minus"] = _rows(s.secretion_flux, rpos, mpos, True, has_rng, False)
                ev["objk"], ev["obj"] = fx(s._objective_value)
            elif k == "met":
                s = mets[cl["idx"] - 1].summary(solution=sol, fva=fva)
                ev["plus"] = _rows(s.producing_flux, rpos, mpos, False, has_rng, True)
                ev["minus"] = _rows(s.consuming_flux, rpos, mpos, False, has_rng, True)
            elif k == "rxn":
                s = rxns[cl["idx"] - 1].summary(solution=sol, fva=fva)
            else:
                raise C.Machinery("unknown call %r" % (k,))
            try:
                fr = s.to_frame()
                if k == "rxn":
                    ev["fluxk"], ev["flux"] = fx(fr["flux"].iloc[0])
                    if has_rng:
                        _, ev["lo"] = fx(fr["minimum"].iloc[0])
                        _, ev["hi"] = fx(fr["maximum"].iloc[0])
                if not isinstance(s.to_string(), str) or not isinstance(s.to_html(), str):
                    raise TypeError("not a string")
                if j % 6 == 0:
                    str(s)
                    s._repr_html_()
                    s.to_string(names=True)
            except Exception as e:                  # "renders without error" is a clause of the property
                ev["rendered"] = False
                ev["rexc"] = type(e).__name__
        except C.Machinery:
            raise
        except Exception as e:
            ev["outcome"] = "exc:" + type(e).__name__
        events.append(ev)
    return {"tid": item["tid"], "prop": "C20", "M": inst["M"], "MS": inst["MS"], "events": events}


DRIVERS = {"C09": drive_c09, "C06": drive_c06, "C18": drive_c18, "C20": drive_c20}


# ---------------------------------------------------------------------------------- forked workers
def _child_main(prop, chunk, path, skip):
    warnings.simplefilter("ignore")
    import logging
    logging.disable(logging.CRITICAL)
    try:
        with open(path, "a") as fh:
            for item in chunk:
                rec = Recorder(fh, item["tid"], skip)
                t = DRIVERS[prop](item, rec)
                fh.write(json.dumps({"trace": t}) + "\n")
                fh.flush()
    except BaseException:
        with open(path, "a") as fh:
            fh.write(json.dumps({"error": traceback.format_exc()}) + "\n")
        os._exit(3)
    os._exit(0)


def drive_all(prop, items, wd, nproc, chunk_timeout):
    """Run the driver over all items in forked workers.  Returns (traces sorted by tid, crashes)."""
    import cobra  # noqa: F401  (imported before forking: the children inherit it)
    import pandas  # noqa: F401
    per = max(4, min(60, len(items) // (nproc * 3) + 1))
    pending = [{"items": ch, "skip": {}, "n": i, "gen": 0} for i, ch in enumerate(C.chunks(items, per))]
    running = {}
    traces = {}
    crashes = []
    while pending or running:
        while pending and len(running) < nproc:
            job = pending.pop(0)
            path = os.path.join(wd, "drv_%d_%d.jsonl" % (job["n"], job["gen"]))
            sys.stdout.flush()
            pid = os.fork()
            if pid == 0:
                _child_main(prop, job["items"], path, job["skip"])
            running[pid] = (job, path, time.time())
        done = None
        for pid, (job, path, t0) in list(running.items()):
            r, status = os.waitpid(pid, os.WNOHANG)
            if r == pid:
                done = (pid, status, None)
                break
            if time.time() - t0 > chunk_timeout:
                os.kill(pid, signal.SIGKILL)
                os.waitpid(pid, 0)
                done = (pid, None, "timeout")
                break
        if done is None:
            time.sleep(0.02)
            continue
        pid, status, forced = done
        job, path, t0 = running.pop(pid)
        finished = set()
        last_begin = None
        err = None
        if os.path.exists(path):
            with open(path) as fh:
                for line in fh:
                    try:
                        d = json.loads(line)
                    except ValueError:
                        continue            # a line cut short by the crash
                    if "trace" in d:
                        traces[d["trace"]["tid"]] = d["trace"]
                        finished.add(d["trace"]["tid"])
                    elif "begin" in d:
                        last_begin = d["begin"]
                    elif "error" in d:
                        err = d["error"]
        if err is not None:
            raise C.Machinery("driver failed outside the API under test:\n%s" % err)
        if forced is None and os.WIFEXITED(status) and os.WEXITSTATUS(status) == 0:
            missing = [it["tid"] for it in job["items"] if it["tid"] not in finished]
            if missing:
                raise C.Machinery("driver worker exited without finishing traces %s" % missing[:5])
            continue
        # the worker died: name the call in flight and resume after it in a fresh worker
        if forced:
            what = "crash:" + forced
        elif os.WIFSIGNALED(status):
            try:
                what = "crash:" + signal.Signals(os.WTERMSIG(status)).name
            except ValueError:
                what = "crash:SIG%d" % os.WTERMSIG(status)
        else:
            what = "crash:exit%d" % os.WEXITSTATUS(status)
        if last_begin is None or last_begin[0] in finished:
            raise C.Machinery("driver worker died (%s) outside a recorded call" % what)
        if job["gen"] > 200:
            raise C.Machinery("driver worker keeps dying (%s)" % what)
        skip = dict(job["skip"])
        skip["%d:%d" % (last_begin[0], last_begin[1])] = what
        crashes.append({"tid": last_begin[0], "call": last_begin[1], "what": what})
        rest = [it for it in job["items"] if it["tid"] not in finished]
        pending.insert(0, {"items": rest, "skip": skip, "n": job["n"], "gen": job["gen"] + 1})
    return [traces[k] for k in sorted(traces)], crashes


# ---------------------------------------------------------------------------------- validation
def _validate_file(args):
    path, wd = args
    cfgp = C.write_cfg(path + ".cfg", {"Bug": "none"})
    res = C.run_tlc("TraceFlux2", cfgp, wd, workers=4, env={"TRACE_FILE": path}, timeout=3000, heap="3g")
    return {"printed": res["printed"], "distinct": res["distinct"], "generated": res["generated"], "cmd": res["cmd"]}


def validate(traces, wd, tag, max_events=6000):
    files, cur, n = [], [], 0
    for t in traces:
        cur.append(t)
        n += len(t["events"])
        if n >= max_events:
            files.append(cur)
            cur, n = [], 0
    if cur:
        files.append(cur)
    jobs = []
    for i, batch in enumerate(files):
        path = os.path.join(wd, "batch_%s_%d.json" % (tag, i))
        with open(path, "w") as fh:
            json.dump(batch, fh)
        jobs.append((path, wd))
    verdicts, distinct, cmd = [], 0, ""
    if jobs:
        with mp.get_context("fork").Pool(min(len(jobs), max(1, C.NCPU // 4))) as pool:
            for r in pool.imap_unordered(_validate_file, jobs):
                verdicts.extend(r["printed"])
                distinct += r["distinct"]
                cmd = r["cmd"]
    expected = sum(len(t["events"]) + 1 for t in traces)
    if distinct != expected:
        raise C.Machinery("trace validation consumed %d states, expected %d (%s)" % (distinct, expected, tag))
    return verdicts, cmd


# ---------------------------------------------------------------------------------- run
def _c09_call(k, ko, ref, refobj, **kw):
    n = len(ko)
    c = {"k": k, "ko": ko, "ref": ref, "refgiven": True, "refobj": refobj, "num": 1, "den": 1, "delta": 0, "eps": 0,
         "useobj": False, "objc": kw.pop("c"), "sub": [1] * n, "hist": "none"}
    c.update(kw)
    return c


# pinned, seed-independent witnesses of the open findings (driven first on every run, so the
# KNOWN-FINDING line does not depend on what the drawn families happen to contain)
_W50 = {"rxns": ["r1", "r2", "r3"], "mets": ["A"], "S": [[1], [-1], [-1]], "lb": [1, 0, 0], "ub": [2, 2, 2],
        "c": [0, 1, 0], "dir": "min"}
PINNED = {
    "C09": [{"M": _W50, "calls": [_c09_call("room", [0, 0, 1], [1, 0, 1], 0, c=[0, 1, 0]),
                                  _c09_call("linroom", [0, 0, 1], [1, 0, 1], 0, c=[0, 1, 0]),
                                  _c09_call("moma", [0, 0, 1], [1, 0, 1], 0, c=[0, 1, 0])]}],
}


def _items_for(prop, tier, insts_by_family):
    """(tid, instance, palette): the default palette on everything, the exact solver / awkward ids on
    every k-th instance."""
    T = TIERS[prop][tier]
    items = []
    tid = 0
    for ii, inst in enumerate(PINNED.get(prop, [])):
        tid += 1
        items.append({"tid": tid, "inst": inst, "pal": PALETTES[0], "fam": -1, "idx": ii})
    for fi, insts in enumerate(insts_by_family):
        for ii, inst in enumerate(insts):
            tid += 1
            items.append({"tid": tid, "inst": inst, "pal": PALETTES[0], "fam": fi, "idx": ii})
            if T.get("exact_every") and ii % T["exact_every"] == 0:
                tid += 1
                items.append({"tid": tid, "inst": inst, "pal": PALETTES[1], "fam": fi, "idx": ii})
    return items


def _report_verdicts(rep, prop, verdicts, traces, items):
    by_tid = {t["tid"]: t for t in traces}
    item_by_tid = {it["tid"]: it for it in items}
    counts = {"MISMATCH": 0, "UNDECIDED": 0, "OUTSCOPE": 0}
    for v in verdicts:
        counts[v["verdict"]] = counts.get(v["verdict"], 0) + 1
        if v["verdict"] != "MISMATCH":
            continue
        it = item_by_tid[v["tid"]]
        t = by_tid[v["tid"]]
        v2 = dict(v)
        v2["spec"] = "Flux2"
        v2["clause_class"] = "+".join(sorted(v["clauses"]))
        v2["palette"] = it["pal"]["name"]
        v2["event"] = t["events"][v["l"] - 1]
        rep.verdict(v2, {"engine": "flux2", "prop": prop, "palette": it["pal"]["name"], "instance": it["inst"]})
    return counts


def run(prop, tier, replay=None):
    if prop not in TIERS:
        raise C.Machinery("flux2 engine: property %s is not built" % prop)
    rep = C.Report(prop, tier)
    wd = C.workdir("flux2_%s_%s" % (prop, tier))
    rep.cleanup.append(wd)
    if replay is not None:
        return _replay(rep, wd, prop, replay)
    sd = C.seed()
    T = TIERS[prop][tier]
    t0 = time.time()
    controls = design_check(prop, tier, wd, rep)
    t1 = time.time()
    fams, gen_cov = [], []
    for fam in T["families"]:
        insts, stats = generate(prop, fam, sd, wd)
        fams.append(insts)
        gen_cov.append({"family": fam, "instances": len(insts), "tlc_states": stats["distinct"],
                        "tlc_wall_s": stats["wall_s"], "constants": stats["constants"]})
    t2 = time.time()
    items = _items_for(prop, tier, fams)
    nproc = max(2, min(C.NCPU - 2, 14))
    traces, crashes = drive_all(prop, items, wd, nproc, chunk_timeout=900 if tier == "thorough" else 300)
    t3 = time.time()
    verdicts, cmd = validate(traces, wd, prop)
    t4 = time.time()
    counts = _report_verdicts(rep, prop, verdicts, traces, items)
    per_action = {}
    nevents = 0
    outcomes = {}
    distinct_cases = set()
    for t in traces:
        for e in t["events"]:
            nevents += 1
            per_action[e["k"]] = per_action.get(e["k"], 0) + 1
            outcomes[e["outcome"]] = outcomes.get(e["outcome"], 0) + 1
            distinct_cases.add(hash(json.dumps([t["M"], {k: e[k] for k in e if k not in
                                                         RESULT_FIELDS}], sort_keys=True)))
    missing = [k for k in ACTIONS[prop] if not per_action.get(k)]
    if missing:
        raise C.Machinery("vacuity: actions never exercised: %s" % missing)
    if nevents and counts["UNDECIDED"] + counts["OUTSCOPE"] > 0.5 * nevents:
        raise C.Machinery("vacuity: %d of %d events undecided or out of scope" % (
            counts["UNDECIDED"] + counts["OUTSCOPE"], nevents))
    rep.coverage["behaviour_generation"] = gen_cov
    rep.coverage["trace_checker_cmd"] = cmd
    rep.coverage["samples"] = [traces[len(traces) // 3], traces[(2 * len(traces)) // 3]] if traces else []
    rep.coverage["exhaustive"] = True
    rep.coverage["phase_wall_s"] = {"design": round(t1 - t0, 1), "generate": round(t2 - t1, 1),
                                    "drive": round(t3 - t2, 1), "validate": round(t4 - t3, 1)}
    rep.assumptions = ASSUMPTIONS[prop]
    return rep.finish({
        "traces_validated_against_impl": len(traces), "events_validated": nevents,
        "per_action_counts": per_action, "negative_controls": controls,
        "distinct_pre_state_action_pairs": len(distinct_cases),
        "rule": "a case is a distinct (instance, call, arguments) triple; the same triple under another palette "
                "(solver / id spelling) is not counted again",
        "verdict_counts": counts, "outcomes": outcomes, "worker_crashes": crashes[:20],
    })


ASSUMPTIONS = {
    "C18": [
        "exhaustive within the constants of the `full` family (every in-scope instance with one external and one "
        "internal metabolite, 3 reactions, the bound palette, every objective reaction); drawn sub-dictionaries; the "
        "`rand` families are samples",
        "exchanges are the boundary reactions of external metabolites (compartment 'e', plain ids, no SBO terms)",
        "None-iff-unreachable and the component count are exact for every integer objective; the minimal total import "
        "is compared only when `objective >= g` is a bound (Decidable_minmedium)",
        "open_exchanges=True (+-1000) is checked for sufficiency only; sufficiency is measured by applying the returned "
        "imports as the medium of a fresh copy (opened the same way) and maximising the objective",
    ],
    "C20": [
        "exhaustive within the constants of the `full` family; solutions are integer lattice points (an optimal "
        "vertex, a drawn feasible point, boundary coefficients scaled by 2) or the pFBA default; FVA as a drawn integer "
        "frame or as a fraction (lattice ranges, Decidable guard)",
        "with the pFBA default the flux clauses are judged only when the pFBA optimum is a single point; the "
        "structural clauses (every reaction once, totals balance, percentages sum to one, objective value) always",
        "content of the rendered text / HTML is not inspected beyond 'renders'; Configuration().processes = 1",
    ],
    "C06": [
        "exhaustive within the constants of the `full` family (every in-scope instance with 2 metabolites, 3 "
        "reactions, the bound palette, every objective reaction; one drawn rule assignment and drawn partial lists "
        "per instance); the `rand` families are samples",
        "the integer lattice is the LP optimum on unit-network instances (FluxLatticeOps.tla); linear MOMA growth is "
        "checked for membership in the growth interval of the argmin face, with a given optimal reference or the "
        "pFBA default when that is a single point",
        "processes=1 (parallel deletion is another engine); quadratic MOMA and ROOM deletions not reached",
        "explicit essentiality thresholds are half-integers so that no attainable growth value ties with them",
    ],
    "C09": [
        "exhaustive within the constants of the `full` family (every in-scope instance with 2 metabolites, 3 "
        "reactions, the bound palette, every objective reaction, every single knock-out); the `rand` families are samples",
        "the integer lattice is the LP/MILP optimum on unit-network instances with integer bounds (total "
        "unimodularity; separable convex objectives with integer breakpoints; binaries fixed => bound-type) -- "
        "stated in Flux2Ops.tla / FluxLatticeOps.tla, Decidable_* guards every numeric clause",
        "references are optimal lattice points of the model before knock-out chosen by the specification; default "
        "references (pFBA of the same model state) only pin the optimum 0",
        "ROOM with the default delta/epsilon is bracketed by the integer bands, not pinned; quadratic MOMA not reached",
        "solver outputs compared with tolerance 1e-6 absolute",
    ],
}


def _replay(rep, wd, prop, payload):
    r = payload["replay"]
    pal = [p for p in PALETTES if p["name"] == r["palette"]][0]
    items = [{"tid": 1, "inst": r["instance"], "pal": pal, "fam": 0, "idx": 0}]
    traces, crashes = drive_all(prop, items, wd, 1, chunk_timeout=300)
    verdicts, cmd = validate(traces, wd, "replay")
    _report_verdicts(rep, prop, verdicts, traces, items)
    rep.coverage["states"] = rep.coverage["transitions"] = 1
    rep.coverage["samples"] = traces[:1]
    return rep.finish({"traces_validated_against_impl": 1, "events_validated": len(traces[0]["events"])})
