"""Shared plumbing: running TLC, verdicts, known findings, evidence, reporting.

TLC decides; this module only moves files around and turns TLC's verdict lines into
the VIOLATION / KNOWN-FINDING interface.  Exit codes: 0 held, 1 violation, 2 machinery.
"""
import hashlib
import json
import os
import re
import shutil
import subprocess
import sys
import time

VERIF = os.path.dirname(os.path.dirname(os.path.abspath(__file__)))
SPECS = os.path.join(VERIF, "specs")
WORK = os.path.join(VERIF, ".work")
CACHE = os.path.join(VERIF, "cache")
EVID = os.path.join(VERIF, "evidence")
REPLAYS = os.path.join(VERIF, "replays")
REPO = os.environ.get("VERIF_REPO", "/repo")
TLA_JAR = "/opt/veriftools/tla/tla2tools.jar"
NCPU = int(os.environ.get("VERIF_CPUS", str(os.cpu_count() or 4)))


class Machinery(Exception):
    """A failure of the verification machinery itself (never a property violation)."""


def seed():
    try:
        return int(os.environ.get("VERIF_SEED", "0"))
    except ValueError:
        return 0


def workdir(name):
    d = os.path.join(WORK, name)
    if os.path.isdir(d):
        shutil.rmtree(d, ignore_errors=True)
    os.makedirs(d, exist_ok=True)
    return d


def tla_value(v):
    """Python value -> TLA+ literal usable in a .cfg (no negative numbers there)."""
    if isinstance(v, bool):
        return "TRUE" if v else "FALSE"
    if isinstance(v, int):
        if v < 0:
            raise Machinery("cfg files cannot hold negative numbers")
        return str(v)
    if isinstance(v, str):
        return json.dumps(v)
    if isinstance(v, (set, frozenset)):
        return "{" + ", ".join(sorted(tla_value(x) for x in v)) + "}"
    if isinstance(v, (list, tuple)):
        return "<<" + ", ".join(tla_value(x) for x in v) + ">>"
    raise Machinery("cannot render %r" % (v,))


def write_cfg(path, constants=None, subst=None, init="Init", next_="Next", invariants=(),
              properties=(), constraints=(), view=None, postcondition=None, extra=()):
    lines = []
    if constants or subst:
        lines.append("CONSTANTS")
        for k, v in (constants or {}).items():
            lines.append("  %s = %s" % (k, tla_value(v)))
        for k, v in (subst or {}).items():
            lines.append("  %s <- %s" % (k, v))
    lines.append("INIT %s" % init)
    lines.append("NEXT %s" % next_)
    for i in invariants:
        lines.append("INVARIANT %s" % i)
    for p in properties:
        lines.append("PROPERTY %s" % p)
    for c in constraints:
        lines.append("CONSTRAINT %s" % c)
    if view:
        lines.append("VIEW %s" % view)
    if postcondition:
        lines.append("POSTCONDITION %s" % postcondition)
    lines.extend(extra)
    lines.append("CHECK_DEADLOCK FALSE")
    with open(path, "w") as fh:
        fh.write("\n".join(lines) + "\n")
    return path


_STATS = re.compile(r"(\d+) states generated, (\d+) distinct states found")


def run_tlc(module, cfg, wd, workers=None, env=None, timeout=3600, heap="6g", coverage=False,
            expect_violation=False):
    """Run TLC on specs/<module>.tla with config file cfg.  Returns a dict with the
    printed JSON lines (from PrintT(ToJson(..))), state counts, raw output, and `error`
    (None, "invariant:<name>", "property", or "other")."""
    workers = workers or NCPU
    meta = os.path.join(wd, "meta_%s_%d_%s" % (module, os.getpid(), os.urandom(4).hex()))
    cmd = ["java", "-XX:+UseParallelGC", "-Xmx" + heap, "-cp",
           TLA_JAR + ":/opt/veriftools/tla/CommunityModules-deps.jar", "tlc2.TLC"]
    cmd += ["-workers", str(workers), "-metadir", meta, "-noGenerateSpecTE", "-config", cfg]
    if coverage:
        cmd += ["-coverage", "1"]
    cmd += [os.path.join(SPECS, module + ".tla")]
    e = dict(os.environ)
    if env:
        e.update(env)
    t0 = time.time()
    try:
        p = subprocess.run(cmd, cwd=SPECS, env=e, stdout=subprocess.PIPE, stderr=subprocess.STDOUT,
                           timeout=timeout)
    except subprocess.TimeoutExpired:
        subprocess.run(["pkill", "-f", meta], check=False)
        raise Machinery("TLC timed out after %ss on %s" % (timeout, module))
    finally:
        shutil.rmtree(meta, ignore_errors=True)
    out = p.stdout.decode("utf-8", "replace")
    printed = []
    for line in out.splitlines():
        if line.startswith('"{') or line.startswith('"['):
            try:
                printed.append(json.loads(json.loads(line)))
            except ValueError:
                raise Machinery("unparsable TLC output line: %s" % line[:200])
    m = None
    for m in _STATS.finditer(out):
        pass
    res = {
        "cmd": " ".join(cmd[:1] + cmd[1:]),
        "out": out,
        "printed": printed,
        "generated": int(m.group(1)) if m else 0,
        "distinct": int(m.group(2)) if m else 0,
        "wall_s": time.time() - t0,
        "rc": p.returncode,
        "error": None,
    }
    if "No error has been found" in out:
        res["error"] = None
    else:
        mi = re.search(r"Invariant (\S+) is violated", out)
        if mi:
            res["error"] = "invariant:" + mi.group(1)
        elif re.search(r"Action property .* is violated|Temporal properties were violated", out):
            res["error"] = "property"
        else:
            res["error"] = "other"
    if res["error"] == "other" or (res["error"] and not expect_violation):
        tail = "\n".join(out.splitlines()[-40:])
        raise Machinery("TLC failed on %s (%s):\n%s" % (module, res["error"], tail))
    return res


# ------------------------------------------------------------------ findings
def load_findings():
    """known_findings.json plus known_findings.d/*.json (one file per engine); committed, never
    written at run time."""
    out = []
    paths = [os.path.join(VERIF, "known_findings.json")]
    d = os.path.join(VERIF, "known_findings.d")
    if os.path.isdir(d):
        paths += sorted(os.path.join(d, f) for f in os.listdir(d) if f.endswith(".json"))
    for path in paths:
        if not os.path.exists(path):
            continue
        with open(path) as fh:
            data = json.load(fh)
        out.extend(data.get("findings", []))
    return out


def match_finding(findings, prop, verdict):
    """A verdict matches an OPEN finding when every key of its signature matches:
    scalar = equality, list = subset (all listed entries present in the verdict's list).
    Fixed entries match nothing."""
    for f in findings:
        if f.get("status") != "open":
            continue
        if prop not in f.get("properties", [f.get("property")]):
            continue
        for sig in ([f["signature"]] if "signature" in f else []) + list(f.get("signatures", [])):
            if _sig_matches(sig, verdict):
                return f
    return None


def _sig_matches(sig, verdict):
    if True:
        ok = True
        for k, want in sig.items():
            have = verdict.get(k)
            if k.endswith("_all"):
                have = verdict.get(k[:-4], [])
                if not set(want) <= set(have or []):
                    ok = False
            elif k.endswith("_any"):
                have = verdict.get(k[:-4], [])
                if not set(want) & set(have or []):
                    ok = False
            elif k.endswith("_eq"):
                have = verdict.get(k[:-3], [])
                if sorted(want) != sorted(have or []):
                    ok = False
            elif k.endswith("_in"):
                have = verdict.get(k[:-3])
                if have not in want:
                    ok = False
            elif have != want:
                ok = False
            if not ok:
                break
        return ok


class Report:
    """Collects verdicts of one check run, prints the interface lines, writes evidence."""

    def __init__(self, prop, tier, level="model_checking"):
        self.prop = prop
        self.tier = tier
        self.level = level
        self.t0 = time.time()
        self.findings = load_findings()
        self.violations = []
        self.all_verdicts = []
        self.known = {}
        self.coverage = {"states": 0, "transitions": 0, "traces_validated_against_impl": 0,
                         "events_validated": 0, "samples": [], "checker_cmd": "", "exhaustive": False}
        self.assumptions = []
        self.notes = []
        self.cleanup = []       # work directories removed at the end (VERIF_KEEP_WORK=1 keeps them)

    def add_design(self, res):
        self.coverage["states"] += res["distinct"]
        self.coverage["transitions"] += res["generated"]
        if not self.coverage["checker_cmd"]:
            self.coverage["checker_cmd"] = res["cmd"]

    def verdict(self, v, replay_payload=None):
        """v: dict printed by a trace spec (or built by an engine from TLC output)."""
        f = match_finding(self.findings, self.prop, v)
        if os.environ.get("VERIF_DUMP_VERDICTS"):
            self.all_verdicts.append({"verdict": v, "replay": replay_payload, "known": f["id"] if f else None})
        if f is not None:
            self.known.setdefault(f["id"], [f, 0])
            self.known[f["id"]][1] += 1
            return "known"
        n = len(self.violations)
        path = None
        if n < 25:
            os.makedirs(REPLAYS, exist_ok=True)
            path = os.path.join(REPLAYS, "%s-%d.json" % (self.prop, n))
            with open(path, "w") as fh:
                json.dump({"property": self.prop, "verdict": v, "replay": replay_payload,
                           "seed": seed(), "tier": self.tier}, fh, indent=1, sort_keys=True, default=str)
        self.violations.append((v, path))
        return "violation"

    def finish(self, extra_cov=None):
        cov = self.coverage
        if extra_cov:
            cov.update(extra_cov)
        cov["known_findings_seen"] = {k: n for k, (f, n) in self.known.items()}
        cov["samples"] = cov["samples"][:3] or ["(no samples recorded)"]
        for k, (f, n) in sorted(self.known.items()):
            print("KNOWN-FINDING: property=%s %s [%s, %d verdicts]" % (self.prop, f["what"], k, n))
        shown = 0
        for v, path in self.violations:
            if path is None:
                continue
            print("VIOLATION property=%s replay=%s" % (self.prop, path))
            if shown < 5:
                print("  verdict: %s" % json.dumps(v, sort_keys=True, default=str)[:600])
                shown += 1
        if len(self.violations) > 25:
            print("  (%d further violating verdicts not written out)" % (len(self.violations) - 25))
        ev = {
            "property_id": self.prop, "tier": self.tier, "seed": seed(), "level": self.level,
            "coverage": cov, "assumptions": self.assumptions, "wall_s": round(time.time() - self.t0, 2),
            "violations": len(self.violations), "notes": self.notes,
        }
        if not os.environ.get("VERIF_NO_EVIDENCE"):      # (a replay does not rewrite the evidence of the check)
            os.makedirs(EVID, exist_ok=True)
            with open(os.path.join(EVID, self.prop + ".json"), "w") as fh:
                json.dump(ev, fh, indent=1, sort_keys=True, default=str)
        if os.environ.get("VERIF_DUMP_VERDICTS"):
            with open(os.environ["VERIF_DUMP_VERDICTS"], "w") as fh:
                json.dump(self.all_verdicts, fh, default=str)
        if not os.environ.get("VERIF_KEEP_WORK"):
            for d in self.cleanup:
                shutil.rmtree(d, ignore_errors=True)
        status = "VIOLATED" if self.violations else "held"
        print("%s %s tier=%s seed=%d: design states=%d transitions=%d, impl traces=%d events=%d, wall=%.1fs"
              % (self.prop, status, self.tier, seed(), cov["states"], cov["transitions"],
                 cov["traces_validated_against_impl"], cov.get("events_validated", 0), time.time() - self.t0))
        return 1 if self.violations else 0


def spec_hash(*modules):
    h = hashlib.sha256()
    for m in modules:
        with open(os.path.join(SPECS, m + ".tla"), "rb") as fh:
            h.update(fh.read())
    return h.hexdigest()[:16]


def chunks(seq, n):
    for i in range(0, len(seq), n):
        yield seq[i:i + n]


# ------------------------------------------------------------------ process isolation
def isolated_map(worker_fn, items, nproc, wd, tag, item_timeout=120):
    """Run worker_fn(item, progress) for every item, EACH IN ITS OWN FORKED PROCESS (nproc at a time):
    native code under test may abort the interpreter (GLPK assertions) or hang, and module-level state
    polluted by one case must not mask the same defect in the next one.  An item whose process dies or
    exceeds item_timeout gets the result {"crash": "signal<N>" | "timeout", "progress": <last value
    passed to progress()>}.  Returns results in item order."""
    import multiprocessing as mp
    import signal
    ctx = mp.get_context("fork")
    results = [None] * len(items)
    lanes = [list(range(k, len(items), nproc)) for k in range(nproc)]
    lanes = [t for t in lanes if t]

    def lane(idxs, path):
        import logging
        logging.disable(logging.CRITICAL)
        with open(path, "w") as fh:
            for i in idxs:
                ppath = path + ".p"
                pid = os.fork()
                if pid == 0:
                    code = 0
                    try:
                        with open(ppath, "w") as pf:
                            def progress(v):
                                pf.seek(0)
                                pf.write("%s\n" % json.dumps(v))
                                pf.truncate()
                                pf.flush()
                            signal.alarm(item_timeout)
                            r = worker_fn(items[i], progress)
                            signal.alarm(0)
                        with open(ppath + ".r", "w") as rf:
                            json.dump(r, rf)
                    except BaseException:
                        import traceback
                        traceback.print_exc()
                        code = 1
                    os._exit(code)
                _, status = os.waitpid(pid, 0)
                if status == 0 and os.path.exists(ppath + ".r"):
                    with open(ppath + ".r") as rf:
                        fh.write(json.dumps({"done": i, "r": json.load(rf)}) + "\n")
                    os.unlink(ppath + ".r")
                else:
                    prog = None
                    try:
                        with open(ppath) as pf:
                            prog = json.loads(pf.readline() or "null")
                    except (OSError, ValueError):
                        pass
                    sig = status & 0x7f
                    what = "timeout" if sig == 14 else ("signal%d" % sig if sig else "exit%d" % (status >> 8))
                    fh.write(json.dumps({"done": i, "r": {"crash": what, "progress": prog}}) + "\n")
                fh.flush()
        os._exit(0)

    procs = []
    for k, idxs in enumerate(lanes):
        path = os.path.join(wd, "iso_%s_%d.jsonl" % (tag, k))
        p = ctx.Process(target=lane, args=(idxs, path))
        p.start()
        procs.append((p, path))
    for p, path in procs:
        p.join()
        if p.exitcode != 0:
            raise Machinery("isolation lane died (exit %s)" % p.exitcode)
        with open(path) as fh:
            for line in fh:
                d = json.loads(line)
                results[d["done"]] = d["r"]
        for f in (path, path + ".p"):
            try:
                os.unlink(f)
            except OSError:
                pass
    return results
