"""Driver + projector for the `model` engine: applies abstract CobraModel.tla operations to REAL
cobra.Model objects and records the full observable state (content, cross references, DictList
lookups, raw GLPK problem read through swiglpk) after every operation.

Nothing here decides a property: the recorded events are judged by TLC (TraceCobraModel.tla).
"""
import copy
import io
import json
import math
import os
import pickle
import tempfile
import warnings

INF = 1000000
MISSING = -1000
RX = ["r1", "r2", "r3", "r4", "EX_m3", "EX_m4", "DM_m1", "SK_m2"]
MET = ["m1", "m2", "m3", "m4"]
GENE = ["g1", "g2", "g3", "g4"]
GRP = ["grp1"]
EXT = {"m3", "m4"}

PALETTES = [
    {"name": "plain", "rx": {"r1": "r1", "r2": "r2", "r3": "r3", "r4": "r4"},
     "met": {"m1": "m1", "m2": "m2", "m3": "m3", "m4": "m4", "m5": "m5"},
     "gene": {"g1": "g1", "g2": "g2", "g3": "g3", "g4": "g4"}, "grp": {"grp1": "grp1"},
     "scale": 1.0, "dyadic": True, "sids": True},
    # (non-ASCII letters and digits are identifier characters, too: \u00df, \u00b2, \u03b2, \u00e9, \u00f6)
    {"name": "awkward", "rx": {"r1": "R.1\u00b2", "r2": "a-\u03b2", "r3": "2r", "r4": "p:q"},
     "met": {"m1": "2x.y", "m2": "M-\u00df", "m3": "glc__D_e", "m4": "u/v", "m5": "5'x"},
     "gene": {"g1": "2x.1", "g2": "b-2", "g3": "for", "g4": "q:\u00e9"}, "grp": {"grp1": "my gr\u00f6up"},
     "scale": 0.5, "dyadic": True},
    {"name": "scaled", "rx": {"r1": "R_PGI", "r2": "ACALD", "r3": "Biomass_Ecoli", "r4": "r_0001"},
     "met": {"m1": "M_g6p_c", "m2": "f6p_c", "m3": "glc_e", "m4": "x_e", "m5": "M_r5p_c"},
     "gene": {"g1": "b0001", "g2": "G_b2", "g3": "s0001", "g4": "YAL001C"}, "grp": {"grp1": "g_1"},
     "scale": 0.1, "dyadic": False},
]


NAMES = {1: "alpha beta", 2: "Glucose (D)", 3: "x<y & z"}
FORMULAS = {1: "C6H12O6", 2: "H2O", 3: "C10H12N5O13P3"}
COMPS = {1: "c", 2: "e", 3: "p"}
CNAMES = {0: "", 1: "cytosol", 2: "extracellular space", 3: "Peri-plasm & <co>"}
SUBSYS = {1: "Glycolysis", 2: "Transport, extracellular", 3: "S_ub"}


class Skip(Exception):
    """The driver cannot perform the abstract operation on the real state (entity absent ...)."""


def _tree_text(t, gmap, top=True):
    k = t["k"]
    if k == "none":
        return ""
    if k == "gene":
        return gmap[t["id"]]
    sep = " and " if k == "and" else " or "
    s = sep.join(_tree_text(c, gmap, False) for c in t["ch"])
    return s if top else "(" + s + ")"


# identifiers.org-style annotation values behind the abstract tokens 1..5: single identifiers and
# lists of identifiers of one provider (one identifier a substring of an earlier one, dots)
ANNVAL = {1: "1", 2: "2", 3: ["1.1.1.27", "1.1.1.2"], 4: "4", 5: ["21765", "1765", "10108"], 6: "6",
          # a structured entry (JSON / YAML / dict / pickle carry it; SBML annotations cannot, see A_RoundTrip)
          7: {"nested": ["x", "y"], "n": 1}}


# note values behind the abstract tokens: plain text (1, 2) and what JSON / YAML / dict / pickle must also carry:
# a nested dictionary, None, a list with None (SBML notes are plain text: not judged there)
NOTEVAL = {1: "1", 2: "2", 3: {"pmid": "12345", "doi": None}, 4: None, 5: ["in vitro", None]}


# token 6: the notes ALSO carry the keys legacy (pre-fbc) SBML files used for data that has proper places now
# (formula, charge, gene association): they are notes like any other and must not override anything
LEGACY_NOTES = {"FORMULA": "C2H6O", "CHARGE": "3", "GENE_ASSOCIATION": "(b9 and b8)", "GENE ASSOCIATION": "b7",
                "CONFIDENCE_LEVEL": "2"}


def _note_token(val, notes=None):
    if val == "6":
        return 6 if notes is not None and all(notes.get(k) == v for k, v in LEGACY_NOTES.items()) else -1
    if notes is not None and any(k in notes for k in LEGACY_NOTES):
        return -1
    if isinstance(val, str) and val.isdigit():
        return int(val)
    for k, v in NOTEVAL.items():
        if not isinstance(v, str) and type(val) in (type(v), dict if isinstance(v, dict) else type(v)) and val == v:
            return k
        if isinstance(v, dict) and isinstance(val, dict) and dict(val) == v:
            return k
        if isinstance(v, list) and isinstance(val, (list, tuple)) and list(val) == v:
            return k
    return -1           # none of the tokens (compared as such; a wildcard expectation ignores it)


def _tol_token(x, what, inexact):
    """k for a tolerance of 10^-k; 0 (and a note) for anything else"""
    try:
        k = int(round(-math.log10(float(x))))
        if 1 <= k <= 12 and abs(float(x) - 10.0 ** -k) <= 1e-6 * 10.0 ** -k:
            return k
    except (TypeError, ValueError):
        pass
    inexact.append("tolerance:%s:bad" % what)
    return 0


def _ann_token(val):
    if isinstance(val, str) and val.isdigit() and ANNVAL.get(int(val), val) == val:
        return int(val)
    if val == "0":
        return 0
    for k, v in ANNVAL.items():
        if isinstance(v, list) and isinstance(val, (list, tuple)) and list(val) == v:
            return k
        if isinstance(v, dict) and isinstance(val, dict) and json.loads(json.dumps(val)) == v:
            return k
    raise ValueError("annotation value %r is none of the tokens" % (val,))


class ModelDriver:
    def __init__(self, palette):
        import cobra
        self.cobra = cobra
        self.pal = palette
        self.scale = palette["scale"]
        self.models = {1: None, 2: None}
        self.rx = dict(palette["rx"])
        self.met = dict(palette["met"])
        self.gene = dict(palette["gene"])
        self.grp = dict(palette["grp"])
        self.rx["EX_m3"] = "EX_" + self.met["m3"]
        self.rx["EX_m4"] = "EX_" + self.met["m4"]
        self.rx["DM_m1"] = "DM_" + self.met["m1"]
        self.rx["SK_m2"] = "SK_" + self.met["m2"]
        self.rrx = {v: k for k, v in self.rx.items()}
        self.rmet = {v: k for k, v in self.met.items()}
        self.rgene = {v: k for k, v in self.gene.items()}
        self.rgrp = {v: k for k, v in self.grp.items()}
        self.sols = []
        self.ctx_ids = {}                  # per slot: (reaction ids, metabolite ids) at each open Enter
        self.detached = {1: {}, 2: {}}     # reaction objects that left a model: slot -> abstract id -> object

    # ------------------------------------------------------------ numbers
    def to_bound(self, v):
        if v >= INF:
            return float("inf")
        if v <= -INF:
            return float("-inf")
        return v * self.scale

    def num(self, v, scale, where, inexact):
        if v is None:
            inexact.append(where + ":none")
            return 0
        try:
            v = float(v)
        except (TypeError, ValueError):
            inexact.append(where + ":nan")
            return 0
        if math.isnan(v):
            inexact.append(where + ":nan")
            return 0
        if v == float("inf"):
            return INF
        if v == float("-inf"):
            return -INF
        q = v / scale
        if abs(q) >= 900000:
            inexact.append(where + ":huge")
            return 900000 if q > 0 else -900000
        r = round(q)
        if q != r:
            close = abs(q - r) <= 1e-9 * max(1.0, abs(q))
            if not close:
                inexact.append(where + ":off")
            elif self.pal["dyadic"] or scale == 1.0:
                inexact.append(where + ":ulp")
        return int(r)

    # ------------------------------------------------------------ object helpers
    def new_met(self, m):
        return self.cobra.Metabolite(self.met[m], compartment="e" if m in EXT else "c", name="N" + m)

    def _foreign_met(self, s, m):
        """the Metabolite object with this id in the model of the other slot (a fresh object if it has none)"""
        other = self.models.get(3 - s)
        if other is not None and self.met[m] in other.metabolites:
            return other.metabolites.get_by_id(self.met[m])
        return self.new_met(m)

    def get_rxn(self, model, r):
        try:
            return model.reactions.get_by_id(self.rx[r])
        except KeyError:
            raise Skip("reaction %s not in model" % r)

    def get_met(self, model, m):
        try:
            return model.metabolites.get_by_id(self.met[m])
        except KeyError:
            raise Skip("metabolite %s not in model" % m)

    def get_gene(self, model, g):
        try:
            return model.genes.get_by_id(self.gene[g])
        except KeyError:
            raise Skip("gene %s not in model" % g)

    def build_reaction(self, model, sp, shape):
        """shape 0: fresh metabolite objects; 1: the model's own objects where present;
        2: copies of the model's objects; 3: string-built (model objects) after adding."""
        rxn = self.cobra.Reaction(self.rx[sp["id"]], lower_bound=self.to_bound(sp["lb"]),
                                  upper_bound=self.to_bound(sp["ub"]))
        d = {}
        for m in MET:
            k = sp["st"][m]
            if k == 0:
                continue
            mo = None
            if shape in (1, 2, 3) and self.met[m] in model.metabolites:
                mo = model.metabolites.get_by_id(self.met[m])
                if shape == 2:
                    mo = mo.copy()
            if mo is None:
                mo = self.new_met(m)
            d[mo] = k
        rxn.add_metabolites(d)
        txt = _tree_text(sp["rule"], self.gene)
        if txt:
            if shape % 2:
                rxn.gene_reaction_rule = txt
            else:
                rxn.gpr = self.cobra.core.gene.GPR.from_string(txt)
        return rxn

    # ------------------------------------------------------------ operations
    def apply(self, op):
        s = op.get("s", 1)
        m = self.models.get(s)
        before = {r.id: r for r in m.reactions} if m is not None else {}
        try:
            return self._apply(op)
        finally:
            m2 = self.models.get(s)
            if m2 is m and m is not None:
                for cid, robj in before.items():
                    if cid not in m.reactions and cid in self.rrx:
                        self.detached[s][self.rrx[cid]] = robj

    def _apply(self, op):
        a = op["a"]
        s = op.get("s", 1)
        cobra = self.cobra
        if a == "NewModel":
            m = cobra.Model("mdl")
            if op["solver"] != "glpk":
                m.solver = op["solver"]
            self.models[s] = m
            self.ctx_ids[s] = []
            self.detached[s] = {}
            return None
        model = self.models.get(s)
        if a == "LoadDoc":
            from . import model_io
            if getattr(self, "doc", None) is None or (model is not None and model._contexts):
                raise Skip("no saved document")
            self.models[s] = model_io.load(self, *self.doc)
            self.detached[s] = {}
            return None
        if model is None:
            raise Skip("no model in slot")
        if a == "Init":
            return None
        if a == "Enter":
            model.__enter__()
            self.ctx_ids.setdefault(s, []).append(({r.id for r in model.reactions}, {m.id for m in model.metabolites}))
            return None
        if a == "Exit":
            if not model._contexts:
                raise Skip("no open context")
            if self.ctx_ids.get(s):
                self.ctx_ids[s].pop()
            if op.get("exc"):       # the block ends by an exception
                err = RuntimeError("raised inside the with block")
                model.__exit__(RuntimeError, err, None)
            else:
                model.__exit__(None, None, None)
            return None
        if a == "Copy":
            t = op["t"]
            self.ctx_ids[t] = []
            self.detached[t] = {}
            if op["kind"] == "copy":
                self.models[t] = model.copy()
            elif op["kind"] == "deepcopy":
                self.models[t] = copy.deepcopy(model)
            else:
                self.models[t] = pickle.loads(pickle.dumps(model))
            return None
        if a == "SaveDoc":
            from . import model_io
            if model is None:
                raise Skip("no model")
            self.doc = (op["fmt"], model_io.save(self, model, op["fmt"]))
            return None
        if a == "AddArith":
            target = self.models.get(op["t"])
            if model is None or target is None:
                raise Skip("no model")
            rxn = self.get_rxn(model, op["r"])
            q = self.get_rxn(model, op["q"])
            if self.rx[op["new"]] in target.reactions:
                raise Skip("id exists in the target model")
            kind = op["kind"]
            res = (rxn.copy() if kind == "copy" else rxn + q if kind == "add" else rxn - q if kind == "sub"
                   else sum([rxn]) if kind == "sum1" else 0 + rxn if kind == "radd0" else rxn * op["k"])
            if res is rxn:
                raise AssertionError("reaction arithmetic returned its operand")
            res.id = self.rx[op["new"]]
            target.add_reactions([res])
            return None
        if a == "Merge":
            right = self.models.get(op["t"])
            if right is None or op["t"] == s:
                raise Skip("no second model")
            model.merge(right, inplace=True, objective=op.get("obj", "left"))
            return None
        if a == "MergeNew":
            right = self.models.get(op["t"])
            if right is None or op["t"] == s:
                raise Skip("no second model")
            self.models[op["t"]] = model.merge(right, inplace=False, objective=op.get("obj", "left"))
            self.ctx_ids[op["t"]] = []
            self.detached[op["t"]] = {}
            return None
        if a == "AddMetabolites":
            ms = [self.new_met(m) for m in op["ms"]]
            model.add_metabolites(ms if len(ms) > 1 else ms[0])
            return None
        if a == "RemoveMetabolites":
            ms = [model.metabolites.get_by_id(self.met[m]) if self.met[m] in model.metabolites else self.new_met(m)
                  for m in op["ms"]]
            if op.get("form", 0) == 1 and len(ms) == 1 and ms[0].model is None:
                model.remove_metabolites(ms, destructive=op["destructive"])
            elif op.get("form", 0) == 1 and len(ms) == 1 and not op["destructive"]:
                ms[0].remove_from_model(destructive=False)
            elif op.get("form", 0) == 1 and len(ms) == 1:
                ms[0].remove_from_model(destructive=True)
            else:
                model.remove_metabolites(ms, destructive=op["destructive"])
            return None
        if a == "AddReactions":
            rxns = [self.build_reaction(model, sp, op.get("shape", 0)) for sp in op["specs"]]
            model.add_reactions(rxns)
            return None
        if a == "RemoveReactions":
            form = op.get("form", 0)
            present = [r for r in op["rs"] if self.rx[r] in model.reactions]
            if form == 0:
                lst = [model.reactions.get_by_id(self.rx[r]) if r in present else cobra.Reaction(self.rx[r])
                       for r in op["rs"]]
            elif form == 1 or not present:
                lst = [self.rx[r] for r in op["rs"]]
            else:
                lst = None
            if lst is None:
                for r in present:
                    if self.rx[r] in model.reactions:
                        model.reactions.get_by_id(self.rx[r]).remove_from_model(remove_orphans=op["orphans"])
            else:
                model.remove_reactions(lst, remove_orphans=op["orphans"])
            return None
        if a == "AddBoundary":
            met = self.get_met(model, op["met"])
            prefix = {"exchange": "EX_", "demand": "DM_", "sink": "SK_"}[op["type"]]
            if prefix + op["met"] not in RX:
                raise Skip("boundary id outside the universe")
            model.add_boundary(met, type=op["type"])
            return None
        if a in ("RxnAddMetabolites", "RxnSubtractMetabolites"):
            rxn = self.get_rxn(model, op["r"])
            d = {}
            for m in MET:
                k = op["d"][m]
                if k == 0:
                    continue
                if self.met[m] in model.metabolites:
                    mo = model.metabolites.get_by_id(self.met[m])
                    form = op.get("form", 0)
                    # key shapes: the model's own object, its id, ANOTHER object carrying that id, or (3) the
                    # object of that id in the OTHER model
                    d[mo if form == 0 else (self.met[m] if form == 1 else
                                            (self.new_met(m) if form == 2 else self._foreign_met(s, m)))] = k
                else:
                    d[self._foreign_met(s, m) if op.get("form", 0) == 3 else self.new_met(m)] = k
            if a == "RxnAddMetabolites":
                rxn.add_metabolites(d, combine=op["combine"])
            else:
                rxn.subtract_metabolites(d, combine=op["combine"])
            return None
        if a == "RxnIMul":
            rxn = self.get_rxn(model, op["r"])
            rxn *= op["k"]
            return None
        if a in ("RxnIAdd", "RxnISub"):
            rxn = self.get_rxn(model, op["r"])
            q = self.get_rxn(model, op["q"])
            if a == "RxnIAdd":
                rxn += q
            else:
                rxn -= q
            return None
        if a == "SetLB":
            self.get_rxn(model, op["r"]).lower_bound = self.to_bound(op["v"])
            return None
        if a == "SetUB":
            self.get_rxn(model, op["r"]).upper_bound = self.to_bound(op["v"])
            return None
        if a == "SetBounds":
            self.get_rxn(model, op["r"]).bounds = (self.to_bound(op["lo"]), self.to_bound(op["hi"]))
            return None
        if a == "BuildFromString":
            rxn = self.get_rxn(model, op["r"])
            terms = {m: op["d"][m] for m in MET if op["d"][m] != 0}
            for m in terms:
                self.get_met(model, m)

            # the same equation in another spelling (op.spell): 1 = a metabolite of the model on BOTH sides
            # (a catalyst: the terms cancel, or add up to the coefficient asked for), 2 = one term split in two
            spell = op.get("spell", 0)
            extra = {-1: [], 1: []}       # additional (coefficient, metabolite) terms per side
            shown = dict(terms)
            if spell == 2 and any(abs(k) >= 2 for k in terms.values()):
                m = [m for m in terms if abs(terms[m]) >= 2][0]
                sgn = -1 if terms[m] < 0 else 1
                shown[m] = sgn * (abs(terms[m]) - 1)
                extra[sgn].append((1, m))
            elif spell in (1, 2):
                present = [m for m in MET if self.met[m] in model.metabolites]
                if present:
                    m = present[0]
                    k = terms.get(m, 0)
                    sgn = -1 if k < 0 else 1
                    if k:
                        shown[m] = sgn * (abs(k) + 1)
                        extra[-sgn].append((1, m))
                    else:
                        extra[-1].append((1, m))
                        extra[1].append((1, m))

            def side(sign):
                out = []
                for m, k in shown.items():
                    if (k < 0) == (sign < 0):
                        out.append(("%d %s" % (abs(k), self.met[m])) if abs(k) != 1 else self.met[m])
                for k, m in extra[sign]:
                    out.append(self.met[m])
                return " + ".join(out)
            arrow = {"fwd": "-->", "rev": "<--", "both": "<=>"}[op["arrow"]]
            text = "%s %s %s" % (side(-1), arrow, side(1))
            if any(" " in self.met[m] or "+" in self.met[m] for m in list(terms) + [x for v in extra.values() for _, x in v]):
                raise Skip("identifier not expressible in a reaction string")
            rxn.build_reaction_from_string(text)
            return None
        if a == "SetFunctional":
            self.get_gene(model, op["g"]).functional = bool(op["b"])
            return None
        if a == "FixObjective":
            if any(c.name.startswith("fixed_objective_") for c in model.constraints):
                raise Skip("objective is fixed already")
            cobra.util.solver.fix_objective_as_constraint(model)
            return None
        if a == "Repair":
            model.repair()
            return None
        if a == "RxnArith":
            rxn = self.get_rxn(model, op["r"])
            q = self.get_rxn(model, op["q"])
            kind = op["kind"]
            res = (rxn.copy() if kind == "copy" else rxn + q if kind == "add" else rxn - q if kind == "sub"
                   else sum([rxn]) if kind == "sum1" else 0 + rxn if kind == "radd0" else rxn * op["k"])
            inexact = []
            n = len(GENE)
            subsets = [{self.gene[GENE[i]] for i in range(n) if (k >> i) & 1} for k in range(2 ** n)]
            S = {m: 0 for m in MET}
            for mo, k in res.metabolites.items():
                if mo.id in self.rmet:
                    S[self.rmet[mo.id]] = self.num(k, 1.0, "ar", inexact)
            shared = any(mo.model is not None or any(mo is x for x in model.metabolites) for mo in res.metabolites) \
                or any(g.model is not None or any(g is x for x in model.genes) for g in res.genes)
            return {"ar": {"S": S, "lb": self.num(res.lower_bound, self.scale, "ar", inexact),
                           "ub": self.num(res.upper_bound, self.scale, "ar", inexact),
                           "tt": [1 if res.gpr.eval(ks) else 0 for ks in subsets],
                           "genes": sorted(self.rgene.get(g.id, "?" + g.id) for g in res.genes),
                           "detached": bool(res.model is None and res is not rxn and not shared and not inexact)}}
        if a == "ReAddDetached":
            robj = self.detached[s].get(op["r"])
            if robj is None or self.rx[op["r"]] in model.reactions or robj.model is not None:
                raise Skip("no detached reaction object with that id")
            model.add_reactions([robj])
            return None
        if a == "DetachedRename":
            robj = self.detached[s].get(op["r"])
            if (robj is None or robj.model is not None or self.rx[op["r"]] in model.reactions
                    or self.rx[op["new"]] in model.reactions or self.detached[s].get(op["new"]) is not None
                    or model._contexts or op["new"] == op["r"]):
                raise Skip("no detached reaction object to rename")
            robj.id = self.rx[op["new"]]
            self.detached[s][op["new"]] = self.detached[s].pop(op["r"])
            return None
        if a == "DetachedSetBounds":
            robj = self.detached[s].get(op["r"])
            if robj is None or self.rx[op["r"]] in model.reactions or robj.model is not None:
                raise Skip("no detached reaction object with that id")
            robj.bounds = (self.to_bound(op["lo"]), self.to_bound(op["hi"]))
            return None
        if a == "RxnKnockOut":
            self.get_rxn(model, op["r"]).knock_out()
            return None
        if a == "SetRule":
            rxn = self.get_rxn(model, op["r"])
            txt = _tree_text(op["rule"], self.gene)
            if op.get("form", 0) == 0:
                rxn.gene_reaction_rule = txt
            else:
                rxn.gpr = cobra.core.gene.GPR.from_string(txt)
            return None
        if a == "GeneKnockOut":
            self.get_gene(model, op["g"]).knock_out()
            return None
        if a == "KnockOutModelGenes":
            gs = [self.get_gene(model, g) for g in op["gs"]]
            form = op.get("form", 0)
            if form == 1:
                gs = [g.id for g in gs]
            elif form == 2:
                gs = [model.genes.index(g) for g in gs]
            if op.get("bad"):
                gs = list(gs) + ["no_such_gene"]
            res = cobra.manipulation.knock_out_model_genes(model, gs)
            return {"ids": sorted(self.rrx.get(r.id, "?" + r.id) for r in res)}
        if a == "RemoveGenes":
            gs = [self.get_gene(model, g) for g in op["gs"]]
            if op.get("form", 0) == 1:
                gs = [g.id for g in gs]
            cobra.manipulation.remove_genes(model, gs, remove_reactions=op["rr"])
            return None
        if a == "RenameGene":
            self.get_gene(model, op["g"])
            pairs = [(op["g"], op["new"])] + [(p["g"], p["new"]) for p in op.get("more", [])]
            if {a for a, _ in pairs} & {b for _, b in pairs} or len({a for a, _ in pairs}) != len(pairs):
                raise Skip("rename dictionaries whose values are keys are undefined")
            cobra.manipulation.rename_genes(model, {self.gene[a]: self.gene[b] for a, b in pairs})
            return None
        if a == "RenameReaction":
            rxn = self.get_rxn(model, op["r"])
            if op["r"] == op["new"]:
                raise Skip("same id")
            if any(self.rx[op["new"]] in ids[0] for ids in self.ctx_ids.get(s, [])[:len(model._contexts)]):
                raise Skip("an open context will bring that id back")
            rxn.id = self.rx[op["new"]]
            return None
        if a == "RenameMetabolite":
            met = self.get_met(model, op["met"])
            if op["met"] == op["new"] or (op["met"] in EXT) != (op["new"] in EXT):
                raise Skip("same id / other compartment")
            if any(self.met[op["new"]] in ids[1] for ids in self.ctx_ids.get(s, [])[:len(model._contexts)]):
                raise Skip("an open context will bring that id back")
            met.id = self.met[op["new"]]
            return None
        if a == "SetObjective":
            d = {r: k for r, k in op["d"].items() if k != 0}
            for r in d:
                self.get_rxn(model, r)
            form = op.get("form", 0)
            if form == 0 or len(d) != 1 or list(d.values()) != [1]:
                model.objective = {model.reactions.get_by_id(self.rx[r]): k for r, k in d.items()}
            else:
                r = list(d)[0]
                rxn = model.reactions.get_by_id(self.rx[r])
                if form == 1:
                    model.objective = rxn.id
                elif form == 2:
                    model.objective = rxn
                else:
                    model.objective = model.reactions.index(rxn)
            return None
        if a == "SetObjCoef":
            self.get_rxn(model, op["r"]).objective_coefficient = op["v"]
            return None
        if a == "SetDirection":
            model.objective_direction = op["dir"]
            return None
        if a == "SetMedium":
            d = {}
            for r in RX:
                v = op["d"][r]
                if v != MISSING:
                    self.get_rxn(model, r)
                    d[self.rx[r]] = v * self.scale
            model.medium = d
            return None
        if a == "GetMedium":
            med = model.medium
            out = {}
            inexact = []
            for r in RX:
                c = self.rx[r]
                out[r] = self.num(med[c], self.scale, "med:" + r, inexact) if c in med else MISSING
            extra = sorted(k for k in med if k not in self.rrx)
            return {"med": out, "n": len(extra) + len(inexact)}
        if a == "SetTolerance":
            model.tolerance = 10.0 ** -op["k"]
            return None
        if a == "SwitchSolver":
            model.solver = op["solver"]
            return None
        if a == "AddUserCons":
            if op["name"] in model.constraints:
                raise Skip("constraint exists")
            rxns = list(model.reactions)[:2]
            expr = sum((r.flux_expression for r in rxns), 0)
            for vn in ("uv1", "uv2"):        # a user constraint over the user variables that exist, too
                if vn in model.variables:
                    expr = expr + 2 * model.variables[vn]
            c = model.problem.Constraint(expr, lb=-7 * self.scale, ub=9 * self.scale, name=op["name"])
            model.add_cons_vars([c])
            return None
        if a == "AddUserVar":
            if op["name"] in model.variables:
                raise Skip("variable exists")
            if op["name"] == "uvr4" and (self.rx["r4"] in model.variables or self.rx["r4"] in model.reactions):
                raise Skip("variable exists")
            v = model.problem.Variable(self.rx["r4"] if op["name"] == "uvr4" else op["name"], lb=0, ub=3 * self.scale)
            model.add_cons_vars([v])
            return None
        if a == "RemoveUserCons":
            if op["name"] not in model.constraints:
                raise Skip("no such constraint")
            model.remove_cons_vars([model.constraints[op["name"]]])
            return None
        if a == "RemoveUserVar":
            if op["name"] not in model.variables:
                raise Skip("no such variable")
            model.remove_cons_vars([model.variables[op["name"]]])
            return None
        if a == "AddGroup":
            members = []
            for x in op["members"]:
                if x in self.rx:
                    members.append(self.get_rxn(model, x))
                elif x in self.met:     # a metabolite that is not in the model yet comes along with the group
                    members.append(model.metabolites.get_by_id(self.met[x]) if self.met[x] in model.metabolites
                                   else self.new_met(x))
                else:
                    members.append(self.get_gene(model, x))
            grp = cobra.core.Group(self.grp[op["g"]], members=members)
            model.add_groups([grp])
            return None
        if a in ("GroupAddMembers", "GroupRemoveMembers"):
            if self.grp[op["g"]] not in model.groups:
                raise Skip("no such group")
            grp = model.groups.get_by_id(self.grp[op["g"]])
            members = [self.get_rxn(model, x) if x in self.rx else self.get_met(model, x) if x in self.met
                       else self.get_gene(model, x) for x in op["members"]]
            (grp.add_members if a == "GroupAddMembers" else grp.remove_members)(members)
            return None
        if a == "RemoveGroup":
            if self.grp[op["g"]] in model.groups:
                model.remove_groups([model.groups.get_by_id(self.grp[op["g"]])])
            else:
                with warnings.catch_warnings():
                    warnings.simplefilter("ignore")
                    model.remove_groups([cobra.core.Group(self.grp[op["g"]])])
            return None
        if a == "SetAttr":
            x, field, v = op["x"], op["field"], op["v"]
            if x in self.rx:
                o = self.get_rxn(model, x)
            elif x in self.met:
                o = self.get_met(model, x)
            else:
                o = self.get_gene(model, x)
            if field == "comp":
                if x not in ("m1", "m2") or v not in COMPS:
                    raise Skip("compartment edits: internal metabolites only")
                o.compartment = COMPS[v]
                return None
            if field == "name":
                o.name = NAMES[v]
            elif field == "formula":
                if x not in self.met:
                    raise Skip("formula is a metabolite attribute")
                o.formula = FORMULAS[v]
            elif field == "charge":
                if x not in self.met:
                    raise Skip("charge is a metabolite attribute")
                o.charge = None if v == 99 else v
            else:
                if x not in self.rx:
                    raise Skip("subsystem is a reaction attribute")
                o.subsystem = SUBSYS[v]
            return None
        if a == "Annotate":
            x = op["x"]
            if x == "MODEL":
                o = model
            elif x in self.rx:
                o = self.get_rxn(model, x)
            elif x in self.met:
                o = self.get_met(model, x)
            else:
                o = self.get_gene(model, x)
            via = op.get("via", 0)
            val = copy.deepcopy(ANNVAL.get(op["v"], str(op["v"])))
            if via == 0:
                o.annotation["tok"] = val
            elif via == 1:
                o.annotation = dict(o.annotation, tok=val)
            else:
                for k in LEGACY_NOTES:
                    o.notes.pop(k, None)
                o.notes["tok"] = copy.deepcopy(NOTEVAL.get(op["v"], str(op["v"])))
                if op["v"] == 6:
                    o.notes.update(LEGACY_NOTES)
                o.annotation["tok"] = val
            return None
        if a == "SetCompName":
            model.compartments = {COMPS[op["c"]]: CNAMES[op["v"]]}
            return None
        if a == "AddSBO":
            cobra.manipulation.add_SBO(model)
            return None
        if a == "Prune":
            t = op["t"]
            if t == s:
                raise Skip("same slot")
            fn = cobra.manipulation.prune_unused_metabolites if op["kind"] == "mets" else cobra.manipulation.prune_unused_reactions
            out, removed = fn(model)
            self.models[t] = out
            self.ctx_ids[t] = []
            self.detached[t] = {}
            rev = self.rmet if op["kind"] == "mets" else self.rrx
            return {"ids": sorted(rev.get(x.id, "?" + x.id) for x in removed)}
        if a == "Query":
            return {"q": self.query(model)}
        if a == "RoundTrip":
            from . import model_io
            if model._contexts:
                raise Skip("round trips are exercised outside contexts")
            fmt = op["fmt"]
            if fmt == "sbml_freplace_off" and not self.pal.get("sids", False):
                fmt = "sbml"        # without id replacement the ids must be valid SBML SIds
            self.models[s] = model_io.round_trip(self, model, fmt)
            self.detached[s] = {}
            return None
        if a == "Analyze":
            from . import model_analyses
            return model_analyses.analyze(self, model, op["kind"], op.get("arg", 0))
        if a == "Helper":
            from . import model_analyses
            return model_analyses.helper(self, model, op["kind"])
        raise Skip("unknown op " + a)

    # ------------------------------------------------------------ read-only views
    def query(self, model):
        inexact = []
        elems = ["C", "H", "N", "O", "P"]
        rc = {v: k for k, v in COMPS.items()}
        q = {"rev": {}, "bnd": {}, "react": {}, "prod": {}, "comps": {}, "mb": {}}
        for r in RX:
            q["rev"][r] = q["bnd"][r] = 0
            q["react"][r], q["prod"][r], q["comps"][r], q["mb"][r] = [], [], [], [0] * 6
            if self.rx[r] not in model.reactions:
                continue
            rxn = model.reactions.get_by_id(self.rx[r])
            q["rev"][r] = 1 if rxn.reversibility else 0
            q["bnd"][r] = 1 if rxn.boundary else 0
            q["react"][r] = sorted(self.rmet.get(m.id, "?" + m.id) for m in rxn.reactants)
            q["prod"][r] = sorted(self.rmet.get(m.id, "?" + m.id) for m in rxn.products)
            q["comps"][r] = sorted(rc.get(c, -1) for c in rxn.compartments)
            mb = rxn.check_mass_balance()
            vec = [0] * 6
            for k, v in mb.items():
                if k == "charge":
                    vec[5] = self.num(v, 1.0, "mb:" + r, inexact)
                elif k in elems:
                    vec[elems.index(k)] = self.num(v, 1.0, "mb:" + r, inexact)
                else:
                    vec[0] = 777777
            q["mb"][r] = vec
        q["bset"] = sorted(self.rrx.get(x.id, "?" + x.id) for x in model.boundary)
        q["mcomps"] = sorted(rc.get(c, -1) for c in model.compartments)
        q["exok"] = 1
        try:
            q["exch"] = sorted(self.rrx.get(x.id, "?" + x.id) for x in model.exchanges)
            q["dem"] = sorted(self.rrx.get(x.id, "?" + x.id) for x in model.demands)
            q["sink"] = sorted(self.rrx.get(x.id, "?" + x.id) for x in model.sinks)
        except RuntimeError:
            q["exok"] = 0
            q["exch"], q["dem"], q["sink"] = [], [], []
        if inexact:
            q["exok"] = 2
        return q

    # ------------------------------------------------------------ projection
    def project(self, model):
        if model is None:
            return {"present": False}
        from swiglpk import (GLP_DB, GLP_FR, GLP_FX, GLP_LO, GLP_MAX, GLP_UP, GLP_CV, doubleArray,
                             glp_get_col_kind, glp_get_col_lb, glp_get_col_name, glp_get_col_type,
                             glp_get_col_ub, glp_get_mat_row, glp_get_num_cols, glp_get_num_rows,
                             glp_get_obj_coef, glp_get_obj_dir, glp_get_row_lb, glp_get_row_name,
                             glp_get_row_type, glp_get_row_ub, intArray)
        inexact = []
        sc = self.scale
        o = {"present": True}
        order = {}
        for kind, lst, rev in (("rxns", model.reactions, self.rrx), ("mets", model.metabolites, self.rmet),
                               ("genes", model.genes, self.rgene), ("groups", model.groups, self.rgrp)):
            order[kind] = [rev.get(x.id, "?" + str(x.id)) for x in lst]
            o[kind] = order[kind]
        # DictList lookups for every id of every universe
        pos, getok, owner = {"MODEL": MISSING}, {"MODEL": True}, {"MODEL": True}
        for kind, lst, uni, conc in (("rxns", model.reactions, RX, self.rx), ("mets", model.metabolites, MET, self.met),
                                     ("genes", model.genes, GENE, self.gene), ("groups", model.groups, GRP, self.grp)):
            for x in uni:
                c = conc[x]
                try:
                    p = lst.index(c)
                except ValueError:
                    p = MISSING
                except Exception:
                    p = -2000
                pos[x] = p
                ok = True
                own = True
                if p != MISSING:
                    try:
                        g = lst.get_by_id(c)
                        ok = (g.id == c) and (0 <= p < len(lst)) and (list.__getitem__(lst, p) is g) and (c in lst) \
                            and lst.has_id(c)
                        own = (getattr(g, "model", None) if hasattr(g, "model") else getattr(g, "_model", None)) is model
                    except Exception:
                        ok = False
                else:
                    ok = (c not in lst) and not lst.has_id(c)
                getok[x] = bool(ok)
                owner[x] = bool(own)
        o["pos"], o["getok"], o["owner"] = pos, getok, owner
        S, lb, ub, tt, rgenes, gprgenes, objc, sbo, ann, note = {}, {}, {}, {}, {}, {}, {}, {}, {}, {}
        rxnMets = {}
        subsets = []
        n = len(GENE)
        for k in range(2 ** n):
            subsets.append({self.gene[GENE[i]] for i in range(n) if (k >> i) & 1})
        for r in RX:
            c = self.rx[r]
            row = {m: 0 for m in MET}
            lb[r] = ub[r] = objc[r] = 0
            tt[r] = [1] * (2 ** n)
            rgenes[r], gprgenes[r], sbo[r], rxnMets[r] = [], [], "none", []
            if c in model.reactions:
                rxn = model.reactions.get_by_id(c)
                extra_mets = 0
                for mo, k in rxn.metabolites.items():
                    am = self.rmet.get(mo.id)
                    if am is None:
                        extra_mets += 1
                        continue
                    row[am] = self.num(k, 1.0, "S:%s:%s" % (r, am), inexact)
                    if row[am] == 0:
                        inexact.append("S:%s:%s:zero-entry" % (r, am))
                    rxnMets[r].append(am)
                    # the key object must be the model's own object
                    if am in order["mets"] and model.metabolites.get_by_id(mo.id) is not mo:
                        inexact.append("S:%s:%s:foreign-object" % (r, am))
                if extra_mets:
                    inexact.append("S:%s:unknown-metabolite" % r)
                lb[r] = self.num(rxn.lower_bound, sc, "lb:" + r, inexact)
                ub[r] = self.num(rxn.upper_bound, sc, "ub:" + r, inexact)
                try:
                    objc[r] = self.num(rxn.objective_coefficient, 1.0, "objc:" + r, inexact)
                except Exception as e:
                    inexact.append("objc:%s:%s" % (r, type(e).__name__))
                try:
                    tt[r] = [1 if rxn.gpr.eval(ks) else 0 for ks in subsets]
                    gprgenes[r] = sorted(self.rgene.get(g, "?" + g) for g in rxn.gpr.genes)
                    # the text form must describe the same function
                    g2 = self.cobra.core.gene.GPR.from_string(rxn.gene_reaction_rule)
                    if [1 if g2.eval(ks) else 0 for ks in subsets] != tt[r]:
                        inexact.append("rule:%s:text-differs" % r)
                except Exception as e:
                    inexact.append("rule:%s:%s" % (r, type(e).__name__))
                rgenes[r] = sorted(self.rgene.get(g.id, "?" + g.id) for g in rxn.genes)
                for g in rxn.genes:
                    if g.id in model.genes and model.genes.get_by_id(g.id) is not g:
                        inexact.append("rgenes:%s:foreign-object" % r)
                st = rxn.annotation.get("sbo", "")
                sbo[r] = {"SBO:0000627": "exchange", "SBO:0000628": "demand", "SBO:0000632": "sink", "": "none"}.get(
                    st if isinstance(st, str) else "?", "other")
            S[r] = row
        for kind, uni, conc, lst in (("rxns", RX, self.rx, model.reactions), ("mets", MET, self.met, model.metabolites),
                                     ("genes", GENE, self.gene, model.genes)):
            for x in uni:
                ann[x] = 0
                note[x] = 0
                if conc[x] in lst:
                    ob = lst.get_by_id(conc[x])
                    try:
                        ann[x] = _ann_token(ob.annotation.get("tok", "0"))
                        note[x] = _note_token(ob.notes.get("tok", "0"), ob.notes)
                    except (TypeError, ValueError):
                        inexact.append("ann:%s:bad" % x)
        attr = {x: {"name": 0, "formula": 0, "charge": 99, "subsys": 0,
                    "comp": (1 if x in ("m1", "m2", "m5") else 2 if x in ("m3", "m4") else 0)}
                for x in RX + MET + GENE + GRP + ["MODEL"]}
        rc = {v: k for k, v in COMPS.items()}
        rn = {v: k for k, v in NAMES.items()}
        rf = {v: k for k, v in FORMULAS.items()}
        rs = {v: k for k, v in SUBSYS.items()}
        for kind, uni, conc, lst in (("rxns", RX, self.rx, model.reactions), ("mets", MET, self.met, model.metabolites),
                                     ("genes", GENE, self.gene, model.genes)):
            for x in uni:
                if conc[x] in lst:
                    ob = lst.get_by_id(conc[x])
                    attr[x]["name"] = rn.get(ob.name, 0)
                    if kind == "mets":
                        attr[x]["comp"] = rc.get(ob.compartment, -1)
                        attr[x]["formula"] = rf.get(ob.formula if isinstance(ob.formula, str) else "", 0)
                        ch = ob.charge
                        if ch is None:
                            attr[x]["charge"] = 99
                        elif isinstance(ch, (int, float)) and float(ch) == int(ch) and abs(ch) < 50:
                            attr[x]["charge"] = int(ch)
                        else:
                            attr[x]["charge"] = 77
                            inexact.append("charge:%s:bad" % x)
                    if kind == "rxns":
                        attr[x]["subsys"] = rs.get(ob.subsystem, 0)
        o["attr"] = attr
        try:
            mc = model.compartments
            rcn = {v: k for k, v in CNAMES.items()}
            o["cname"] = [rcn.get(mc[COMPS[c]], -2) if COMPS[c] in mc else -1 for c in (1, 2, 3)]
        except Exception:
            o["cname"] = [-2, -2, -2]
        for g in GRP:
            ann[g] = 0
            note[g] = 0
        try:
            ann["MODEL"] = _ann_token(model.annotation.get("tok", "0"))
            note["MODEL"] = _note_token(model.notes.get("tok", "0"), model.notes)
        except (TypeError, ValueError, AttributeError):
            ann["MODEL"] = note["MODEL"] = 0
            inexact.append("ann:MODEL:bad")
        o.update({"S": S, "lb": lb, "ub": ub, "tt": tt, "rgenes": rgenes, "gprgenes": gprgenes, "objc": objc,
                  "sbo": sbo, "ann": ann, "note": note, "rxnMets": rxnMets})
        o["dir"] = str(model.objective_direction)
        metRxns, geneRxns, func = {}, {}, {}
        for m in MET:
            metRxns[m] = []
            if self.met[m] in model.metabolites:
                mo = model.metabolites.get_by_id(self.met[m])
                metRxns[m] = sorted(self.rrx.get(r.id, "?" + r.id) for r in mo.reactions)
                for r in mo.reactions:
                    if r.id not in model.reactions or model.reactions.get_by_id(r.id) is not r:
                        inexact.append("metRxns:%s:dangling" % m)
        for g in GENE:
            geneRxns[g] = []
            func[g] = True
            if self.gene[g] in model.genes:
                go = model.genes.get_by_id(self.gene[g])
                geneRxns[g] = sorted(self.rrx.get(r.id, "?" + r.id) for r in go.reactions)
                for r in go.reactions:
                    if r.id not in model.reactions or model.reactions.get_by_id(r.id) is not r:
                        inexact.append("geneRxns:%s:dangling" % g)
                func[g] = bool(go.functional)
        o["metRxns"], o["geneRxns"], o["func"] = metRxns, geneRxns, func
        rfunc = {}
        for r in RX:
            rfunc[r] = True
            if self.rx[r] in model.reactions:
                rfunc[r] = bool(model.reactions.get_by_id(self.rx[r]).functional)
        o["rfunc"] = rfunc
        member = {}
        for g in GRP:
            member[g] = []
            if self.grp[g] in model.groups:
                for mem in model.groups.get_by_id(self.grp[g]).members:
                    rev = {self.cobra.Reaction: self.rrx, self.cobra.Metabolite: self.rmet,
                           self.cobra.Gene: self.rgene}.get(type(mem), self.rgrp)
                    a = rev.get(mem.id)
                    lst = {self.cobra.Reaction: model.reactions, self.cobra.Metabolite: model.metabolites,
                           self.cobra.Gene: model.genes}.get(type(mem), model.groups)
                    if a is None or mem.id not in lst or lst.get_by_id(mem.id) is not mem:
                        a = "?dangling:" + str(mem.id)
                    member[g].append(a)
                member[g].sort()
        o["member"] = member
        # ---- the raw GLPK problem
        try:
            model.solver.update()
        except Exception as e:
            inexact.append("lp:update-failed:%s" % type(e).__name__)
        prob = model.solver.problem
        ncols, nrows = glp_get_num_cols(prob), glp_get_num_rows(prob)

        def bounds(typ, l, u):
            if typ == GLP_FR:
                return float("-inf"), float("inf")
            if typ == GLP_LO:
                return l, float("inf")
            if typ == GLP_UP:
                return float("-inf"), u
            if typ == GLP_DB:
                return l, u
            return l, l
        colname = {}
        role = {}
        for r in RX:
            c = self.rx[r]
            if c in model.reactions:
                # the variable names a reaction with this id has -- asked of a fresh object, not of the
                # one in the model (whose history must not matter)
                fresh = self.cobra.Reaction(c)
                role[fresh.id] = ("f", r)
                role[fresh.reverse_id] = ("r", r)
        cols = {r: {"present": False, "fl": 0, "fu": 0, "rl": 0, "ru": 0} for r in RX}
        seen = {r: set() for r in RX}
        obj = {r: {"f": 0, "r": 0} for r in RX}
        xcols, objx, noncont = [], 0, 0
        for j in range(1, ncols + 1):
            nm = glp_get_col_name(prob, j)
            colname[j] = nm
            l, u = bounds(glp_get_col_type(prob, j), glp_get_col_lb(prob, j), glp_get_col_ub(prob, j))
            oc = glp_get_obj_coef(prob, j)
            if glp_get_col_kind(prob, j) != GLP_CV:
                noncont += 1
            if nm in role:
                fr, r = role[nm]
                cols[r][fr + "l"] = self.num(l, sc, "col:%s:%sl" % (r, fr), inexact)
                cols[r][fr + "u"] = self.num(u, sc, "col:%s:%su" % (r, fr), inexact)
                seen[r].add(fr)
                obj[r][fr] = self.num(oc, 1.0, "obj:%s:%s" % (r, fr), inexact)
            else:
                # (the user variable "uvr4" is NAMED like reaction r4 would name its forward variable)
                xcols.append("uvr4" if nm == self.rx["r4"] else nm)
                if oc != 0:
                    objx += 1
        for r in RX:
            cols[r]["present"] = seen[r] == {"f", "r"}
            if len(seen[r]) == 1:
                inexact.append("col:%s:half" % r)
        rows = {m: {"present": False, "lb": 0, "ub": 0, "cf": {r: 0 for r in RX}, "cr": {r: 0 for r in RX}, "other": 0}
                for m in MET}
        xrows = []
        ind, val = intArray(ncols + 1), doubleArray(ncols + 1)
        for i in range(1, nrows + 1):
            nm = glp_get_row_name(prob, i)
            am = self.rmet.get(nm)
            if am is None or nm not in model.metabolites:
                # a row named like a metabolite that is not in the model; the row of fix_objective_as_constraint
                # carries the (random) name of the objective
                xrows.append(am if am is not None else ("fixed_objective" if nm.startswith("fixed_objective_") else nm))
                continue
            l, u = bounds(glp_get_row_type(prob, i), glp_get_row_lb(prob, i), glp_get_row_ub(prob, i))
            row = rows[am]
            row["present"] = True
            row["lb"] = self.num(l, 1.0, "row:%s:lb" % am, inexact)
            row["ub"] = self.num(u, 1.0, "row:%s:ub" % am, inexact)
            k = glp_get_mat_row(prob, i, ind, val)
            for t in range(1, k + 1):
                cn = colname[ind[t]]
                if val[t] == 0:
                    continue
                if cn in role:
                    fr, r = role[cn]
                    row["c" + fr][r] = self.num(val[t], 1.0, "row:%s:%s:%s" % (am, r, fr), inexact)
                else:
                    row["other"] += 1
        import hashlib
        canon = []
        for j in range(1, ncols + 1):
            l, u = bounds(glp_get_col_type(prob, j), glp_get_col_lb(prob, j), glp_get_col_ub(prob, j))
            canon.append("c|%s|%.9g|%.9g|%d|%.9g" % (colname[j], l, u, glp_get_col_kind(prob, j), glp_get_obj_coef(prob, j) + 0.0))
        for i in range(1, nrows + 1):
            l, u = bounds(glp_get_row_type(prob, i), glp_get_row_lb(prob, i), glp_get_row_ub(prob, i))
            k = glp_get_mat_row(prob, i, ind, val)
            cf = sorted("%s:%.9g" % (colname[ind[t]], val[t]) for t in range(1, k + 1) if val[t] != 0)
            nm = glp_get_row_name(prob, i)
            canon.append("r|%s|%.9g|%.9g|%s" % ("fixed_objective" if nm.startswith("fixed_objective_") else nm, l, u, ",".join(cf)))
        canon.sort()
        canon.append("dir|%d" % glp_get_obj_dir(prob))
        lpdig = hashlib.md5("\n".join(canon).encode("utf-8")).hexdigest()[:16]
        if os.environ.get("VERIF_LP_CANON"):
            o["lp_canon"] = canon
        o["lp"] = {"dig": lpdig, "cols": cols, "rows": rows, "obj": obj, "objx": objx, "noncont": noncont,
                   "dir": "max" if glp_get_obj_dir(prob) == GLP_MAX else "min",
                   "xcols": sorted(xcols), "xrows": sorted(xrows)}
        # the optlang view of the objective must not mention variables that left the problem
        try:
            stale = [v.name for v in model.objective.variables if v.name not in model.variables]
            if stale:
                inexact.append("objective:stale-variable")
        except Exception as e:
            inexact.append("objective:%s" % type(e).__name__)
        o["tol"] = _tol_token(model.tolerance, "model", inexact)
        tols = model.solver.configuration.tolerances
        o["lp"]["tolf"] = _tol_token(getattr(tols, "feasibility", None), "feasibility", inexact)
        o["lp"]["toli"] = _tol_token(getattr(tols, "integrality", None), "integrality", inexact)
        o["ctx"] = len(model._contexts)
        o["solver"] = self.cobra.util.solver.interface_to_str(model.problem)
        o["inexact"] = sorted(set(inexact))
        return o

    # ------------------------------------------------------------ a whole behaviour
    def run(self, beh, tid):
        cobra = self.cobra
        cfg = cobra.Configuration()
        old_bounds = cfg.bounds
        cfg.bounds = (-1000 * self.scale, 1000 * self.scale)
        events = []
        hooks = []
        mgr_ids = {}

        def observer(name, kw):
            m = kw.get("manager")
            if m not in mgr_ids:
                mgr_ids[m] = len(mgr_ids) + 1
            hooks.append({"e": name, "m": mgr_ids[m], "n": int(kw.get("size", kw.get("depth", 0)))})
        try:
            from cobra.util import _verif
            _verif.set_observer(observer)
            hooks_on = bool(_verif.ENABLED)
        except ImportError:
            _verif = None
            hooks_on = False
        try:
            for op in beh["ops"]:
                del hooks[:]
                raises, ret = "none", None
                try:
                    with warnings.catch_warnings():
                        warnings.simplefilter("ignore")
                        ret = self.apply(op)
                except Skip:
                    raises = "skip"
                except Exception as e:      # outcome of the call under test
                    raises = getattr(e, "verif_name", type(e).__name__)
                ev = {"op": op, "raises": raises,
                      "ret": {"ids": (ret or {}).get("ids", []), "n": (ret or {}).get("n", 0),
                              "med": (ret or {}).get("med", {r: MISSING for r in RX}),
                              "x": (ret or {}).get("x", []), "x2": (ret or {}).get("x2", []),
                              "q": (ret or {}).get("q", {}),
                              "ar": (ret or {}).get("ar", {"S": {m: 0 for m in MET}, "lb": 0, "ub": 0, "tt": [], "genes": [],
                                                           "detached": True})},
                      "hooks": list(hooks)[:400], "hooks_on": hooks_on,
                      "obs": [self.project(self.models[1]), self.project(self.models[2])]}
                events.append(ev)
        finally:
            if _verif is not None:
                _verif.set_observer(None)
            cfg.bounds = old_bounds
            for m in self.models.values():
                if m is not None:
                    while m._contexts:
                        try:
                            m.__exit__(None, None, None)
                        except Exception:
                            m._contexts = []
        return {"tid": tid, "palette": self.pal["name"], "events": events}
