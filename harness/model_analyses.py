"""Analyze / Helper actions of the model engine (C13: analyses leave the model as they found it;
C03: helpers added inside a context are gone after it).

An analysis is called TWICE; the uniquely defined outputs of both calls are digested into integer
lists (x, x2) that TLC compares.  Exceptions raised by the analysis are outcomes, not failures."""
import math
import warnings

from .model_driver import Skip


def _fx(v):
    try:
        v = float(v)
    except (TypeError, ValueError):
        return -777777
    if math.isnan(v):
        return -888888
    if math.isinf(v):
        return 999999999 if v > 0 else -999999999
    return int(round(max(-2e3, min(2e3, v)) * 1e5))


def _frame(df, cols):
    out = []
    for idx in sorted(df.index, key=str):
        for c in cols:
            out.append(_fx(df.at[idx, c]))
    return out


def _call(drv, model, kind, arg):
    import cobra
    from cobra import flux_analysis as fa
    rx = list(model.reactions)
    genes = list(model.genes)
    if kind == "optimize":
        s = model.optimize()
        return [_fx(s.objective_value) if s.status == "optimal" else -1, hash(s.status) % 1000]
    if kind == "optimize_min":
        s = model.optimize(objective_sense="minimize")
        return [_fx(s.objective_value) if s.status == "optimal" else -1]
    if kind == "slim_optimize":
        return [_fx(model.slim_optimize())]
    if kind in ("fva", "fva_loopless", "fva_parallel"):
        df = fa.flux_variability_analysis(model, fraction_of_optimum=[1.0, 0.5, 0.0, 0.9][arg],
                                          loopless=(kind == "fva_loopless"),
                                          processes=2 if kind == "fva_parallel" else 1,
                                          pfba_factor=1.5 if arg == 3 else None)
        return _frame(df, ["minimum", "maximum"])
    if kind == "find_blocked_bad_list":
        fa.find_blocked_reactions(model, reaction_list=[r.id for r in rx[:1]] + ["no_such_reaction"], open_exchanges=True,
                                  processes=1)
        return [0]
    if kind == "fva_bad_list":
        fa.flux_variability_analysis(model, reaction_list=[r.id for r in rx[:1]] + ["no_such_reaction"], processes=1,
                                     loopless=bool(arg % 2))
        return [0]
    if kind == "deletion_bad_list":
        fa.single_reaction_deletion(model, [r.id for r in rx[:1]] + ["no_such_reaction"], processes=1)
        return [0]
    if kind == "find_blocked":
        return sorted(hash(x) % 100000 for x in fa.find_blocked_reactions(model, open_exchanges=bool(arg % 2), processes=1))
    if kind in ("essential_genes", "find_essential_genes_parallel"):
        return sorted(hash(g.id) % 100000 for g in fa.find_essential_genes(
            model, processes=2 if kind.endswith("parallel") else 1))
    if kind == "essential_reactions":
        return sorted(hash(r.id) % 100000 for r in fa.find_essential_reactions(model, processes=1))
    if kind == "pfba":
        s = fa.pfba(model, fraction_of_optimum=[1.0, 0.5, 0.0, 1.0][arg])
        return [_fx(s.objective_value)]
    if kind == "moma":
        s = fa.moma(model, linear=True)
        return [_fx(s.objective_value)]
    if kind == "room":
        s = fa.room(model, linear=bool(arg % 2))
        return [_fx(s.objective_value)]
    if kind == "geometric_fba":
        s = fa.geometric_fba(model)
        return [_fx(s.objective_value)]
    if kind == "loopless_solution":
        s = fa.loopless_solution(model)
        return [_fx(s.objective_value)]
    if kind in ("single_gene_deletion", "single_gene_deletion_parallel"):
        df = fa.single_gene_deletion(model, method=["fba", "linear moma", "fba", "linear room"][arg],
                                     processes=2 if kind.endswith("parallel") else 1)
        return sorted((hash(tuple(sorted(i))) % 1000) * 1000003 % 2000000000 + _fx(g) % 1000 for i, g in zip(df["ids"], df["growth"]))
    if kind == "single_reaction_deletion":
        df = fa.single_reaction_deletion(model, processes=1)
        return sorted(_fx(g) for g in df["growth"])
    if kind == "double_gene_deletion":
        df = fa.double_gene_deletion(model, processes=1)
        return sorted(_fx(g) for g in df["growth"])
    if kind == "production_envelope":
        if not rx:
            raise Skip("no reactions")
        df = fa.production_envelope(model, [rx[arg % len(rx)]], points=4)
        return [_fx(v) for v in df["flux_maximum"]]
    if kind in ("minimal_medium", "minimal_medium_components"):
        from cobra.medium import minimal_medium
        res = minimal_medium(model, min_objective_value=1.0 * drv.scale,
                             minimize_components=kind.endswith("components"), exports=bool(arg % 2))
        return [] if res is None else sorted(_fx(v) for v in (res.values.ravel() if hasattr(res, "values") else res))
    if kind == "fastcc":
        m2 = fa.fastcc(model)
        return sorted(hash(r.id) % 100000 for r in m2.reactions)
    if kind in ("sample_achr", "sample_optgp"):
        from cobra.sampling import sample
        df = sample(model, 3, method="achr" if kind == "sample_achr" else "optgp", processes=1, seed=7 + arg)
        return [len(df), len(df.columns)]
    if kind == "model_summary":
        sm = model.summary(fva=0.9 if arg % 2 else None)
        return [len(sm.to_string()) > 0, len(sm.to_frame())]
    if kind == "metabolite_summary":
        if not model.metabolites:
            raise Skip("no metabolites")
        sm = model.metabolites[arg % len(model.metabolites)].summary()
        return [len(sm.to_string()) > 0]
    if kind == "reaction_summary":
        if not rx:
            raise Skip("no reactions")
        sm = rx[arg % len(rx)].summary()
        return [len(sm.to_frame())]
    if kind == "gapfill":
        uni = cobra.Model("uni")
        r = cobra.Reaction("GF1", lower_bound=-10 * drv.scale, upper_bound=10 * drv.scale)
        if model.metabolites:
            r.add_metabolites({model.metabolites[0].copy(): -1})
        uni.add_reactions([r])
        res = fa.gapfill(model, uni, lower_bound=0.5 * drv.scale, demand_reactions=bool(arg % 2))
        return [len(res)]
    if kind == "assess":
        if not rx:
            raise Skip("no reactions")
        res = fa.assess(model, rx[arg % len(rx)])
        return [1 if res is True else 0]
    if kind == "add_loopless_ctx":
        with model:
            fa.add_loopless(model)
            return [_fx(model.slim_optimize())]
    if kind == "medium_get":
        return sorted(_fx(v) for v in model.medium.values())
    raise Skip("unknown analysis " + kind)


def analyze(drv, model, kind, arg):
    with warnings.catch_warnings():
        warnings.simplefilter("ignore")
        x = _call(drv, model, kind, arg)
        x2 = _call(drv, model, kind, arg)
    return {"x": [int(v) for v in x], "x2": [int(v) for v in x2]}


def helper(drv, model, kind):
    from cobra import flux_analysis as fa
    from cobra.util import solver as su
    if not model._contexts:
        raise Skip("helpers are only exercised inside a context")
    names = {v.name for v in model.variables} | {c.name for c in model.constraints}
    if any(n.startswith(("moma_old_objective", "room_old_objective", "indicator_", "s_plus_", "s_minus_", "fixed_objective_"))
           for n in names) or model.objective.name == "_pfba_objective":
        raise Skip("a helper is active already")
    if kind == "add_pfba":
        fa.parsimonious.add_pfba(model)
    elif kind == "add_moma":
        fa.moma.add_moma(model, linear=True)
    elif kind == "add_room":
        fa.room.add_room(model, linear=True)
    elif kind == "fix_objective_as_constraint":
        su.fix_objective_as_constraint(model)
    elif kind == "add_loopless":
        fa.add_loopless(model)
    elif kind == "add_lp_feasibility":
        su.add_lp_feasibility(model)
    elif kind == "custom_objective":
        # an objective the user wrote over solver variables: forward and reverse coefficients of a reaction are
        # whatever the expression says (not c / -c)
        rx = list(model.reactions)
        if not rx:
            raise Skip("no reactions")
        expr = 2 * rx[0].forward_variable
        for r in rx[1:3]:
            expr = expr + r.forward_variable + 3 * r.reverse_variable
        model.objective = model.problem.Objective(expr, direction="max")
    else:
        raise Skip("unknown helper " + kind)
    return None
