"""RoundTrip action of the model engine: export + import through every public route."""
import io
import os
import pickle
import tempfile


class SBMLInvalid(Exception):
    pass


def _tmpdir():
    d = os.path.join(os.path.dirname(os.path.dirname(os.path.abspath(__file__))), ".work", "io_tmp")
    os.makedirs(d, exist_ok=True)
    return d


def round_trip(drv, model, fmt):
    import cobra.io as cio
    if fmt == "json":
        return cio.from_json(cio.to_json(model))
    if fmt == "json_sorted":
        return cio.from_json(cio.to_json(model, sort=True))
    if fmt == "yaml":
        return cio.from_yaml(cio.to_yaml(model))
    if fmt == "dict":
        return cio.model_from_dict(cio.model_to_dict(model))
    if fmt == "pickle":
        return pickle.loads(pickle.dumps(model))
    fd, path = tempfile.mkstemp(dir=_tmpdir(), suffix="." + fmt.split("_")[0])
    os.close(fd)
    try:
        if fmt == "json_file":
            with open(path, "w") as fh:
                cio.save_json_model(model, fh)
            return cio.load_json_model(path)
        if fmt == "yaml_file":
            cio.save_yaml_model(model, path)
            with open(path) as fh:
                return cio.load_yaml_model(fh)
        if fmt == "sbml":
            cio.write_sbml_model(model, path)
            _validate(cio, path)
            return cio.read_sbml_model(path)
        if fmt == "sbml_file":
            with open(path, "w") as fh:
                cio.write_sbml_model(model, fh)
            _validate(cio, path)
            with open(path) as fh:
                return cio.read_sbml_model(fh)
        if fmt == "sbml_freplace_off":
            cio.write_sbml_model(model, path, f_replace={})
            return cio.read_sbml_model(path, f_replace={})
        raise ValueError("unknown format " + fmt)
    finally:
        try:
            os.unlink(path)
        except OSError:
            pass


def _validate(cio, path):
    _, errors = cio.validate_sbml_model(path)
    bad = {k: v for k, v in errors.items() if k in ("SBML_FATAL", "SBML_ERROR", "SBML_SCHEMA_ERROR", "COBRA_FATAL",
                                                     "COBRA_ERROR") and v}
    if bad:
        reasons = set()
        for msgs in bad.values():
            for m in msgs:
                if "listOfFluxObjectives" in m or "fluxObjective" in m:
                    reasons.add("objective")
                elif "listOfReactants" in m or "reactants" in m.lower() and "products" in m.lower():
                    reasons.add("emptyreaction")
                else:
                    reasons.add("other")
        e = SBMLInvalid(str(bad)[:300])
        e.verif_name = "SBMLInvalid:" + "+".join(sorted(reasons))
        raise e


def save(drv, model, fmt):
    """Export now; the document is loaded by a later LoadDoc action."""
    import cobra.io as cio
    if fmt == "json":
        return cio.to_json(model)
    if fmt == "yaml":
        return cio.to_yaml(model)
    if fmt == "dict":
        return cio.model_to_dict(model)         # the saved object itself (it must not alias the model)
    if fmt == "pickle":
        return pickle.dumps(model)
    fd, path = tempfile.mkstemp(dir=_tmpdir(), suffix=".xml")
    os.close(fd)
    try:
        cio.write_sbml_model(model, path)      # (validity is judged by the RoundTrip variants)
        with open(path) as fh:
            return fh.read()
    finally:
        os.unlink(path)


def load(drv, fmt, doc):
    import cobra.io as cio
    if fmt == "json":
        return cio.from_json(doc)
    if fmt == "yaml":
        return cio.from_yaml(doc)
    if fmt == "dict":
        return cio.model_from_dict(doc)         # the saved object itself: every load of it gives the model
    if fmt == "pickle":
        return pickle.loads(doc)
    return cio.read_sbml_model(doc)
