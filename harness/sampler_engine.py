"""Engine `sampler` (property C16): Sampler.tla / SamplerOps.tla / TraceSampler.tla <-> cobra.sampling.

1. design check: TLC runs the sampler protocol machine (Create -> Warmup -> Sample -> Validate) over the
   instance family and a configuration grid and checks the clauses of C16 as invariants, including the
   exactness of the independent feasibility operator on integer points; seven negative controls must fail;
2. cases: TLC emits the instances (homogeneous, forced / fixed fluxes, extra user rows and a user variable),
   their probe points for validate() and the configurations (method, n, thinning, seed, nproj, processes,
   reaction / variable space, class / sample()) as JSON;
3. driver: every case is replayed into REAL ACHRSampler / OptGPSampler / cobra.sampling.sample objects in
   forked, crash-proof workers; every returned row is recorded in 10^-8 fixed point together with the
   column names, validate() codes, digests of two runs with the same seed and of the caller's model;
4. TLC judges every recorded run against the TLC-generated instance (TraceSampler).
"""
import hashlib
import json
import math
import multiprocessing as mp
import os
import threading

from . import common as C

for _k in ("OMP_NUM_THREADS", "OPENBLAS_NUM_THREADS", "MKL_NUM_THREADS"):
    os.environ.setdefault(_k, "1")

SX = 100000000
CLAMP = 2000000000
OPS = ("FluxLatticeOps", "SamplerOps", "Sampler")
INVARIANTS = ["InvRowCount", "InvRowCountAll", "InvRowsFeasible", "InvReproducible", "InvChainsDiffer", "InvValidateAgrees",
              "InvValidateLetters", "InvModelUnchanged", "InvRefusal", "InvOracleExact"]
NEG = {"swap_fwd_rev": "InvRowsFeasible", "no_roundup": "InvRowCount", "same_chain_seed": "InvChainsDiffer",
       "unseeded": "InvReproducible", "validate_ignores_ub": "InvValidateLetters",
       "mutates_model": "InvModelUnchanged", "ignore_user_rows": "InvRowsFeasible"}

TIERS = {
    "quick": {"design": {"NInst": 24, "NCfg": 3}, "cases": {"NInst": 150, "NCfg": 4}, "neg": 2, "item_timeout": 120},
    "thorough": {"design": {"NInst": 80, "NCfg": 6}, "cases": {"NInst": 1800, "NCfg": 6}, "neg": 7, "item_timeout": 300},
}

PALETTES = [
    {"name": "plain", "rid": "R{k}", "mid": "{m}", "z": "zuser", "uc": "urow{i}"},
    {"name": "awkward", "rid": "rx_{inv}_p", "mid": "m_{m}_x", "z": "user var", "uc": "row-{i}"},
]


def _consts(mode, p, sd, bug="none"):
    # the instance family of the design run is pinned (seed independent); the emitted cases follow the seed
    return {"Mode": mode, "NInst": p["NInst"], "Seed": (sd % 60000) if mode == "cases" else 0, "NCfg": p["NCfg"], "Bug": bug}


# ------------------------------------------------------------------ TLC side
def design_check(wd, tier, out):
    """runs in a thread, concurrently with the driver"""
    try:
        T = TIERS[tier]
        cfg = C.write_cfg(os.path.join(wd, "design.cfg"), _consts("design", T["design"], 0), invariants=INVARIANTS,
                          constraints=["Constr"])
        res = C.run_tlc("Sampler", cfg, wd, workers=max(2, C.NCPU // 4), timeout=1500)
        out["design"] = res
        names = sorted(NEG)
        pick = names if T["neg"] >= len(names) else [names[(C.seed() + i * 3) % len(names)] for i in range(T["neg"])]
        controls = {}
        for b in dict.fromkeys(pick):
            cfgp = C.write_cfg(os.path.join(wd, "neg_%s.cfg" % b), _consts("design", {"NInst": 16, "NCfg": 3}, 0, bug=b),
                               invariants=[NEG[b]], constraints=["Constr"])
            r = C.run_tlc("Sampler", cfgp, wd, workers=max(2, C.NCPU // 4), timeout=900, expect_violation=True)
            controls[b] = r["error"]
            if r["error"] != "invariant:" + NEG[b]:
                raise C.Machinery("negative control %s was NOT rejected by TLC (%r): the design check is vacuous"
                                  % (b, r["error"]))
        out["controls"] = controls
    except BaseException as e:      # re-raised by the caller
        out["error"] = e


def generate(wd, tier, sd):
    consts = _consts("cases", TIERS[tier]["cases"], sd)
    key = C.spec_hash(*OPS) + "_" + hashlib.sha256(json.dumps(consts, sort_keys=True).encode()).hexdigest()[:16]
    cpath = os.path.join(C.CACHE, "sampler", key + ".json")
    if os.path.exists(cpath):
        with open(cpath) as fh:
            data = json.load(fh)
        return data["cases"], data["stats"]
    cfgp = C.write_cfg(os.path.join(wd, "gen.cfg"), consts, constraints=["Constr"])
    res = C.run_tlc("Sampler", cfgp, wd, workers=max(2, C.NCPU // 2), timeout=1500)
    by = {}
    for c in res["printed"]:
        by[c["j"]] = c
    cases = [by[k] for k in sorted(by)]
    stats = {"generated": res["generated"], "distinct": res["distinct"], "cmd": res["cmd"],
             "wall_s": round(res["wall_s"], 1), "constants": consts}
    os.makedirs(os.path.dirname(cpath), exist_ok=True)
    tmp = cpath + ".tmp%d" % os.getpid()
    with open(tmp, "w") as fh:
        json.dump({"cases": cases, "stats": stats}, fh)
    os.replace(tmp, cpath)
    return cases, stats


# ------------------------------------------------------------------ driver (forked workers)
def fx(x):
    """float -> 10^-8 fixed point integer, clamped so that TLC's 32-bit arithmetic cannot overflow"""
    try:
        x = float(x)
    except (TypeError, ValueError):
        return CLAMP
    if math.isnan(x):
        return CLAMP
    v = x * SX
    if v >= CLAMP:
        return CLAMP
    if v <= -CLAMP:
        return -CLAMP
    return int(round(v))


def build(inst, pal):
    import cobra
    M = inst["M"]
    n, nm = len(M["rxns"]), len(M["mets"])
    rids = [pal["rid"].format(k=k + 1, inv=n + 7 - k) for k in range(n)]
    mids = [pal["mid"].format(m=M["mets"][j]) for j in range(nm)]
    model = cobra.Model("sampler_case")
    mets = [cobra.Metabolite(i, compartment="c") for i in mids]
    model.add_metabolites(mets)
    rxns = []
    for k in range(n):
        r = cobra.Reaction(rids[k])
        r.add_metabolites({mets[j]: float(M["S"][k][j]) for j in range(nm) if M["S"][k][j]})
        r.bounds = (float(M["lb"][k]), float(M["ub"][k]))
        rxns.append(r)
    model.add_reactions(rxns)
    rx = [model.reactions.get_by_id(i) for i in rids]
    extra = []
    z = None
    if inst["hasz"]:
        z = model.problem.Variable(pal["z"].replace(" ", "_"), lb=float(inst["zb"][0]), ub=float(inst["zb"][1]))
        extra.append(z)
    for i, u in enumerate(inst["U"]):
        expr = sum(float(c) * rx[k].flux_expression for k, c in enumerate(u["coef"]) if c)
        if u["zc"]:
            expr = expr + float(u["zc"]) * z
        extra.append(model.problem.Constraint(expr, lb=float(u["lo"]), ub=float(u["hi"]),
                                              name=pal["uc"].format(i=i + 1).replace("-", "_")))
    if extra:
        model.add_cons_vars(extra)
        model.solver.update()
    # column tokens per space (a forward variable carries the reaction's own id)
    tokens = {True: {}, False: {}}
    for k, r in enumerate(rx):
        tokens[True][r.id] = "v%d" % (k + 1)
        tokens[False][r.forward_variable.name] = "f%d" % (k + 1)
        tokens[False][r.reverse_variable.name] = "r%d" % (k + 1)
    if z is not None:
        tokens[False][z.name] = "z"
    return model, tokens


def model_digest(model):
    model.solver.update()
    d = {
        "rxns": [[r.id, r.lower_bound, r.upper_bound, r.objective_coefficient, r.gene_reaction_rule,
                  sorted((m.id, c) for m, c in r.metabolites.items())] for r in model.reactions],
        "mets": [m.id for m in model.metabolites],
        "dir": str(model.objective_direction),
        "obj": str(model.objective.expression),
        "vars": [[v.name, v.lb, v.ub, v.type] for v in model.variables],
        "cons": [[c.name, c.lb, c.ub, sorted((v.name, float(k)) for v, k in
                                              c.get_linear_coefficients(c.variables).items())]
                 for c in model.constraints],
        "tol": model.tolerance, "ctx": len(model._contexts), "solver": type(model.solver).__module__,
    }
    return hashlib.sha256(json.dumps(d, sort_keys=True, default=str).encode()).hexdigest()[:24]


def _code(c):
    return [ch for ch in str(c)]


def _one_run(model, cfg, want_sampler):
    """-> (outcome, frame or None, sampler or None)"""
    from cobra.sampling import ACHRSampler, OptGPSampler
    from cobra.sampling import sample as sample_fn
    nproj = cfg["nproj"] or None
    try:
        if cfg["via"] == "function":
            df = sample_fn(model, cfg["n"], method=cfg["method"], thinning=cfg["thin"], processes=cfg["P"],
                           seed=cfg["seed"])
            return "ok", df, None
        if cfg["method"] == "achr":
            s = ACHRSampler(model, thinning=cfg["thin"], nproj=nproj, seed=cfg["seed"])
        else:
            s = OptGPSampler(model, thinning=cfg["thin"], processes=cfg["P"], nproj=nproj, seed=cfg["seed"])
        if cfg.get("other", 0):
            # another sampler object, on another model (every bound three times as wide), is created -- and used --
            # before this one samples: sampler objects do not share state
            other_model = model.copy()
            for r in other_model.reactions:
                r.bounds = (3 * r.lower_bound, 3 * r.upper_bound)
            try:
                o = (OptGPSampler(other_model, thinning=1, processes=1, seed=77) if cfg["other"] == 2 or cfg["method"] == "optgp"
                     else ACHRSampler(other_model, thinning=1, seed=77))
                if cfg["other"] == 2:
                    o.sample(3)
            except ValueError:
                pass        # a documented refusal of the OTHER sampler is not this sampler's business
        df = s.sample(cfg["n"], fluxes=cfg["fluxes"])
        for _ in range(cfg.get("rounds", 1) - 1):       # further calls on the same sampler object
            import pandas as pd
            df = pd.concat([df, s.sample(cfg["n2"], fluxes=cfg["fluxes"])], ignore_index=True)
        return "ok", df, s
    except Exception as e:      # the outcome of the call under test
        _one_run.last_message = str(e)
        return type(e).__name__, None, None


def _refusal_class(msg):
    if "single point" in msg:
        return "single_point"
    if "2 search directions" in msg:
        return "two_directions"
    return "other"


def drive_case(item, progress=None):
    import logging
    import warnings
    import numpy as np
    logging.disable(logging.CRITICAL)
    warnings.simplefilter("ignore")
    case, tid, pal = item
    inst = case["inst"]
    model, tokens = build(inst, pal)
    probes = case["probes"]
    runs = []
    validator = None
    solved = False
    for q, cfg in enumerate(case["cfgs"]):
        if progress:
            progress(q)
        pre = model_digest(model)
        outcome, df, s = _one_run(model, cfg, True)
        post = model_digest(model)
        run = {"cfg": cfg, "outcome": outcome, "outcome2": "-", "cols": [], "rows": [], "codes": [], "digest": "-",
               "digest2": "-", "model_pre": pre, "model_post": post,
               "pf": [["-"] for _ in probes], "pv": [["-"] for _ in probes], "msg": "-",
               # history of the caller's model at the two runs: never solved / solved (hidden solver state)
               "hist": ["solved" if solved else "pristine", "solved"], "nwarm": 0, "wmid": False}
        solved = True
        if outcome == "ValueError":
            run["msg"] = _refusal_class(getattr(_one_run, "last_message", ""))
        if outcome == "ok":
            vals = np.asarray(df.values, dtype=float)
            run["cols"] = [tokens[bool(cfg["fluxes"])].get(str(c), "?") for c in df.columns]
            run["rows"] = [[fx(x) for x in row] for row in vals]
            run["digest"] = hashlib.sha1(vals.tobytes()).hexdigest()[:20]
            v = s
            if v is None:
                if validator is None:
                    try:
                        from cobra.sampling import ACHRSampler
                        validator = ACHRSampler(model, thinning=1, seed=1)
                    except Exception:
                        validator = False
                v = validator or None
            if v is not None:
                try:    # the warm-up geometry the sampler built (root-cause tag of F66)
                    w = np.asarray(v.warmup, dtype=float)
                    run["nwarm"] = int(w.shape[0])
                    run["wmid"] = bool(w.shape[0] == 3 and np.allclose(w[2], (w[0] + w[1]) / 2.0, rtol=0, atol=1e-9))
                except Exception:
                    pass
                try:
                    run["codes"] = [_code(c) for c in v.validate(vals)]
                except Exception as e:
                    run["codes"] = [["!"] for _ in run["rows"]]
                    run["msg"] = "validate:" + type(e).__name__
                if q == 0 or s is not None and q % 2 == 1:
                    try:
                        pf = v.validate(np.array([p["flux"] for p in probes], dtype=float) / SX)
                        run["pf"] = [_code(c) for c in pf]
                        iv = [i for i, p in enumerate(probes) if p["vars"]]
                        if iv:
                            pv = v.validate(np.array([probes[i]["vars"] for i in iv], dtype=float) / SX)
                            for i, c in zip(iv, pv):
                                run["pv"][i] = _code(c)
                    except Exception as e:
                        run["msg"] = "validate-probes:" + type(e).__name__
                        run["pf"] = [["!"] for _ in probes]
            else:
                run["codes"] = [["-"] for _ in run["rows"]]
        # the repeated run: a fresh sampler with the same arguments; the environment differs (the model has
        # a warm basis now, the global numpy generator is somewhere else)
        try:
            model.slim_optimize()
            np.random.seed(4242 + q)
        except Exception:
            pass
        outcome2, df2, _ = _one_run(model, cfg, False)
        run["outcome2"] = outcome2
        if outcome2 == "ok":
            run["digest2"] = hashlib.sha1(np.asarray(df2.values, dtype=float).tobytes()).hexdigest()[:20]
        run["model_post"] = model_digest(model) if run["model_post"] == pre else run["model_post"]
        runs.append(run)
    return {"tid": tid, "inst": inst, "probes": probes, "runs": runs, "palette": pal["name"]}


# ------------------------------------------------------------------ validation
def _validate_file(args):
    path, wd = args
    cfgp = C.write_cfg(path + ".cfg")
    res = C.run_tlc("TraceSampler", cfgp, wd, workers=2, env={"TRACE_FILE": path}, timeout=3000, heap="3g")
    return {"printed": res["printed"], "distinct": res["distinct"], "cmd": res["cmd"]}


def validate(traces, wd, tag, max_rows=15000):
    files, cur, n = [], [], 0
    for t in traces:
        cur.append(t)
        n += sum(len(r["rows"]) + 4 for r in t["runs"])
        if n >= max_rows:
            files.append(cur)
            cur, n = [], 0
    if cur:
        files.append(cur)
    jobs = []
    for i, batch in enumerate(files):
        path = os.path.join(wd, "batch_%s_%d.json" % (tag, i))
        with open(path, "w") as fh:
            json.dump([{k: v for k, v in t.items() if k != "palette"} for t in batch], fh)
        jobs.append((path, wd))
    verdicts, distinct, cmd = [], 0, ""
    with mp.get_context("fork").Pool(min(len(jobs), max(1, C.NCPU // 2))) as pool:
        for r in pool.imap_unordered(_validate_file, jobs):
            verdicts.extend(r["printed"])
            distinct += r["distinct"]
            cmd = r["cmd"]
    expected = sum(len(t["runs"]) + 1 for t in traces)
    if distinct != expected:
        raise C.Machinery("trace validation consumed %d states, expected %d (%s)" % (distinct, expected, tag))
    return verdicts, cmd


def _crashed(case, tid, pal, r):
    """a worker died / hung inside a sampler call: the run in flight gets the outcome crash:<signal>"""
    q = r.get("progress") or 0
    cfg = case["cfgs"][min(q, len(case["cfgs"]) - 1)]
    run = {"cfg": cfg, "outcome": "crash:" + str(r["crash"]), "outcome2": "-", "cols": [], "rows": [], "codes": [],
           "digest": "-", "digest2": "-", "model_pre": "-", "model_post": "-",
           "pf": [["-"] for _ in case["probes"]], "pv": [["-"] for _ in case["probes"]], "msg": "-",
           "hist": ["-", "-"], "nwarm": 0, "wmid": False}
    return {"tid": tid, "inst": case["inst"], "probes": case["probes"], "runs": [run], "palette": pal["name"]}


def run(prop, tier, replay=None):
    assert prop == "C16"
    rep = C.Report(prop, tier)
    wd = C.workdir("C16_" + tier)
    rep.cleanup.append(wd)
    sd = C.seed()
    T = TIERS[tier]
    if replay is not None:
        return _replay(rep, wd, replay)
    dres = {}
    import time
    t0 = time.time()
    phases = {}
    th = threading.Thread(target=design_check, args=(wd, tier, dres))
    th.start()
    try:
        cases, stats = generate(wd, tier, sd)
        phases["generate"] = round(time.time() - t0, 1)
        items = [(c, i + 1, PALETTES[(i + sd) % len(PALETTES)]) for i, c in enumerate(cases)]
        # every case runs in its own forked process: load the library under test once, here, so that the
        # children inherit it (the parent itself never calls into it)
        import cobra.sampling  # noqa: F401
        results = C.isolated_map(drive_case, items, max(2, C.NCPU - 4), wd, "sampler", item_timeout=T["item_timeout"])
        traces = []
        for (case, tid, pal), r in zip(items, results):
            if r is None:
                raise C.Machinery("no result for case %d" % tid)
            traces.append(_crashed(case, tid, pal, r) if "crash" in r else r)
        phases["drive"] = round(time.time() - t0, 1)
        verdicts, cmd = validate(traces, wd, "main")
        phases["validate"] = round(time.time() - t0, 1)
    finally:
        th.join()
    phases["design_joined"] = round(time.time() - t0, 1)
    rep.coverage["phase_end_s"] = phases
    if "error" in dres:
        raise dres["error"]
    rep.add_design(dres["design"])
    by_tid = {t["tid"]: t for t in traces}
    case_of = {tid: case for case, tid, pal in items}
    for v in verdicts:
        t = by_tid[v["tid"]]
        v2 = dict(v)
        v2["spec"] = "TraceSampler"
        rep.verdict(v2, {"engine": "sampler", "case": case_of[v["tid"]], "palette": t["palette"],
                         "failing_run": t["runs"][v["l"] - 1]["cfg"]})
    per, rows, nruns, refusals, varspace, pooled, probes_judged = {}, 0, 0, 0, 0, 0, 0
    pairs = set()
    for t in traces:
        for r in t["runs"]:
            nruns += 1
            k = "%s:%s:%s" % (r["cfg"]["method"], r["cfg"]["via"], r["outcome"])
            per[k] = per.get(k, 0) + 1
            rows += len(r["rows"])
            refusals += r["outcome"] == "ValueError"
            varspace += (r["outcome"] == "ok" and not r["cfg"]["fluxes"])
            pooled += (r["outcome"] == "ok" and r["cfg"]["P"] > 1)
            probes_judged += sum(1 for c in r["pf"] if c != ["-"]) + sum(1 for c in r["pv"] if c != ["-"])
            pairs.add((t["tid"], json.dumps(r["cfg"], sort_keys=True)))
    ok_by_method = {m: sum(n for k, n in per.items() if k.startswith(m + ":") and k.endswith(":ok")) for m in ("achr", "optgp")}
    if min(ok_by_method.values()) == 0 or refusals == 0 or varspace == 0 or pooled == 0 or probes_judged == 0 or rows == 0:
        raise C.Machinery("vacuity: ok runs %s, refusals %d, variable-space runs %d, pooled runs %d, probes %d, rows %d"
                          % (ok_by_method, refusals, varspace, pooled, probes_judged, rows))
    rep.coverage["samples"] = [_shorten(traces[len(traces) // 2]), _shorten(traces[0])]
    rep.coverage["exhaustive"] = False
    rep.coverage["trace_checker_cmd"] = cmd
    rep.coverage["case_generation"] = {"instances_in_scope": len(cases), "tlc_states": stats["distinct"],
                                       "constants": stats["constants"], "cmd": stats["cmd"]}
    rep.coverage["design_constants"] = _consts("design", T["design"], 0)
    rep.assumptions = [
        "instances: 14 pinned ones (segments, single points, cones, fixed / forced / negative-only fluxes, user rows, a "
        "user variable) plus seeded pseudo-random unit networks with 4-6 reactions and |bounds| <= 5; configurations "
        "are seeded samples of the grid method x n x thinning x seed x nproj x processes x space x entry point",
        "a row is infeasible only when some constraint is violated by more than the documented tolerance 1e-7 plus "
        "the rounding slack of the 10^-8 fixed point (at most 1e-8 per term); borderline rows are not judged",
        "reproducibility is judged on a digest of the exact floats of two fresh samplers with equal arguments",
        "the ValueError refusal is accepted only when the integer points of the polytope span at most a segment "
        "(exact for instances without user rows: the polytope is integral)",
    ]
    return rep.finish({
        "traces_validated_against_impl": len(traces), "events_validated": nruns, "rows_judged_by_tlc": rows,
        "probe_points_judged": probes_judged, "per_action_counts": per, "negative_controls": dres.get("controls", {}),
        "refusals_seen": refusals, "variable_space_runs": varspace, "pooled_runs": pooled,
        "distinct_pre_state_action_pairs": len(pairs),
        "rule": "a case is a distinct (instance, configuration) pair whose sampler was really built and asked for "
                "samples twice; every returned row of the first run is one judged observation",
    })


def _shorten(t):
    t2 = dict(t)
    t2["runs"] = [dict(r, rows=r["rows"][:3], codes=r["codes"][:3]) for r in t["runs"][:2]]
    t2["probes"] = t["probes"][:3]
    return t2


def _replay(rep, wd, payload):
    r = payload["replay"]
    pal = [p for p in PALETTES if p["name"] == r["palette"]][0]
    res = C.isolated_map(drive_case, [(r["case"], 1, pal)], 1, wd, "replay", item_timeout=300)[0]
    t = _crashed(r["case"], 1, pal, res) if "crash" in res else res
    verdicts, cmd = validate([t], wd, "replay")
    for v in verdicts:
        v2 = dict(v)
        v2["spec"] = "TraceSampler"
        rep.verdict(v2, {"engine": "sampler", "case": r["case"], "palette": pal["name"],
                         "failing_run": t["runs"][v["l"] - 1]["cfg"]})
    rep.coverage["states"] = rep.coverage["transitions"] = 1
    rep.coverage["samples"] = [_shorten(t)]
    return rep.finish({"traces_validated_against_impl": 1, "events_validated": len(t["runs"])})
